"""Translator (AST, no import): the constants of /repo/sievelib/factory.py that the hand-written factory models
(coq/factory/Build.v, Load.v, Read.v) repeat -> coq/gen/FactoryConsts.v.

 * check_if_arg_is_extension: the dict args_using_extensions (tag -> extension), in source order;
 * __create_filter: the tuple `negatable`; the condition keywords of the dispatch on cname, in source order
   (the strings compared with `cname` by `==` / `in`); the strings given to commands.get_command_instance;
 * get_filter_conditions: the command classes whose args_as_tuple is read (isinstance tuple, in order), the class
   that sets `negate`, and for every branch of the negation folding the names it applies to;
 * get_filter_actions: the class tested; get_filter_matchtype: the classes tested;
 * FiltersSet.__init__: the default marker texts;
 * from_parser_result: the class recognised as a require command, the format of the default filter name.
Fails closed (exit 1) on a shape it does not know.  coq/factory/ConstFacts.v proves that the models use
exactly these constants (re-checked on every run).
"""
import ast
import os
import sys

REPO = os.environ.get("SIEVELIB_REPO", "/repo")
HERE = os.path.dirname(os.path.dirname(os.path.abspath(__file__)))
OUT = os.path.join(HERE, "coq", "gen", "FactoryConsts.v")


def die(msg):
    raise SystemExit("gen_factory: " + msg)


def coq_str(s):
    if any(ord(c) > 126 or ord(c) < 32 for c in s):
        die("non-printable constant %r" % s)
    return 'bs "' + s.replace('"', '""') + '"'


def coq_list(items):
    return "[" + "; ".join(items) + "]"


def const_str(node):
    if isinstance(node, ast.Constant) and isinstance(node.value, str):
        return node.value
    die("expected a string literal at line %d" % node.lineno)


def strs_of(node):
    if isinstance(node, (ast.Tuple, ast.List)):
        return [const_str(e) for e in node.elts]
    die("expected a tuple/list of string literals at line %d" % node.lineno)


def method(cls, name):
    for fn in cls.body:
        if isinstance(fn, ast.FunctionDef) and fn.name in (name, "_FiltersSet" + name):
            return fn
    die("method %s not found" % name)


def class_name(node):
    # commands.XyzCommand -> xyz
    if isinstance(node, ast.Attribute) and node.attr.endswith("Command"):
        return node.attr[:-len("Command")].lower()
    return None


def isinstance_classes(call):
    if not (isinstance(call, ast.Call) and isinstance(call.func, ast.Name) and call.func.id == "isinstance"):
        return None
    arg = call.args[1]
    names = [class_name(e) for e in arg.elts] if isinstance(arg, ast.Tuple) else [class_name(arg)]
    return None if any(n is None for n in names) else names


def main():
    src = open(os.path.join(REPO, "sievelib", "factory.py")).read()
    tree = ast.parse(src)
    cls = [n for n in tree.body if isinstance(n, ast.ClassDef) and n.name == "FiltersSet"]
    if len(cls) != 1:
        die("class FiltersSet not found")
    cls = cls[0]

    # --- check_if_arg_is_extension
    fn = method(cls, "check_if_arg_is_extension")
    arg_exts = None
    for node in ast.walk(fn):
        if isinstance(node, ast.Assign) and isinstance(node.value, ast.Dict):
            arg_exts = [(const_str(k), const_str(v)) for k, v in zip(node.value.keys, node.value.values)]
    if arg_exts is None:
        die("args_using_extensions not found")

    # --- __create_filter
    fn = method(cls, "__create_filter")
    negatable = None
    dispatch = []
    for node in ast.walk(fn):
        if isinstance(node, ast.Assign) and len(node.targets) == 1 and isinstance(node.targets[0], ast.Name) \
                and node.targets[0].id == "negatable":
            negatable = strs_of(node.value)
        if isinstance(node, ast.Compare) and isinstance(node.left, ast.Name) and node.left.id == "cname" and len(node.ops) == 1:
            if isinstance(node.ops[0], ast.Eq):
                dispatch.append(const_str(node.comparators[0]))
            elif isinstance(node.ops[0], ast.In):
                dispatch += strs_of(node.comparators[0])
            else:
                die("unknown comparison of cname at line %d" % node.lineno)
    if negatable is None:
        die("negatable not found in __create_filter")
    # ast.walk is breadth-first: order the keywords by source position instead
    dispatch = []
    comps = [n for n in ast.walk(fn) if isinstance(n, ast.Compare) and isinstance(n.left, ast.Name) and n.left.id == "cname"]
    for node in sorted(comps, key=lambda n: (n.lineno, n.col_offset)):
        if isinstance(node.ops[0], ast.Eq):
            dispatch.append(const_str(node.comparators[0]))
        else:
            dispatch += strs_of(node.comparators[0])
    instances = []
    calls = [n for n in ast.walk(fn) if isinstance(n, ast.Call) and isinstance(n.func, ast.Attribute)
             and n.func.attr == "get_command_instance"]
    for node in sorted(calls, key=lambda n: (n.lineno, n.col_offset)):
        a0 = node.args[0]
        if isinstance(a0, ast.Constant):
            instances.append(const_str(a0))
    requires_lit = []
    calls = [n for n in ast.walk(fn) if isinstance(n, ast.Call) and isinstance(n.func, ast.Attribute)
             and n.func.attr == "require" and n.args and isinstance(n.args[0], ast.Constant)]
    for node in sorted(calls, key=lambda n: (n.lineno, n.col_offset)):
        requires_lit.append(const_str(node.args[0]))

    # --- get_filter_conditions
    fn = method(cls, "get_filter_conditions")
    negate_class, readable = None, None
    fold = []
    for node in sorted([n for n in ast.walk(fn) if isinstance(n, ast.If)], key=lambda n: (n.lineno, n.col_offset)):
        t = node.test
        cl = isinstance_classes(t)
        if cl is not None:
            if len(cl) == 1 and negate_class is None:
                negate_class = cl[0]
            elif readable is None:
                readable = cl
            continue
        if isinstance(t, ast.Compare) and isinstance(t.left, ast.Attribute) and t.left.attr == "name":
            if isinstance(t.ops[0], ast.In):
                fold.append(strs_of(t.comparators[0]))
            elif isinstance(t.ops[0], ast.Eq):
                fold.append([const_str(t.comparators[0])])
            else:
                die("unknown test on node.name at line %d" % t.lineno)
    if negate_class is None or readable is None:
        die("get_filter_conditions: isinstance tests not found")

    # --- get_filter_actions / get_filter_matchtype
    fn = method(cls, "get_filter_actions")
    act_class = None
    for node in ast.walk(fn):
        if isinstance(node, ast.Call) and isinstance(node.func, ast.Name) and node.func.id == "isinstance":
            a = node.args[1]
            if isinstance(a, ast.Attribute):
                act_class = a.attr
    if act_class != "ActionCommand":
        die("get_filter_actions does not test commands.ActionCommand")
    fn = method(cls, "get_filter_matchtype")
    mt_classes = None
    for node in ast.walk(fn):
        cl = isinstance_classes(node) if isinstance(node, ast.Call) else None
        if cl:
            mt_classes = cl
    if mt_classes is None:
        die("get_filter_matchtype: isinstance test not found")

    # --- __init__ defaults
    fn = method(cls, "__init__")
    defaults = {}
    args = fn.args
    names = [a.arg for a in args.args]
    for a, dflt in zip(names[len(names) - len(args.defaults):], args.defaults):
        if a in ("filter_name_pretext", "filter_desc_pretext"):
            defaults[a] = const_str(dflt)
    if set(defaults) != {"filter_name_pretext", "filter_desc_pretext"}:
        die("default marker texts not found")

    # --- from_parser_result
    fn = method(cls, "from_parser_result")
    req_class, unnamed = None, None
    for node in ast.walk(fn):
        if isinstance(node, ast.Call):
            cl = isinstance_classes(node)
            if cl and cl[0] == "require":
                req_class = cl[0]
        if isinstance(node, ast.BinOp) and isinstance(node.op, ast.Mod) and isinstance(node.left, ast.Constant) \
                and isinstance(node.left.value, str) and node.left.value.startswith("Unnamed"):
            unnamed = node.left.value
    if req_class is None or unnamed is None or not unnamed.endswith("%d"):
        die("from_parser_result: require class / default name not found")

    # --- disablefilter / __isdisabled
    fn = method(cls, "__isdisabled")
    dis = []
    for node in sorted([n for n in ast.walk(fn) if isinstance(n, ast.Call)], key=lambda n: (n.lineno, n.col_offset)):
        cl = isinstance_classes(node)
        if cl:
            dis += cl
    if dis != ["if", "false"]:
        die("__isdisabled does not test IfCommand then FalseCommand")

    out = []
    out.append("(* GENERATED by tools/gen_factory.py from /repo/sievelib/factory.py — do not edit *)")
    out.append("From Coq Require Import String.")
    out.append("From Coq Require Import List NArith.")
    out.append("From SV Require Import Bytes.")
    out.append("Import ListNotations.")
    out.append("")
    out.append("Definition gen_arg_exts : list (bytes * bytes) := %s." %
               coq_list("(%s, %s)" % (coq_str(k), coq_str(v)) for k, v in arg_exts))
    out.append("Definition gen_negatable : list bytes := %s." % coq_list(coq_str(x) for x in negatable))
    out.append("Definition gen_dispatch : list bytes := %s." % coq_list(coq_str(x) for x in dispatch))
    out.append("Definition gen_instances : list bytes := %s." % coq_list(coq_str(x) for x in instances))
    out.append("Definition gen_literal_requires : list bytes := %s." % coq_list(coq_str(x) for x in requires_lit))
    out.append("Definition gen_negate_class : bytes := %s." % coq_str(negate_class))
    out.append("Definition gen_readable : list bytes := %s." % coq_list(coq_str(x) for x in readable))
    out.append("Definition gen_fold_not : list (list bytes) := %s." %
               coq_list(coq_list(coq_str(x) for x in grp) for grp in fold))
    out.append("Definition gen_matchtype_classes : list bytes := %s." % coq_list(coq_str(x) for x in mt_classes))
    out.append("Definition gen_name_pretext : bytes := %s." % coq_str(defaults["filter_name_pretext"]))
    out.append("Definition gen_desc_pretext : bytes := %s." % coq_str(defaults["filter_desc_pretext"]))
    out.append("Definition gen_unnamed_prefix : bytes := %s." % coq_str(unnamed[:-2]))
    out.append("Definition gen_disabled_classes : list bytes := %s." % coq_list(coq_str(x) for x in dis))
    text = "\n".join(out) + "\n"
    os.makedirs(os.path.dirname(OUT), exist_ok=True)
    if not os.path.exists(OUT) or open(OUT).read() != text:
        open(OUT, "w").write(text)
    return 0


if __name__ == "__main__":
    sys.exit(main())
