"""Translator (AST, no import): the constants of /repo/sievelib/factory.py that the hand-written factory models
(coq/factory/Build.v, Load.v, Read.v) repeat -> coq/gen/FactoryConsts.v.

 * check_if_arg_is_extension: the dict args_using_extensions (tag -> extension), in source order;
 * __create_filter: the tuple `negatable`; the condition keywords of the dispatch on cname, in source order
   (the strings compared with `cname` by `==` / `in`); the strings given to commands.get_command_instance;
 * get_filter_conditions: the command classes whose args_as_tuple is read (isinstance tuple, in order), the class
   that sets `negate`, and for every branch of the negation folding the names it applies to;
 * get_filter_actions: the class tested; get_filter_matchtype: the classes tested;
 * FiltersSet.__init__: the default marker texts;
 * from_parser_result: the class recognised as a require command, the format of the default filter name.
Fails SOFT: a constant whose source shape it does not recognise (after a refactoring of factory.py) is emitted as
None, the obligation about it in coq/factory/ConstFacts.v then holds vacuously and the line
"gen_factory: unclassified <name>" is printed; the behaviour stays tied to the models by the differential runs.
(The other three translators fail closed: C10 and C13 rest on them.)  coq/factory/ConstFacts.v proves that the
models use exactly the constants that were read (re-checked on every run).
"""
import ast
import os
import sys

REPO = os.environ.get("SIEVELIB_REPO", "/repo")
HERE = os.path.dirname(os.path.dirname(os.path.abspath(__file__)))
OUT = os.path.join(HERE, "coq", "gen", "FactoryConsts.v")


def die(msg):
    raise SystemExit("gen_factory: " + msg)


def coq_str(s):
    if any(ord(c) > 126 or ord(c) < 32 for c in s):
        die("non-printable constant %r" % s)
    return 'bs "' + s.replace('"', '""') + '"'


def coq_list(items):
    return "[" + "; ".join(items) + "]"


def const_str(node):
    if isinstance(node, ast.Constant) and isinstance(node.value, str):
        return node.value
    die("expected a string literal at line %d" % node.lineno)


def strs_of(node):
    if isinstance(node, (ast.Tuple, ast.List)):
        return [const_str(e) for e in node.elts]
    die("expected a tuple/list of string literals at line %d" % node.lineno)


def method(cls, name):
    for fn in cls.body:
        if isinstance(fn, ast.FunctionDef) and fn.name in (name, "_FiltersSet" + name):
            return fn
    die("method %s not found" % name)


def class_name(node):
    # commands.XyzCommand -> xyz
    if isinstance(node, ast.Attribute) and node.attr.endswith("Command"):
        return node.attr[:-len("Command")].lower()
    return None


def isinstance_classes(call):
    if not (isinstance(call, ast.Call) and isinstance(call.func, ast.Name) and call.func.id == "isinstance"):
        return None
    arg = call.args[1]
    names = [class_name(e) for e in arg.elts] if isinstance(arg, ast.Tuple) else [class_name(arg)]
    return None if any(n is None for n in names) else names


def soft(name, f):
    try:
        return f()
    except SystemExit as e:
        print("gen_factory: unclassified %s (%s)" % (name, e))
        return None


def main():
    src = open(os.path.join(REPO, "sievelib", "factory.py")).read()
    tree = ast.parse(src)
    cls = [n for n in tree.body if isinstance(n, ast.ClassDef) and n.name == "FiltersSet"]
    if len(cls) != 1:
        die("class FiltersSet not found")
    cls = cls[0]

    def x_arg_exts():
        fn = method(cls, "check_if_arg_is_extension")
        for node in ast.walk(fn):
            if isinstance(node, ast.Assign) and isinstance(node.value, ast.Dict):
                return [(const_str(k), const_str(v)) for k, v in zip(node.value.keys, node.value.values)]
        die("args_using_extensions not found")

    def x_negatable():
        fn = method(cls, "__create_filter")
        for node in ast.walk(fn):
            if isinstance(node, ast.Assign) and len(node.targets) == 1 and isinstance(node.targets[0], ast.Name) \
                    and node.targets[0].id == "negatable":
                return strs_of(node.value)
        die("negatable not found in __create_filter")

    def x_dispatch():
        fn = method(cls, "__create_filter")
        out = []
        comps = [n for n in ast.walk(fn) if isinstance(n, ast.Compare) and isinstance(n.left, ast.Name) and n.left.id == "cname"]
        if not comps:
            die("no comparison of cname")
        for node in sorted(comps, key=lambda n: (n.lineno, n.col_offset)):
            if len(node.ops) != 1:
                die("chained comparison of cname")
            if isinstance(node.ops[0], ast.Eq):
                out.append(const_str(node.comparators[0]))
            elif isinstance(node.ops[0], ast.In):
                out += strs_of(node.comparators[0])
            else:
                die("unknown comparison of cname at line %d" % node.lineno)
        return out

    def x_literal_requires():
        fn = method(cls, "__create_filter")
        calls = [n for n in ast.walk(fn) if isinstance(n, ast.Call) and isinstance(n.func, ast.Attribute)
                 and n.func.attr == "require" and n.args and isinstance(n.args[0], ast.Constant)]
        return [const_str(n.args[0]) for n in sorted(calls, key=lambda n: (n.lineno, n.col_offset))]

    def x_conditions():
        fn = method(cls, "get_filter_conditions")
        negate_class, readable = None, None
        fold = []
        for node in sorted([n for n in ast.walk(fn) if isinstance(n, ast.If)], key=lambda n: (n.lineno, n.col_offset)):
            t = node.test
            cl = isinstance_classes(t)
            if cl is not None:
                if len(cl) == 1 and negate_class is None:
                    negate_class = cl[0]
                elif readable is None:
                    readable = cl
                continue
            if isinstance(t, ast.Compare) and isinstance(t.left, ast.Attribute) and t.left.attr == "name":
                if isinstance(t.ops[0], ast.In):
                    fold.append(strs_of(t.comparators[0]))
                elif isinstance(t.ops[0], ast.Eq):
                    fold.append([const_str(t.comparators[0])])
                else:
                    die("unknown test on node.name at line %d" % t.lineno)
        if negate_class is None or readable is None:
            die("get_filter_conditions: isinstance tests not found")
        return negate_class, readable, fold

    def x_matchtype():
        fn = method(cls, "get_filter_matchtype")
        for node in ast.walk(fn):
            cl = isinstance_classes(node) if isinstance(node, ast.Call) else None
            if cl:
                return cl
        die("get_filter_matchtype: isinstance test not found")

    def x_unnamed():
        fn = method(cls, "from_parser_result")
        for node in ast.walk(fn):
            if isinstance(node, ast.BinOp) and isinstance(node.op, ast.Mod) and isinstance(node.left, ast.Constant) \
                    and isinstance(node.left.value, str) and node.left.value.endswith("%d"):
                return node.left.value[:-2]
        die("from_parser_result: default name not found")

    def x_disabled():
        fn = method(cls, "__isdisabled")
        dis = []
        for node in sorted([n for n in ast.walk(fn) if isinstance(n, ast.Call)], key=lambda n: (n.lineno, n.col_offset)):
            cl = isinstance_classes(node)
            if cl:
                dis += cl
        if len(dis) != 2:
            die("__isdisabled: two isinstance tests expected")
        return dis

    arg_exts = soft("gen_arg_exts", x_arg_exts)
    negatable = soft("gen_negatable", x_negatable)
    dispatch = soft("gen_dispatch", x_dispatch)
    lit_reqs = soft("gen_literal_requires", x_literal_requires)
    conds = soft("gen_conditions", x_conditions)
    mt_classes = soft("gen_matchtype_classes", x_matchtype)
    unnamed = soft("gen_unnamed_prefix", x_unnamed)
    dis = soft("gen_disabled_classes", x_disabled)

    def opt(v, render):
        return "None" if v is None else "Some (%s)" % render(v)

    lst = lambda l: coq_list(coq_str(x) for x in l)
    out = []
    out.append("(* GENERATED by tools/gen_factory.py from /repo/sievelib/factory.py — do not edit *)")
    out.append("From Coq Require Import String.")
    out.append("From Coq Require Import List NArith.")
    out.append("From SV Require Import Bytes.")
    out.append("Import ListNotations.")
    out.append("")
    out.append("Definition gen_arg_exts : option (list (bytes * bytes)) := %s." %
               opt(arg_exts, lambda v: coq_list("(%s, %s)" % (coq_str(k), coq_str(x)) for k, x in v)))
    out.append("Definition gen_negatable : option (list bytes) := %s." % opt(negatable, lst))
    out.append("Definition gen_dispatch : option (list bytes) := %s." % opt(dispatch, lst))
    out.append("Definition gen_literal_requires : option (list bytes) := %s." % opt(lit_reqs, lst))
    out.append("Definition gen_negate_class : option bytes := %s." % opt(conds and conds[0], coq_str))
    out.append("Definition gen_readable : option (list bytes) := %s." % opt(conds and conds[1], lst))
    out.append("Definition gen_fold_not : option (list (list bytes)) := %s." %
               opt(conds and conds[2], lambda v: coq_list(lst(g) for g in v)))
    out.append("Definition gen_matchtype_classes : option (list bytes) := %s." % opt(mt_classes, lst))
    out.append("Definition gen_unnamed_prefix : option bytes := %s." % opt(unnamed, coq_str))
    out.append("Definition gen_disabled_classes : option (list bytes) := %s." % opt(dis, lst))
    text = "\n".join(out) + "\n"
    os.makedirs(os.path.dirname(OUT), exist_ok=True)
    if not os.path.exists(OUT) or open(OUT).read() != text:
        open(OUT, "w").write(text)
    return 0


if __name__ == "__main__":
    sys.exit(main())
