"""Translator (introspection of the live classes): /repo/sievelib/commands.py + parser.py -> coq/gen/GenTables.v.

Imports sievelib from the working tree (PYTHONPATH=/repo) and writes, for every class that
get_command_instance() can reach, its full definition as a Coq [cmddef]; plus Parser.lrules.
Introspection (not the AST) is used on purpose: it sees inheritance and shared dicts exactly as
the interpreter does.  Fails closed (exit 1) on anything it cannot classify.
"""
import os
import sys

HERE = os.path.dirname(os.path.dirname(os.path.abspath(__file__)))
OUT = os.path.join(HERE, "coq", "gen", "GenTables.v")

KNOWN_ARG_KEYS = {"name", "type", "required", "values", "extension", "extension_values", "extra_arg"}
KNOWN_EXTRA_KEYS = {"type", "values", "valid_for"}
TYPES = {"tag": "TyTag", "string": "TyString", "stringlist": "TyStringList", "number": "TyNumber",
         "test": "TyTest", "testlist": "TyTestList"}
TOKENS = {"left_bracket": "TLeftBracket", "right_bracket": "TRightBracket", "left_parenthesis": "TLeftParen",
          "right_parenthesis": "TRightParen", "left_cbracket": "TLeftCBracket", "right_cbracket": "TRightCBracket",
          "semicolon": "TSemicolon", "comma": "TComma", "hash_comment": "THashComment",
          "bracket_comment": "TBracketComment", "multiline": "TMultiline", "string": "TString",
          "identifier": "TIdentifier", "tag": "TTag", "number": "TNumber"}


class Unclassifiable(Exception):
    pass


def cs(s):
    if not isinstance(s, str):
        raise Unclassifiable("expected str, got %r" % (s,))
    for ch in s:
        if ord(ch) > 126 or ord(ch) < 32:
            raise Unclassifiable("non printable-ASCII string in tables: %r" % s)
    return 'bs "%s"' % s.replace('"', '""')


def clist(items):
    return "[" + "; ".join(items) + "]"


def copt(x, f):
    return "None" if x is None else "(Some %s)" % f(x)


def cbool(b):
    return "true" if b else "false"


def ctype_of(t):
    if t in TYPES:
        return TYPES[t]
    return "(TyOther (%s))" % cs(t)


def extra_to_coq(e):
    unknown = set(e) - KNOWN_EXTRA_KEYS
    if unknown:
        raise Unclassifiable("unknown extra_arg keys %r" % sorted(unknown))
    t = e["type"]
    if isinstance(t, str):
        et = "(ExStr (%s))" % cs(t)
    elif isinstance(t, (list, tuple)):
        et = "(ExList %s)" % clist([ctype_of(x) for x in t])
    else:
        raise Unclassifiable("extra_arg type %r" % (t,))
    return "(mkExtra %s %s %s)" % (
        et,
        copt(e.get("values"), lambda v: clist([cs(x) for x in v])),
        copt(e.get("valid_for"), lambda v: clist([cs(x) for x in v])))


def arg_to_coq(a):
    unknown = set(a) - KNOWN_ARG_KEYS
    if unknown:
        raise Unclassifiable("unknown argument keys %r" % sorted(unknown))
    if not isinstance(a["type"], (list, tuple)):
        raise Unclassifiable("argument type must be a list: %r" % (a["type"],))
    ev = a.get("extension_values")
    return "(mkArg (%s) %s %s %s %s %s %s)" % (
        cs(a["name"]), clist([ctype_of(x) for x in a["type"]]), cbool(bool(a.get("required", False))),
        copt(a.get("values"), lambda v: clist([cs(x) for x in v])),
        copt(a.get("extension"), lambda v: "(%s)" % cs(v)),
        copt(ev, lambda v: clist(["(%s, %s)" % (cs(k), cs(x)) for k, x in v.items()])),
        copt(a.get("extra_arg"), extra_to_coq))


def main():
    from sievelib import commands
    from sievelib.parser import Parser
    Command = commands.Command
    rows = []
    skipped = []
    for key, cls in sorted(vars(commands).items()):
        if not (isinstance(cls, type) and issubclass(cls, Command)):
            continue
        if not key.endswith("Command"):
            continue
        base = key[:-len("Command")]
        reachable = (base != "" and base == base.lower().capitalize()
                     and hasattr(cls, "args_definition") and hasattr(cls, "_type"))
        if not reachable:
            skipped.append(key)
            continue
        inst = cls()
        t = inst.get_type()
        if t not in ("control", "action", "test"):
            raise Unclassifiable("%s: type %r" % (key, t))
        # code hooks: only the overrides the hand-written model knows
        for hook in ("tosieve", "dump", "walk", "iscomplete", "check_next_arg", "addchild", "has_arguments",
                     "get_type", "__init__", "__contains__", "__getitem__"):
            if getattr(cls, hook) is not getattr(Command, hook):
                raise Unclassifiable("%s overrides %s (no model)" % (key, hook))
        complete = "HNone"
        if cls.complete_cb is not Command.complete_cb:
            if cls is commands.RequireCommand or cls.complete_cb is commands.RequireCommand.complete_cb:
                complete = "HRequire"
            else:
                raise Unclassifiable("%s overrides complete_cb (no model)" % key)
        reassign = "RNotImplemented"
        if cls.reassign_arguments is not Command.reassign_arguments:
            if cls.reassign_arguments is commands.HasflagCommand.reassign_arguments:
                reassign = "RHasflag"
            else:
                raise Unclassifiable("%s overrides reassign_arguments (no model)" % key)
        ef = inst.get_expected_first()
        if ef is not None:
            for x in ef:
                if x not in TOKENS:
                    raise Unclassifiable("%s: expected_first %r" % (key, x))
        mf = cls.must_follow
        ctor = {"control": "CControl", "action": "CAction", "test": "CTest"}[t]
        rows.append("  (%s,\n   mkCmd (%s) %s\n     %s\n     %s %s %s %s %s %s %s %s)" % (
            cs(base.lower()), cs(inst.name), ctor,
            clist([arg_to_coq(a) for a in cls.args_definition]),
            cbool(bool(cls.accept_children)), cbool(bool(cls.variable_args_nb)), cbool(bool(cls.non_deterministic_args)),
            copt(mf, lambda v: clist([cs(x) for x in v])),
            copt(cls.extension, lambda v: "(%s)" % cs(v)),
            copt(ef, lambda v: clist([TOKENS[x] for x in v])),
            complete, reassign))
    lr = []
    for name, pat in Parser.lrules:
        lr.append('  ("%s", "%s")' % (name.decode("ascii"), pat.decode("ascii").replace('"', '""')))
    out = ["(* GENERATED by tools/gen_tables.py from /repo/sievelib/commands.py and parser.py — do not edit *)",
           "From Coq Require Import String.", "From Coq Require Import List NArith Bool.",
           "From SV Require Import Bytes Lexer Tables.", "Import ListNotations.", "",
           "(* classes named *Command that get_command_instance cannot reach: %s *)" % ", ".join(skipped), "",
           "Definition gen_tables : tables := [", ";\n".join(rows), "].", "",
           "Definition gen_lrules : list (string * string) := [", ";\n".join(lr), "]%string."]
    text = "\n".join(out) + "\n"
    os.makedirs(os.path.dirname(OUT), exist_ok=True)
    if not os.path.exists(OUT) or open(OUT).read() != text:
        open(OUT, "w").write(text)
    return 0


if __name__ == "__main__":
    try:
        sys.exit(main())
    except Unclassifiable as e:
        print("gen_tables: cannot translate: %s" % e)
        sys.exit(1)
