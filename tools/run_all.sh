#!/bin/bash
# run every registered check (tier $1, default quick), $2 at a time; summary on stdout
cd "$(dirname "$0")/.."
tier=${1:-quick}; par=${2:-4}
mkdir -p logs
ids=$(python3 -c "import json;print(' '.join(c['property_id'] for c in json.load(open('MANIFEST.json'))['checks']))")
echo $ids | tr ' ' '\n' | xargs -P $par -I{} sh -c "./check {} --tier $tier > logs/${tier}_{}.log 2>&1; echo {} rc=\$? \$(tail -1 logs/${tier}_{}.log)"
grep -l "^VIOLATION" logs/${tier}_C*.log 2>/dev/null | sed 's/^/ALARM: /'
