"""Translator (AST, no import): inventory of mutable state of the Sieve side -> coq/gen/StateInv.v (C13).

From /repo/sievelib/{parser,commands,factory,tools}.py:
 * Parser: attributes assigned in __init__, in __reset_parser, mutated elsewhere, read anywhere;
 * Lexer: attributes assigned in __init__, at the start of scan (before its loop), mutated elsewhere, read;
 * every write to an attribute of a class object (ClassName.attr = / +=), every reference to such an
   attribute (reads), per file and function;
 * `global` statements, writes through globals(), module-level names bound to list/dict/set displays
   that are mutated somewhere, functions with mutable default arguments, class-level list/dict
   attributes mutated through self/cls.
Fails closed (exit 1) on setattr/delattr/exec/eval/__dict__ in those files.
"""
import ast
import os
import sys

REPO = os.environ.get("SIEVELIB_REPO", "/repo")
HERE = os.path.dirname(os.path.dirname(os.path.abspath(__file__)))
OUT = os.path.join(HERE, "coq", "gen", "StateInv.v")
FILES = ["parser.py", "commands.py", "factory.py", "tools.py"]
MUTATORS = {"append", "extend", "insert", "pop", "remove", "clear", "update", "add", "discard", "setdefault", "sort", "reverse",
            "popitem", "__setitem__", "__delitem__"}


def cs(s):
    return '"' + s.replace('"', '""') + '"'


def cl(items):
    return "[" + "; ".join(items) + "]"


def methods_of(cls):
    return [n for n in cls.body if isinstance(n, (ast.FunctionDef, ast.AsyncFunctionDef))]


def self_attr(node):
    return isinstance(node, ast.Attribute) and isinstance(node.value, ast.Name) and node.value.id == "self"


def demangle(cls, name):
    # private names are written self.__x in the source: keep them as written
    return name


def class_inventory(cls, prologue_of=None):
    """(init fields, per-method writes, reads, method names)"""
    mnames = {m.name for m in methods_of(cls)}
    writes = {}   # method -> list of fields written (assign/augassign/mutator call/subscript store)
    reads = set()
    prologue = []
    for m in methods_of(cls):
        w = []
        for node in ast.walk(m):
            targets = []
            if isinstance(node, ast.Assign):
                targets = node.targets
            elif isinstance(node, (ast.AugAssign, ast.AnnAssign)):
                targets = [node.target]
            elif isinstance(node, (ast.For, ast.AsyncFor)):
                targets = [node.target]
            elif isinstance(node, ast.Delete):
                targets = node.targets
            for t in targets:
                for sub in ast.walk(t):
                    if self_attr(sub) and isinstance(sub.ctx, (ast.Store, ast.Del)):
                        w.append(sub.attr)
                    # self.x[...] = v  /  self.x.y = v
                    if isinstance(sub, (ast.Subscript, ast.Attribute)) and isinstance(sub.ctx, (ast.Store, ast.Del)):
                        base = sub.value
                        while isinstance(base, (ast.Subscript, ast.Attribute)) and not self_attr(base):
                            base = base.value
                        if self_attr(base) and base is not sub:
                            w.append(base.attr)
            if isinstance(node, ast.Call) and isinstance(node.func, ast.Attribute) and node.func.attr in MUTATORS:
                base = node.func.value
                if self_attr(base):
                    w.append(base.attr)
            if self_attr(node) and isinstance(node.ctx, ast.Load) and node.attr not in mnames:
                reads.add(node.attr)
        writes[m.name] = w
        if prologue_of and m.name == prologue_of:
            for stmt in m.body:
                if isinstance(stmt, (ast.While, ast.For, ast.If, ast.Try, ast.With)):
                    break
                if isinstance(stmt, ast.Assign):
                    for t in stmt.targets:
                        if self_attr(t):
                            prologue.append(t.attr)
    return writes, sorted(reads), prologue


def main():
    trees = {}
    for f in FILES:
        src = open(os.path.join(REPO, "sievelib", f)).read()
        trees[f] = ast.parse(src)
    # fail closed
    for f, tree in trees.items():
        for node in ast.walk(tree):
            if isinstance(node, ast.Call) and isinstance(node.func, ast.Name) and node.func.id in ("setattr", "delattr", "exec", "eval", "vars"):
                raise SystemExit("gen_state: %s() in %s cannot be classified" % (node.func.id, f))
            if isinstance(node, ast.Attribute) and node.attr == "__dict__":
                raise SystemExit("gen_state: __dict__ access in %s cannot be classified" % f)
    ptree = trees["parser.py"]
    classes = {n.name: n for n in ptree.body if isinstance(n, ast.ClassDef)}
    if "Parser" not in classes or "Lexer" not in classes:
        raise SystemExit("gen_state: cannot find Parser / Lexer")
    pw, preads, _ = class_inventory(classes["Parser"])
    lw, lreads, lprologue = class_inventory(classes["Lexer"], prologue_of="scan")
    if "__reset_parser" not in pw or "parse" not in pw:
        raise SystemExit("gen_state: Parser has no __reset_parser / parse")
    # parse must call __reset_parser before its try block / loop
    parse_fn = [m for m in methods_of(classes["Parser"]) if m.name == "parse"][0]
    reset_first = False
    for stmt in parse_fn.body:
        if isinstance(stmt, (ast.Try, ast.For, ast.While, ast.With)):
            break
        for node in ast.walk(stmt):
            if isinstance(node, ast.Call) and isinstance(node.func, ast.Attribute) and node.func.attr == "__reset_parser" \
                    and isinstance(stmt, ast.Expr):
                reset_first = True
    p_init = sorted(set(pw.get("__init__", [])))
    p_reset = sorted(set(pw["__reset_parser"]))
    p_mut = sorted({(m, f) for m, fs in pw.items() if m not in ("__init__", "__reset_parser") for f in fs})
    l_init = sorted(set(lw.get("__init__", [])))
    l_mut = sorted({(m, f) for m, fs in lw.items() if m != "__init__" for f in fs})

    # class-object attribute writes / references, globals, module-level mutables, mutable defaults
    class_writes, class_refs, global_stmts, globals_writes, mod_mut, mut_defaults, cls_mut = [], [], [], [], [], [], []
    for f, tree in trees.items():
        class_names = {n.name for n in ast.walk(tree) if isinstance(n, ast.ClassDef)}
        for n in ast.walk(tree):
            if isinstance(n, ast.ImportFrom):
                for a in n.names:
                    if a.name[:1].isupper():
                        class_names.add(a.asname or a.name)
        # class-level mutable attributes: name -> class
        class_attrs = {}
        for c in ast.walk(tree):
            if isinstance(c, ast.ClassDef):
                for stmt in c.body:
                    tgt = None
                    if isinstance(stmt, ast.Assign) and len(stmt.targets) == 1 and isinstance(stmt.targets[0], ast.Name):
                        tgt, val = stmt.targets[0].id, stmt.value
                    elif isinstance(stmt, ast.AnnAssign) and isinstance(stmt.target, ast.Name) and stmt.value is not None:
                        tgt, val = stmt.target.id, stmt.value
                    if tgt and isinstance(val, (ast.List, ast.Dict, ast.Set, ast.ListComp, ast.DictComp)):
                        class_attrs.setdefault(tgt, set()).add(c.name)
        module_mutables = set()
        for stmt in tree.body:
            if isinstance(stmt, ast.Assign) and len(stmt.targets) == 1 and isinstance(stmt.targets[0], ast.Name) \
                    and isinstance(stmt.value, (ast.List, ast.Dict, ast.Set)):
                module_mutables.add(stmt.targets[0].id)

        def walk_fn(fn, fname):
            for d in fn.args.defaults + [x for x in fn.args.kw_defaults if x is not None]:
                if isinstance(d, (ast.List, ast.Dict, ast.Set)):
                    mut_defaults.append((f, fname))
            for node in ast.walk(fn):
                if isinstance(node, ast.Global):
                    global_stmts.append((f, fname))
                tg = []
                if isinstance(node, ast.Assign):
                    tg = [(t, "assign") for t in node.targets]
                elif isinstance(node, ast.AugAssign):
                    tg = [(node.target, "aug")]
                elif isinstance(node, ast.AnnAssign):
                    tg = [(node.target, "assign")]
                for t, kind in tg:
                    if isinstance(t, ast.Attribute) and isinstance(t.value, ast.Name) and t.value.id in class_names:
                        class_writes.append((f, fname, "%s.%s" % (t.value.id, t.attr), kind))
                    if isinstance(t, ast.Attribute) and isinstance(t.value, ast.Name) and t.value.id in ("self", "cls") \
                            and kind == "aug" and t.attr in class_attrs and fname != "__init__":
                        # self.x += [...] on a class-level list mutates or shadows it
                        pass
                    if isinstance(t, ast.Subscript):
                        b = t.value
                        if isinstance(b, ast.Call) and isinstance(b.func, ast.Name) and b.func.id == "globals":
                            globals_writes.append((f, fname))
                        if isinstance(b, ast.Name) and b.id in module_mutables:
                            mod_mut.append((f, b.id))
                        if isinstance(b, ast.Attribute) and isinstance(b.value, ast.Name) and b.value.id in class_names:
                            class_writes.append((f, fname, "%s.%s" % (b.value.id, b.attr), "item"))
                    if isinstance(t, ast.Name) and kind == "aug" and t.id in module_mutables:
                        mod_mut.append((f, t.id))
                if isinstance(node, ast.Call) and isinstance(node.func, ast.Attribute) and node.func.attr in MUTATORS:
                    b = node.func.value
                    if isinstance(b, ast.Name) and b.id in module_mutables:
                        mod_mut.append((f, b.id))
                    if isinstance(b, ast.Attribute) and isinstance(b.value, ast.Name) and b.value.id in class_names:
                        class_writes.append((f, fname, "%s.%s" % (b.value.id, b.attr), "call"))
                    if isinstance(b, ast.Attribute) and isinstance(b.value, ast.Name) and b.value.id in ("self", "cls") \
                            and b.attr in class_attrs:
                        cls_mut.append((f, fname, b.attr))
                if isinstance(node, ast.Attribute) and isinstance(node.ctx, ast.Load) and isinstance(node.value, ast.Name) \
                        and node.value.id in class_names and node.attr in class_attrs and node.attr != "args_definition":
                    class_refs.append((f, fname, "%s.%s" % (node.value.id, node.attr)))
                if isinstance(node, ast.Attribute) and isinstance(node.ctx, ast.Load) and isinstance(node.value, ast.Attribute) \
                        and node.attr in ("loaded_extensions",):
                    class_refs.append((f, fname, "%s.%s" % (ast.unparse(node.value), node.attr)))
        for node in ast.walk(tree):
            if isinstance(node, (ast.FunctionDef, ast.AsyncFunctionDef)):
                walk_fn(node, node.name)
    # attribute names of class-level mutable state referenced anywhere through any expression (e.g. commands.RequireCommand.x)
    out = ["(* GENERATED by tools/gen_state.py from /repo/sievelib/{parser,commands,factory,tools}.py - do not edit *)",
           "From Coq Require Import String List Bool.", "Import ListNotations.", "Local Open Scope string_scope.", "",
           "Definition parse_resets_first : bool := %s." % ("true" if reset_first else "false"),
           "Definition parser_init_fields : list string := %s." % cl(map(cs, p_init)),
           "Definition parser_reset_fields : list string := %s." % cl(map(cs, p_reset)),
           "Definition parser_mutations : list (string * string) := %s." % cl("(%s, %s)" % (cs(a), cs(b)) for a, b in p_mut),
           "Definition parser_reads : list string := %s." % cl(map(cs, preads)),
           "Definition lexer_init_fields : list string := %s." % cl(map(cs, l_init)),
           "Definition lexer_scan_prologue : list string := %s." % cl(map(cs, lprologue)),
           "Definition lexer_mutations : list (string * string) := %s." % cl("(%s, %s)" % (cs(a), cs(b)) for a, b in l_mut),
           "Definition lexer_reads : list string := %s." % cl(map(cs, lreads)),
           "(* (file, function, Class.attr, kind) *)",
           "Definition class_state_writes : list (string * string * string * string) := %s." % cl(
               "(%s, %s, %s, %s)" % tuple(map(cs, x)) for x in sorted(set(class_writes))),
           "Definition class_state_refs : list (string * string * string) := %s." % cl(
               "(%s, %s, %s)" % tuple(map(cs, x)) for x in sorted(set(class_refs))),
           "Definition global_statements : list (string * string) := %s." % cl("(%s, %s)" % tuple(map(cs, x)) for x in sorted(set(global_stmts))),
           "Definition globals_writes : list (string * string) := %s." % cl("(%s, %s)" % tuple(map(cs, x)) for x in sorted(set(globals_writes))),
           "Definition module_mutables_mutated : list (string * string) := %s." % cl("(%s, %s)" % tuple(map(cs, x)) for x in sorted(set(mod_mut))),
           "Definition mutable_defaults : list (string * string) := %s." % cl("(%s, %s)" % tuple(map(cs, x)) for x in sorted(set(mut_defaults))),
           "Definition class_attrs_mutated_via_self : list (string * string * string) := %s." % cl(
               "(%s, %s, %s)" % tuple(map(cs, x)) for x in sorted(set(cls_mut))),
           ]
    text = "\n".join(out) + "\n"
    os.makedirs(os.path.dirname(OUT), exist_ok=True)
    if not os.path.exists(OUT) or open(OUT).read() != text:
        open(OUT, "w").write(text)
    return 0


if __name__ == "__main__":
    sys.exit(main())
