"""Regenerate MANIFEST.json from harness/registry.py metadata (run by hand after editing)."""
import json
import os
import sys

HERE = os.path.dirname(os.path.dirname(os.path.abspath(__file__)))
sys.path.insert(0, os.path.join(HERE, "harness"))
import registry  # noqa

props = [json.loads(l) for l in open(os.path.join(HERE, "properties.jsonl"))]
checks = []
na = []
for p in props:
    pid = p["id"]
    spec = registry.CHECKS.get(pid)
    if spec is None or spec.get("not_applicable"):
        na.append({"property_id": pid, "reason": (spec or {}).get("not_applicable", "check not built yet (work in progress)")})
        continue
    checks.append({
        "property_id": pid,
        "quick_cmd": "./check %s --tier quick" % pid,
        "thorough_cmd": "./check %s --tier thorough" % pid,
        "evidence_file": "/verif/evidence/%s.json" % pid,
        "replay_cmd_template": "./check %s --replay {path}" % pid,
        "engine": "coq-model+correspondence",
        "level_claimed": {"category": spec["level"], "text": spec["level_text"], "design_ref": spec.get("design_ref", "DESIGN.md section 7")},
        "level_note": spec["level_note"],
        "technique": spec["technique"],
    })
man = {
    "version": 1,
    "setup_cmd": "./setup.sh",
    "hooks": {
        "guard": "SIEVELIB_VERIF",
        "enable": "no source hooks: checks import sievelib from /repo's working tree (PYTHONPATH=/repo) and observe public attributes, a fake socket and a fake SSL context",
        "baseline_off_cmd": "cd /repo && /venv/bin/python -m pytest -ra -q -p no:cacheprovider --timeout=900 --continue-on-collection-errors",
        "source_commits": [],
        "add_only": True,
    },
    "engines": [{
        "name": "coq-model+correspondence",
        "path": "/verif/check",
        "serves_properties": [c["property_id"] for c in checks],
        "kind_free_text": "Rocq/Coq 8.16.1 model + theorems (coq/), model parts regenerated from /repo by translators (tools/gen_*.py), hand-written parts tied to /repo by a correspondence check through the OCaml-extracted model (ocaml/), direct property oracles and failing-input search on the implementation (harness/)",
    }],
    "checks": checks,
    "not_applicable": na,
    "notes": "See DESIGN.md. Known findings (genuine defects recorded, not repaired) are in known_findings.json; repaired defects are listed there as fixed.",
}
json.dump(man, open(os.path.join(HERE, "MANIFEST.json"), "w"), indent=1)
print("checks:", len(checks), "not applicable:", len(na))
