"""Evaluate a seeded change produced by a sub-agent (see DESIGN.md section 13).

  seed_eval.py <Cxx> <n> [--checks C01,C02,...] [--tier quick] [--keep-name NAME]

 1. in the scratch worktree /tmp/mut/<Cxx>: reset; apply patch<n>.diff; the unedited test suite must
    pass; demo<n>.py must exit 1; reset; demo<n>.py must exit 0.
 2. apply the patch to /repo (working tree only), run ./check for the property (and any extra checks),
    undo it straight afterwards (git -C /repo checkout -- .).
 3. store patch.diff, demo.py and meta.json under /verif/seeded/<Cxx>-<n>/.
Never commits anything in /repo.
"""
import argparse
import json
import os
import re
import shutil
import subprocess
import sys
import time

VERIF = os.path.dirname(os.path.dirname(os.path.abspath(__file__)))


def sh(cmd, cwd=None, env=None, timeout=3600):
    p = subprocess.run(cmd, cwd=cwd, shell=True, stdout=subprocess.PIPE, stderr=subprocess.STDOUT, text=True,
                       env=env, timeout=timeout, errors="replace")
    return p.returncode, p.stdout


def _evidence_backup():
    """EVIDENCE BACKUP: runs against a seeded change must not leave their evidence files behind."""
    import shutil, tempfile
    d = tempfile.mkdtemp(prefix="evid_", dir=os.path.join(VERIF, "logs") if os.path.isdir(os.path.join(VERIF, "logs")) else None)
    for f in os.listdir(os.path.join(VERIF, "evidence")):
        shutil.copy(os.path.join(VERIF, "evidence", f), d)
    return d


def _evidence_restore(d):
    import shutil
    for f in os.listdir(d):
        shutil.copy(os.path.join(d, f), os.path.join(VERIF, "evidence", f))
    shutil.rmtree(d)


def main():
    bk = _evidence_backup()
    try:
        return _main()
    finally:
        _evidence_restore(bk)


def _main():
    ap = argparse.ArgumentParser()
    ap.add_argument("pid")
    ap.add_argument("n")
    ap.add_argument("--checks", default=None)
    ap.add_argument("--tier", default="quick")
    ap.add_argument("--dir", default=None)
    a = ap.parse_args()
    wt = a.dir or "/tmp/mut/%s" % a.pid
    patch = os.path.join(wt, "patch%s.diff" % a.n)
    demo = os.path.join(wt, "demo%s.py" % a.n)
    if not (os.path.exists(patch) and os.path.exists(demo)):
        print("missing", patch, "or", demo)
        return 2
    env = dict(os.environ, PYTHONPATH=wt, PYTHONHASHSEED="0", PYTHONDONTWRITEBYTECODE="1")
    ran = []

    def step(what, cmd, cwd, e=env, timeout=1800):
        rc, out = sh(cmd, cwd, e, timeout)
        ran.append({"what": what, "cmd": cmd, "cwd": cwd, "exit": rc, "tail": out[-600:]})
        return rc, out

    step("reset worktree", "git checkout -- sievelib", wt)
    rc, _ = step("apply patch in worktree", "git apply %s" % patch, wt)
    if rc != 0:
        print("patch does not apply in worktree")
        print(ran[-1]["tail"])
        return 2
    rc_t, out_t = step("test suite with the change", "/venv/bin/python -m pytest -q -p no:cacheprovider sievelib/tests", wt)
    rc_d1, out_d1 = step("demo with the change", "timeout 120 /venv/bin/python %s" % demo, wt)
    step("reset worktree", "git checkout -- sievelib", wt)
    rc_d0, out_d0 = step("demo without the change", "timeout 120 /venv/bin/python %s" % demo, wt)
    m = re.search(r"(\d+) passed", out_t)
    confirmed = (rc_t == 0 and m and int(m.group(1)) >= 123 and rc_d1 == 1 and rc_d0 == 0)
    print("tests rc=%s (%s) demo(with)=%s demo(without)=%s confirmed=%s" % (rc_t, m.group(0) if m else "?", rc_d1, rc_d0, confirmed))
    if not confirmed:
        print(out_t[-400:])
        print(out_d1[-400:])
        print(out_d0[-400:])
        return 3
    # --- against the real checks
    st, _ = sh("git status --porcelain", "/repo")
    if st != 0 or _.strip():
        print("/repo is not clean; refusing")
        return 2
    checks = (a.checks.split(",") if a.checks else [a.pid])
    results = {}
    rc, out = sh("git apply %s" % patch, "/repo")
    if rc != 0:
        print("patch does not apply to /repo:", out)
        return 2
    try:
        for c in checks:
            t0 = time.time()
            rc, out = sh("./check %s --tier %s" % (c, a.tier), VERIF, None, 7200)
            lines = [l for l in out.splitlines() if l.startswith(("VIOLATION", "KNOWN-FINDING", "NOTE", c))]
            replay = None
            mm = re.search(r"VIOLATION property=\S+ replay=(\S+)", out)
            desc = None
            if mm and os.path.exists(mm.group(1)):
                try:
                    rj = json.load(open(mm.group(1)))
                    desc = (rj.get("description") or "")[:500]
                    if rj.get("kind", "").startswith("broken"):
                        desc = "; ".join(x["what"] for x in rj.get("no_longer_checks", []))[:500]
                except Exception:
                    pass
            results[c] = {"exit": rc, "detected": rc == 1 and "VIOLATION" in out, "lines": [l[:300] for l in lines][:8],
                          "first_replay_description": desc, "wall_s": round(time.time() - t0, 1),
                          "no_failing_input_found": "no-failing-input-found" in out}
            print(c, "->", "DETECTED" if results[c]["detected"] else "missed", "|", (desc or "")[:200].replace("\n", " "))
    finally:
        sh("git checkout -- .", "/repo")
    st, o = sh("git status --porcelain", "/repo")
    assert not o.strip(), "repo not clean after undo: " + o
    # --- keep
    dest = os.path.join(VERIF, "seeded", "%s-%s" % (a.pid, a.n))
    os.makedirs(dest, exist_ok=True)
    shutil.copy(patch, os.path.join(dest, "patch.diff"))
    shutil.copy(demo, os.path.join(dest, "demo.py"))
    notes = ""
    np_ = os.path.join(wt, "NOTES.md")
    if os.path.exists(np_):
        notes = open(np_).read()
        shutil.copy(np_, os.path.join(dest, "NOTES.md"))
    meta = {"property": a.pid, "variant": a.n, "origin": "independent sub-agent given only the property text and a scratch worktree",
            "needs_to_manifest": "see NOTES.md (section for change %s)" % a.n,
            "confirmed": {"suite_passes_with_change": True, "demo_fails_with_change": True, "demo_passes_without": True},
            "ran": ran, "checks": results, "tier": a.tier}
    json.dump(meta, open(os.path.join(dest, "meta.json"), "w"), indent=1)
    return 0


if __name__ == "__main__":
    sys.exit(main())
