"""Re-run the registered check(s) against seeded changes kept under /verif/seeded (patch applied to /repo's
working tree, undone straight afterwards) and refresh meta.json.   seed_rerun.py [--tier quick] [ids...]"""
import glob
import json
import os
import re
import subprocess
import sys
import time

VERIF = os.path.dirname(os.path.dirname(os.path.abspath(__file__)))


def sh(cmd, cwd=None, timeout=7200):
    p = subprocess.run(cmd, cwd=cwd, shell=True, stdout=subprocess.PIPE, stderr=subprocess.STDOUT, text=True, timeout=timeout, errors="replace")
    return p.returncode, p.stdout


def _evidence_backup():
    """EVIDENCE BACKUP: runs against a seeded change must not leave their evidence files behind."""
    import shutil, tempfile
    d = tempfile.mkdtemp(prefix="evid_", dir=os.path.join(VERIF, "logs") if os.path.isdir(os.path.join(VERIF, "logs")) else None)
    for f in os.listdir(os.path.join(VERIF, "evidence")):
        shutil.copy(os.path.join(VERIF, "evidence", f), d)
    return d


def _evidence_restore(d):
    import shutil
    for f in os.listdir(d):
        shutil.copy(os.path.join(d, f), os.path.join(VERIF, "evidence", f))
    shutil.rmtree(d)


def main():
    bk = _evidence_backup()
    try:
        return _main()
    finally:
        _evidence_restore(bk)


def _main():
    args = sys.argv[1:]
    tier = "quick"
    if args[:1] == ["--tier"]:
        tier, args = args[1], args[2:]
    ids = args or sorted(os.path.basename(d) for d in glob.glob(os.path.join(VERIF, "seeded", "C*-*")))
    missed = []
    for sid in ids:
        d = os.path.join(VERIF, "seeded", sid)
        meta = json.load(open(os.path.join(d, "meta.json")))
        rc, o = sh("git status --porcelain", "/repo")
        assert not o.strip(), "/repo not clean"
        rc, o = sh("git apply %s" % os.path.join(d, "patch.diff"), "/repo")
        if rc != 0:
            # the tree has moved on (later fix: commits): merge the change instead
            rc, o = sh("git apply --3way %s && git reset -q" % os.path.join(d, "patch.diff"), "/repo")
            if rc != 0 or "<<<<<<<" in sh("git diff", "/repo")[1]:
                sh("git reset -q; git checkout -- .", "/repo")
                print(sid, "DOES NOT APPLY to the current tree:", o.strip()[:200])
                meta["does_not_apply_to_current_tree"] = True
                json.dump(meta, open(os.path.join(d, "meta.json"), "w"), indent=1)
                continue
        try:
            for c in list(meta["checks"]):
                t0 = time.time()
                rc, out = sh("./check %s --tier %s" % (c, tier), VERIF)
                mm = re.search(r"VIOLATION property=\S+ replay=(\S+)", out)
                desc = None
                if mm and os.path.exists(mm.group(1)):
                    rj = json.load(open(mm.group(1)))
                    desc = (rj.get("description") or "")[:500]
                    if rj.get("kind", "").startswith("broken"):
                        desc = "; ".join(x["what"] for x in rj.get("no_longer_checks", []))[:500]
                lines = [l[:300] for l in out.splitlines() if l.startswith(("VIOLATION", "KNOWN-FINDING", "NOTE", c))][:8]
                det = rc == 1 and "VIOLATION" in out
                meta["checks"][c] = {"exit": rc, "detected": det, "lines": lines, "first_replay_description": desc,
                                     "wall_s": round(time.time() - t0, 1), "no_failing_input_found": "no-failing-input-found" in out}
                meta["tier"] = tier
                print(sid, c, "DETECTED" if det else "MISSED", "(no-failing-input-found)" if "no-failing-input-found" in out else "",
                      "|", (desc or "")[:160].replace("\n", " "))
                if not det:
                    missed.append(sid)
        finally:
            sh("git checkout -- .", "/repo")
        json.dump(meta, open(os.path.join(d, "meta.json"), "w"), indent=1)
    print("missed:", missed)
    return 1 if missed else 0


if __name__ == "__main__":
    sys.exit(main())
