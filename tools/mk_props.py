"""One-off aid (run by hand): write coq/props/<Cxx>.v from a specification in tools/props_spec.py.

For every entry (new theorem name, proved lemma, comment) the *statement* is obtained from Coq
itself (`Check lemma`), restated in the property file under the new name and closed by
`exact lemma`, followed by `Print Assumptions`.  The property files are committed; nothing
here runs during a check.  Literal Coq text (obligations over generated data, examples) can be
given verbatim with ("raw", text).
"""
import os
import re
import subprocess
import sys
import tempfile

HERE = os.path.dirname(os.path.dirname(os.path.abspath(__file__)))
COQ = os.path.join(HERE, "coq")
sys.path.insert(0, os.path.dirname(os.path.abspath(__file__)))
import props_spec  # noqa


def statements(imports, lemmas):
    src = imports + "\nSet Printing Width 100.\nSet Printing Depth 1000.\n" + "".join(
        'Check %s.\nRedirect "/dev/null" Check 0.\n' % l for l in lemmas)
    with tempfile.NamedTemporaryFile("w", suffix=".v", dir="/tmp", delete=False, prefix="mkprops_") as f:
        f.write(src.replace('Redirect "/dev/null" Check 0.\n', ""))
        path = f.name
    out = subprocess.run(["coqc", "-Q", ".", "SV", path], cwd=COQ, stdout=subprocess.PIPE,
                         stderr=subprocess.STDOUT, text=True).stdout
    for ext in ("", "o", "ok", "os"):
        try:
            os.remove(path + ext if ext else path)
        except OSError:
            pass
    try:
        os.remove(path[:-2] + ".glob")
    except OSError:
        pass
    res = {}
    # output: "<name>\n     : <type lines>" repeated
    blocks = re.split(r"^(?=\S[^\n]*\n     : )", out, flags=re.M)
    for b in blocks:
        m = re.match(r"(\S+)\n     : (.*)", b, flags=re.S)
        if m:
            res[m.group(1).split(".")[-1]] = "\n".join(x[7:] if x.startswith("       ") else x for x in m.group(2).rstrip().split("\n"))
    missing = [l for l in lemmas if l.split(".")[-1] not in res]
    if missing:
        print(out[-3000:])
        raise SystemExit("could not obtain statements of %s" % missing)
    return res


def main(which):
    for pid, spec in props_spec.SPEC.items():
        if which and pid not in which:
            continue
        lemmas = [e[1] for e in spec["theorems"] if e[0] != "raw"]
        st = statements(spec["imports"], lemmas) if lemmas else {}
        out = ["(* %s *)" % spec["header"].strip(), spec["imports"].strip(), ""]
        for e in spec["theorems"]:
            if e[0] == "raw":
                out.append(e[1].strip() + "\n")
                continue
            new, lemma, comment = e
            out.append("(* %s *)" % comment.strip())
            body = st[lemma.split(".")[-1]]
            out.append("Theorem %s :\n  %s." % (new, body.replace("\n", "\n  ")))
            out.append("Proof. exact %s. Qed." % lemma)
            out.append("Print Assumptions %s.\n" % new)
        open(os.path.join(COQ, "props", pid + ".v"), "w").write("\n".join(out))
        print("wrote props/%s.v (%d theorems)" % (pid, len(spec["theorems"])))


if __name__ == "__main__":
    main(sys.argv[1:])
