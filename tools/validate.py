"""Validate MANIFEST.json and every evidence file against the schemas (python3-vt has jsonschema)."""
import glob
import json
import sys
import jsonschema

m = json.load(open('/verif/MANIFEST.json'))
jsonschema.validate(m, json.load(open('/root/.vp/MANIFEST.schema.json')))
print("manifest ok:", len(m['checks']), "checks;", "not applicable:", [x['property_id'] for x in m.get('not_applicable', [])])
es = json.load(open('/root/.vp/EVIDENCE.schema.json'))
bad = 0
for c in m['checks']:
    try:
        e = json.load(open(c['evidence_file']))
        jsonschema.validate(e, es)
        if e['level'] != c['level_claimed']['category']:
            print("LEVEL MISMATCH", c['property_id'], e['level'], c['level_claimed']['category']); bad += 1
    except Exception as x:  # noqa
        print("EVIDENCE BAD", c['property_id'], str(x)[:200]); bad += 1
print("evidence files ok" if not bad else "%d bad evidence files" % bad)
sys.exit(1 if bad else 0)
