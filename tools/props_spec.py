"""Specification of the property files coq/props/Cxx.v (see mk_props.py).

Only the properties whose files are generated this way are listed; C05 C08 C09 C10 C14 C16 C17
were written by hand.
"""

SIEVE_IMPORTS = """From Coq Require Import String.
From Coq Require Import List NArith Bool Arith.
From SV Require Import Bytes Lexer Tables ArgCheck ArgSpec Machine Printer GenTables.
Import ListNotations.
Local Open Scope nat_scope.
"""

SPEC = {}

SPEC["C07"] = {
    "header": """C07 — extension use is gated by require.

   Model: sieve/Machine.v (Parser), sieve/ArgCheck.v (check_next_arg), over the tables
   regenerated from /repo on every run (gen/GenTables.v).  Proofs: sieve/GateFacts.v.
   Shape of the argument ("preceded in the script by a require"):
     (a) the loaded set only grows, and only when a command whose completion hook is
         RequireCommand.complete_cb is closed by ';' (C07_only_require_loads, C07_loaded_monotone,
         C07_loaded_was_required);
     (b) at the moment a command is instantiated / a slot takes a tag or match type, the extension
         it belongs to is in the loaded set of that moment (C07_command_gate, C07_argument_gate);
     (c) invariant over all reachable parser states, hence for every accepted script — regular or
         not — every extension needed anywhere in the tree is loaded (C07_accept);
     (d) the table the gates consult covers the frozen RFC list of extension-owned commands, tags
         and match types (C07_tables_cover_frozen, a vm_compute obligation over the generated
         tables), and has no blind spot (C07_no_blind_spot).
   Removal direction ("rejected with extension '<x>' not loaded, x first in script order"), sieve/LessLoaded.v
   and sieve/RemovalFacts.v: two runs of the parser on the same tokens, the second with a subset of the loaded
   extensions, are in lockstep -- same stack, expectations, brackets, results with the same command names --
   until the first transition that consults an extension the second run lacks, where the second run stops with
   "extension 'x' not loaded" (C07_step_simulation: every transition, for every state and token, by case analysis
   over the whole machine; the stale string-list buffer, which differs after `require` commands of different
   lengths, is part of the relation).  Hence for two scripts that begin with commands of the grammar -- the
   `require` commands, listing different extensions -- and continue with the same tokens: if the full one is
   accepted, the reduced one is either accepted with the same commands or rejected with that message at a token
   of the common part, for an extension the full run has loaded there and the reduced run has not
   (C07_removal_rejects); together with C07_accept (an accepted tree never needs an extension that is not
   loaded) a script whose tree needs the removed extension cannot take the first alternative.  Three gate
   examples and one removal example are computed on the model; all (script, extension) pairs of the generator
   are run on the implementation.""",
    "imports": SIEVE_IMPORTS + "From SV Require Import GateFacts TotalFacts CompleteFacts CompleteTree LessLoaded RemovalFacts.\n",
    "theorems": [
        ("C07_only_require_loads", "GateFacts.process_loaded_true",
         "one parser step changes the loaded set only by completing a require with ';' (loaded_step)"),
        ("C07_loaded_monotone", "GateFacts.process_loaded_incl", "the loaded set never shrinks"),
        ("C07_loaded_trace", "GateFacts.reachable_require_trace",
         "in every reachable state the loaded set was built from [] by requires, in order"),
        ("C07_loaded_was_required", "GateFacts.loaded_was_required",
         "every loaded extension is the unquoted form of a capability named by some require"),
        ("C07_command_gate", "GateFacts.gci_gate",
         "a command that belongs to an extension is instantiated only while that extension is loaded"),
        ("C07_argument_gate", "GateFacts.cna_gate",
         "a slot takes a tag / match type only while the extension owning the slot or the value is loaded"),
        ("C07_reachable_inv", "GateFacts.reachable_inv", "the invariant holds in every reachable state"),
        ("C07_accept", "GateFacts.gate_accept",
         "every accepted input whatsoever: all extensions needed anywhere in the tree are loaded"),
        ("C07_accept_generated_tables", "GateFacts.gate_accept_gen", "... instantiated with the tables generated from /repo"),
        ("C07_step_simulation", "LessLoaded.process_sim", "one transition with fewer extensions loaded: the same outcome in the related state, or extension-not-loaded for an extension the full run has"),
        ("C07_run_simulation", "LessLoaded.run_less", "whole runs over the same tokens: accepted with the same command names, or rejected at the first token that consults a missing extension"),
        ("C07_removal_dichotomy", "LessLoaded.removal_dichotomy", "two scripts whose prefixes leave the parser in related states and whose remainders are the same tokens"),
        ("C07_removal_rejects", "RemovalFacts.removal_rejects", "two scripts that begin with commands of the grammar (the require commands) loading a subset and continue with the same tokens"),
        ("C07_removal_example", "RemovalFacts.ex_removal", "computed on the tables generated from /repo: `copy` removed from the require, rejected at the tag :copy"),
        ("raw", """(* obligations over the generated tables, re-checked on every run *)
Theorem C07_tables_wf : wf_tables gen_tables = true.
Proof. vm_compute. reflexivity. Qed.
Print Assumptions C07_tables_wf.

Theorem C07_tables_cover_frozen : covers gen_tables = true.
Proof. vm_compute. reflexivity. Qed.
Print Assumptions C07_tables_cover_frozen.

Theorem C07_no_blind_spot :
  forallb (fun kd => forallb slot_no_blind_spot (d_args (snd kd))) gen_tables = true.
Proof. vm_compute. reflexivity. Qed.
Print Assumptions C07_no_blind_spot.
"""),
        ("C07_frozen_command", "GateFacts.frozen_command_gate",
         "end to end for the command entries of the frozen table"),
        ("C07_covered_tag", "GateFacts.covered_tag_gate", "end to end for tags and match types covered by a slot"),
        ("raw", """(* non-vacuity and the removal direction on concrete scripts (computed on the model) *)
Example C07_needs_example :
  match parse gen_tables
          (bs "require [""fileinto"",""copy"",""relational""]; if header :count ""ge"" ""a"" ""1"" { fileinto :copy ""x""; }")
  with
  | Accept r => flat_map (needs 5) r = [bs "relational"; bs "fileinto"; bs "copy"]
  | _ => False
  end.
Proof. vm_compute. reflexivity. Qed.

Example C07_removal_command :
  parse gen_tables (bs "fileinto ""x"";") = Reject (EExtNotLoaded (bs "fileinto")) 0 8.
Proof. vm_compute. reflexivity. Qed.

Example C07_removal_tag :
  parse gen_tables (bs "require ""fileinto""; fileinto :copy ""x"";") = Reject (EExtNotLoaded (bs "copy")) 29 5.
Proof. vm_compute. reflexivity. Qed.

Example C07_removal_match_type :
  parse gen_tables (bs "if header :count ""ge"" ""a"" ""1"" {}") = Reject (EExtNotLoaded (bs "relational")) 10 6.
Proof. vm_compute. reflexivity. Qed.

(* first missing extension in script order: both copy and relational are missing, relational comes first *)
Example C07_removal_first_in_order :
  parse gen_tables (bs "require ""fileinto""; if header :count ""ge"" ""a"" ""1"" { fileinto :copy ""x""; }")
  = Reject (EExtNotLoaded (bs "relational")) 30 6.
Proof. vm_compute. reflexivity. Qed.
"""),
    ],
}

SPEC["C18"] = {
    "header": """C18 — parse errors point at the offending place.

   Model: sieve/Lexer.v ([lineno]/[colno] = Lexer.curlineno/curcolno, [next_token]),
   sieve/Machine.v ([parse] returns Reject e pos tlen with pos = lexer.pos and tlen = len(tvalue)
   at the time the error is raised; [error_pos]).  Proofs: sieve/PositionFacts.v.
     (a) (line, column) against an independent specification: the text split at LF;
     (b) a rejection is raised at a token of the text (its start offset and length), at the
         offset where no lexer rule matches, or at the end of the text — so a token-level error
         reports the line/column of the first byte of the offending token and its length;
     (c) the machine is a left fold over the token list that stops at the first failure, so the
         report depends only on the tokens up to the failing one (prefix determinism) and can
         never lie before a token the machine has not reached.
   Which token is "the offending one" for each error category: sieve/RejectFacts.v proves, after every
   prefix of a script of the grammar (any nesting), that an unknown command, a command or tag whose extension is
   not loaded, a tag the command does not take, a surplus or ill-typed argument, a test in command position and a
   non-test in test position are reported at the first byte of THAT token with its length
   (C18_offending_token, C18_unknown_command_at_token, C18_non_test_at_token, C18_argument_at_token); the
   categories are also exercised against the implementation by the check with the expected offset computed
   independently.  Second clause ("never before the first token that makes the script invalid"): whatever the
   rejection, it is not reported inside a prefix of the grammar -- C18_not_inside_valid_prefix (by tokens) and
   C18_never_before_first_invalid (by byte offsets, with the lexer's forward order C18_lexer_moves_forward).  The viable-prefix sense beyond the prefixes of wf_prefix (inside tests and
   argument lists) is checked on the implementation (mutants).""",
    "imports": SIEVE_IMPORTS + "From SV Require Import PositionFacts TotalFacts CompleteFacts CompleteTree RejectFacts RejectExamples.\n",
    "theorems": [
        ("C18_split_unique", "PositionFacts.split_lf_unique",
         "the specification of lines: split_lf is the only LF-free, non-empty decomposition that joins back to the text"),
        ("C18_line_column_address", "PositionFacts.position_address",
         "lineno/colno of an offset designate, in the split text, line L and column C, and the offset is recovered from (L, C)"),
        ("C18_column_from_line_start", "PositionFacts.colno_line_start",
         "column = 1 + distance to the start of the line; no LF in between"),
        ("C18_token_slice", "PositionFacts.lex_token_at", "every token is a non-empty slice of the text at its recorded offset"),
        ("C18_lexical_error_place", "PositionFacts.lex_error_at",
         "a lexical error is reported at the first non-space byte where no rule matches"),
        ("C18_lazy_loop_is_fold", "PositionFacts.parse_run_tokens", "the lazy lexer/parser loop is a fold over the token list"),
        ("C18_reject_place", "PositionFacts.reject_position_strong",
         "every rejection: lexical error place, end of text, or start and length of a token of the text (with a token-level error)"),
        ("C18_error_pos", "PositionFacts.error_pos_address",
         "error_pos = (line, column, length) of that place, as an address in the split text"),
        ("C18_prefix_determinism", "PositionFacts.prefix_determinism",
         "no reported position depends on what follows the failing token"),
        ("C18_offending_token", "RejectFacts.reject_after_prefix",
         "tokens the machine takes, then one it refuses: the report is (error, first byte of that token, its length), whatever follows"),
        ("C18_unknown_command_at_token", "RejectFacts.unknown_command_rejected",
         "unknown command / extension not loaded after any prefix of the grammar: reported at that identifier"),
        ("C18_test_in_command_position_at_token", "RejectFacts.test_as_command_rejected",
         "a test in command position: reported at that identifier"),
        ("C18_non_test_at_token", "RejectFacts.test_position_rejected",
         "a non-test (or no identifier at all) in test position: reported at that token"),
        ("C18_argument_at_token", "RejectFacts.illegal_arguments_rejected",
         "a tag the command does not take, a tag whose extension is not loaded, a surplus or ill-typed argument: reported at a token of the argument list"),
        ("C18_lexical_error_after_prefix", "RejectFacts.lexical_error_rejected",
         "a byte sequence that is no token, after a prefix of the grammar: reported at the place where no rule matches"),
        ("C18_inner_test_at_token", "RejectFacts.inner_test_rejected",
         "a non-test, an unknown name or no name at all at the first position of a test list / after `not`: reported at that token"),
        ("C18_test_list_later_at_token", "RejectFacts.test_list_later_rejected",
         "malformed test lists (later positions): reported at the token that cannot continue the list"),
        ("C18_test_argument_at_token", "RejectFacts.test_argument_rejected",
         "a tag the test does not take / whose extension is not loaded, an ill-typed value in a test: reported at that token"),
        ("C18_lexer_moves_forward", "RejectFacts.lex_order",
         "every token after a given one, and the place of a lexical error, lie strictly after its first byte"),
        ("C18_not_inside_valid_prefix", "RejectFacts.reject_not_in_prefix",
         "a rejection is never reported at a token of a prefix of the grammar: it is reported at a later token, at the lexical error, or at the end"),
        ("C18_never_before_first_invalid", "RejectFacts.reject_not_before",
         "second clause of the property: the reported offset is never before the first token after a prefix of the grammar"),
        ("C18_offending_examples", "RejectExamples.ex_unknown",
         "non-vacuity: line 3, column 4, length 3 for an unknown command inside a block, from the theorem"),
        ("raw", """(* non-vacuity: each token-level category on a concrete script, position = first byte of the token *)
Example C18_unknown_command :
  error_pos (bs "keep;" ++ [10%N] ++ bs "  foo ""a"";") (parse gen_tables (bs "keep;" ++ [10%N] ++ bs "  foo ""a"";"))
  = Some (2, 3, 3).
Proof. vm_compute. reflexivity. Qed.

Example C18_tag_extension :
  error_pos (bs "redirect :copy ""a"";") (parse gen_tables (bs "redirect :copy ""a"";")) = Some (1, 10, 5).
Proof. vm_compute. reflexivity. Qed.

Example C18_surplus_string :
  error_pos (bs "stop ""x"";") (parse gen_tables (bs "stop ""x"";")) = Some (1, 6, 3).
Proof. vm_compute. reflexivity. Qed.
"""),
    ],
}

SPEC["C01"] = {
    "header": """C01 — the parser accepts exactly the valid scripts of its supported language.

   Model: sieve/Lexer.v, sieve/ArgCheck.v, sieve/Machine.v over gen/GenTables.v (regenerated from
   /repo on every run).  Specification of "legal, correctly typed and correctly ordered
   arguments": sieve/ArgSpec.v [legal] (optional tag groups in any order, each tag possibly
   followed by a typed parameter, then the required positionals in order).
   Proved (sieve/ArgCheckFacts.v, sieve/MachineFacts.v):
     - the table interpreter implements that specification for every well-formed definition
       (C01_argcheck_correct, C01_accepts_iff_legal), including the values recorded;
     - structural soundness of acceptance: an accepted script has balanced brackets, no pending
       command, no pending expectation (C01_accept_final_state); a script is rejected as soon as
       a token does not fit (the machine is a fold over tokens that stops at the first failure).
     - completeness for whole scripts (sieve/CompleteTree.v): every sequence of commands derivable in the
       grammar [wf_cmds] -- `name args ;` with legal, complete arguments; `require` extending the loaded
       extensions for what follows; controls with one test and a block; tests with arguments, one-test
       tests (not) and parenthesised test lists (anyof / allof), nested to any depth; blocks nested to
       any depth; elsif / else only after the commands they must follow -- is accepted, with any layout
       (C01_script_complete, C01_parse_script, C01_layout_insensitive);
     - for ALL inputs: comments, white space and line endings do not influence the verdict
       (C01_comment_insensitive, sieve/CommentFacts.v);
     - parse_total (props/C02.v): every other outcome is a SieveParseError, never a crash or a hang.
     - the rejection side (sieve/RejectFacts.v): after EVERY prefix of a script of the grammar -- complete
       commands and `if <test> {` / `else {` openers nested to any depth (wf_prefix; C01_prefix_ready) -- each
       class of offending token named by the property stops the parse at that token, whatever follows: an
       unknown command or one whose extension is not loaded, a test in command position, a token that cannot
       start a command, '}' with no block open, anything but the name of a test after `if` (an action as a
       test, an unknown name, a string), an argument list the specification refuses (wrong type, wrong order,
       unknown tag, surplus argument, bad value of a tag's parameter: legal = LReject) at a token of one of
       the arguments, '{' after a command that takes no block, a command name where ';' is missing; `elsif` / `else` after a
       command they may not follow (at the closing brace); malformed string lists in the arguments of an action,
       an empty test list, the end of the text with a block open or a command unfinished;
   The converse (soundness of acceptance with respect to the RFC 5228 generic grammar) is NOT proved in
   general: the rejection classes above and the structural theorem C01_accept_final_state are, and the executable oracle
   harness/sieve_spec.py (generic grammar + frozen signatures) is compared with the implementation on the
   exhaustive token enumeration, the structure cases and the generated scripts by the check, and the model
   is compared with the implementation on the same inputs.""",
    "imports": SIEVE_IMPORTS + "From SV Require Import ArgCheckFacts GateFacts PositionFacts TotalFacts CompleteFacts CompleteTree CompleteExamples CommentFacts RejectFacts RejectExamples.\n",
    "theorems": [
        ("C01_argcheck_correct", "ArgCheckFacts.argcheck_correct",
         "feeding an argument sequence to check_next_arg: complete / incomplete / rejected exactly as the specification says, with the same recorded values"),
        ("C01_accepts_iff_legal", "ArgCheckFacts.accepts_iff_legal", "acceptance of an argument list iff it is legal"),
        ("C01_argcheck_never_crashes", "ArgCheckFacts.feed_never_crashes", "no AttributeError inside the interpreter"),
        ("C01_generated_tables", "ArgCheckFacts.gen_tables_argcheck_correct",
         "instantiated with every well-formed command of the tables generated from /repo"),
        ("C01_action_complete", "CompleteFacts.action_complete",
         "completeness for commands without tests and blocks: `name args ;` with legal, complete arguments is accepted (and the node carries exactly the specified maps)"),
        ("C01_action_on_text", "CompleteFacts.parse_single_action",
         "... on texts, for every layout that lexes to these tokens (blanks, line endings)"),
        ("C01_run_test", "CompleteTree.run_test",
         "every well-formed test (arguments, not, anyof/allof with nesting) drives the machine to the point where the test is left, with exactly its node"),
        ("C01_run_cmds", "CompleteTree.run_cmds",
         "every well-formed command sequence, at top level or inside a block, is consumed and emits exactly its nodes"),
        ("C01_script_complete", "CompleteTree.script_complete",
         "whole scripts: accepted from the initial state, ending with an empty stack, nothing expected, balanced brackets"),
        ("C01_parse_script", "CompleteTree.parse_script",
         "on texts: any text that lexes to the tokens of a well-formed script parses to exactly its tree"),
        ("C01_layout_insensitive", "CompleteFacts.layout_insensitive",
         "two texts that lex to the same tokens (blanks, line endings, positions) get the same verdict, tree and error category"),
        ("C01_comment_insensitive", "CommentFacts.comment_insensitive",
         "for ALL texts: removing / adding / changing hash and bracket comments anywhere (and white space, positions) changes neither the verdict nor the error category nor the tree, except for the comments recorded on top-level commands"),
        ("C01_transitions_ignore_comments", "CommentFacts.process_commutes",
         "every transition of the machine commutes with forgetting the pending and the recorded comments"),
        ("C01_script_example", "CompleteExamples.ex_wf",
         "non-vacuity on the tables generated from /repo: a script with require, if/elsif/else, anyof, not, nested blocks, tags, numbers and lists is derivable, and its tree is what parse returns"),
        ("C01_prefix_ready", "RejectFacts.prefix_ready",
         "after every prefix of a script of the grammar (complete commands, block openers, any depth) the machine stands between commands with the extensions required so far"),
        ("C01_reject_after_prefix", "RejectFacts.reject_after_prefix",
         "tokens the machine takes, then one it refuses: rejected with that error at that token, whatever follows"),
        ("C01_unknown_command_rejected", "RejectFacts.unknown_command_rejected",
         "an unknown command / a command whose extension is not loaded, at any depth"),
        ("C01_test_as_command_rejected", "RejectFacts.test_as_command_rejected", "a test in command position"),
        ("C01_no_command_start_rejected", "RejectFacts.no_command_start_rejected",
         "a string, number, tag, bracket, comma, semicolon or '{' where a command must start"),
        ("C01_stray_rcb_rejected", "RejectFacts.stray_rcb_rejected", "'}' with no block open"),
        ("C01_test_position_rejected", "RejectFacts.test_position_rejected",
         "after `if` / `elsif`: an unknown name, the name of an action or control (action as test), any other token"),
        ("C01_args_stop", "RejectFacts.args_stop",
         "an argument list the table interpreter refuses stops the machine at a token of one of the arguments (string lists: at the closing bracket)"),
        ("C01_illegal_arguments_rejected", "RejectFacts.illegal_arguments_rejected",
         "an action whose argument list the specification refuses (legal = LReject): rejected at a token of its arguments"),
        ("C01_after_flat_name_rejected", "RejectFacts.after_flat_name_rejected",
         "a block after a command that takes none; a command name where ';' is missing"),
        ("C01_misplaced_follower_rejected", "RejectFacts.misplaced_follower_rejected",
         "`elsif <test> { .. }` / `else { .. }` whose previous command is not one they may follow (or that start a block): rejected at the closing brace"),
        ("C01_args_run", "RejectFacts.args_run",
         "legal arguments of an action leave the machine at that command (the positive counterpart of C01_args_stop)"),
        ("C01_malformed_string_list_rejected", "RejectFacts.malformed_string_list_rejected",
         "in the arguments of an action: an empty string list, a missing comma, a comma before the closing bracket, a list that is not closed -- rejected at the token that cannot continue the list"),
        ("C01_empty_test_list_rejected", "RejectFacts.empty_test_list_rejected",
         "after `if anyof (` anything but the name of a test (an empty test list, a string): rejected at that token"),
        ("C01_unclosed_block_rejected", "RejectFacts.unclosed_block_rejected",
         "the text ends while blocks are open: rejected at the end of the text"),
        ("C01_unfinished_command_rejected", "RejectFacts.unfinished_command_rejected",
         "the text ends inside a command (missing semicolon): rejected at the end of the text"),
        ("C01_lexical_error_rejected", "RejectFacts.lexical_error_rejected",
         "bytes that are no token after a prefix of the grammar: rejected at the place where no lexer rule matches"),
        ("C01_missing_block_rejected", "RejectFacts.missing_block_rejected",
         "after `if <test>` anything but '{' (a missing block): rejected at that token"),
        ("C01_missing_block_example", "RejectExamples.ex_missing_block",
         "non-vacuity: `if size :over 100K stop;` (and ex_lexical_error: `%` inside a block)"),
        ("C01_inner_test_rejected", "RejectFacts.inner_test_rejected",
         "the first test of a test list and the test of `not`: an unknown name, the name of an action or control, any other token -- rejected at that token"),
        ("C01_inner_test_examples", "RejectExamples.ex_unknown_in_test_list",
         "non-vacuity: `if anyof (foo, true)` (with ex_action_after_not, ex_string_after_not)"),
        ("C01_test_list_later_rejected", "RejectFacts.test_list_later_rejected",
         "later positions of a test list (after any number of complete tests of the grammar): a missing comma, a comma before ')', an unknown name or an action after a comma -- rejected at that token"),
        ("C01_test_list_later_examples", "RejectExamples.ex_missing_comma_in_test_list",
         "non-vacuity: `if anyof (true true)` (with ex_unknown_after_comma, ex_comma_before_paren)"),
        ("C01_malformed_string_list_in_test_rejected", "RejectFacts.malformed_string_list_in_test_rejected",
         "malformed string lists (empty, missing comma, trailing comma, not closed) in the arguments of a test that still needs arguments"),
        ("C01_malformed_list_in_test_example", "RejectExamples.ex_malformed_list_in_test",
         "non-vacuity: `if header [\"a\" \"b\"] \"x\" { }` rejected at the second string"),
        ("C01_test_argument_rejected", "RejectFacts.test_argument_rejected",
         "in the arguments of a test that still needs arguments: a tag it does not take, a tag whose extension is not loaded, a value of the wrong type -- rejected at that token"),
        ("C01_test_argument_examples", "RejectExamples.ex_unknown_tag_in_test",
         "non-vacuity: `if header :bogus ..` and (ex_tag_extension_in_test) `if header :regex ..` without require"),
        ("C01_malformed_list_examples", "RejectExamples.ex_missing_comma",
         "non-vacuity: `require [\"fileinto\" \"envelope\"];` rejected at the second string (with ex_empty_list, ex_trailing_comma, ex_empty_test_list, ex_unclosed_block, ex_unfinished_command)"),
        ("C01_misplaced_else_example", "RejectExamples.ex_misplaced_else",
         "non-vacuity: `stop; else { stop; } keep;` rejected with 'must follow' at the closing brace, from the theorem"),
        ("C01_reject_examples", "RejectExamples.ex_unknown",
         "non-vacuity on the generated tables (one of twenty-nine examples in sieve/RejectExamples.v: prefix `require [\"fileinto\"]; if size :over 100K {`)"),
        ("C01_accept_final_state", "GateFacts.parse_accept_reachable",
         "an accepted script ends with an empty command stack, balanced brackets and nothing expected"),
        ("raw", """(* which commands of the current tables the interpreter theorem covers (re-checked on every run) *)
Example C01_wf_commands :
  map fst (filter (fun kd => wf_def (snd kd)) gen_tables) =
  [bs "address"; bs "body"; bs "currentdate"; bs "date"; bs "discard"; bs "else"; bs "envelope";
   bs "exists"; bs "false"; bs "fileinto"; bs "header"; bs "redirect"; bs "reject"; bs "require";
   bs "set"; bs "size"; bs "stop"; bs "true"; bs "vacation"].
Proof. vm_compute. reflexivity. Qed.

(* the others: structural commands (test arguments are fed by the machine) and the known findings
   keep (optional-only) and setflag/addflag/removeflag/hasflag (optional positional) *)
Example C01_other_commands :
  map fst (filter (fun kd => negb (wf_def (snd kd))) gen_tables) =
  [bs "addflag"; bs "allof"; bs "anyof"; bs "elsif"; bs "hasflag"; bs "if"; bs "keep"; bs "not";
   bs "removeflag"; bs "setflag"].
Proof. vm_compute. reflexivity. Qed.

(* verdicts of the model on concrete scripts of each class the property names *)
Example C01_verdicts :
  map (verdict gen_tables)
      [bs "require [""fileinto"", ""envelope""]; if anyof (header :contains ""a"" ""b"", not exists [""x"",""y""]) { fileinto ""z""; } elsif true { stop; } else { keep; }";
       bs "IF TRUE { KEEP; }";
       bs "keep";                         (* missing semicolon *)
       bs "if true { keep; ";             (* unbalanced *)
       bs "frob;";                        (* unknown command *)
       bs "true;";                        (* test as command *)
       bs "if keep { }";                  (* action as test *)
       bs "stop { }";                     (* block after an action *)
       bs "else { }";                     (* else not after if *)
       bs "redirect :bogus ""a"";";       (* illegal tag *)
       bs "redirect 10;";                 (* ill-typed *)
       bs "redirect ""a"" ""b"";";        (* surplus *)
       bs "if header :comparator ""i;nope"" :is ""a"" ""b"" { }";   (* bad value for a tag's parameter *)
       bs "if anyof () { }";              (* empty test list *)
       bs "redirect [];";                 (* empty string list *)
       bs "fileinto ""x"";"]              (* extension not required *)
  = [true; true; false; false; false; false; false; false; false; false; false; false; false; false; false; false].
Proof. vm_compute. reflexivity. Qed.
"""),
    ],
}

SPEC["C20"] = {
    "header": """C20 — registered custom commands are parsed and printed according to their definition.

   The model (ArgCheck / Machine / Printer) is parametric in the command tables, so a registered
   command is just one more table entry ([register], the model of commands.add_commands).
   Proved (sieve/ArgCheckFacts.v, sieve/RegisterFacts.v), for EVERY definition of the documented
   shape ([wf_def]: optional tag slots — with or without a typed parameter, value set, valid_for —
   followed by at least one required positional) and every table:
     - the parser's argument interpreter accepts exactly the uses the definition allows and records
       the arguments under the defined names (C20_argcheck_generic);
     - the command is found under its name in any letter case, other names are unaffected, names
       that are not registered remain unknown (C20_lookup_registered, C20_lookup_other, C20_unregistered_unknown), and its extension is demanded
       (C20_extension_gate);
     - registering a well-formed definition keeps the tables well-formed, so C07's invariant
       applies to scripts using it (C20_register_wf).
     - serialisation: the round-trip theorem of C04 is stated for any tables satisfying two decidable conditions;
       registering a definition that satisfies their per-definition parts ([def_ok]: argument names distinct,
       no slot taking both numbers and strings, the name an identifier; [twf]) keeps them
       (C20_register_keeps_conditions), hence every printable script of the grammar over the extended tables is
       printed to a text that is accepted, parses to a tree with the same content and prints to the same text
       again (C20_registered_roundtrip); example with a command registered on top of the generated tables.
   The registration path of the implementation (commands.add_commands) is compared with [register] by
   definitions registered at run time (correspondence).""",
    "imports": SIEVE_IMPORTS + "From SV Require Import ArgCheckFacts GateFacts RegisterFacts PositionFacts TotalFacts CompleteFacts CompleteTree RenderFacts PrintTree CanonFacts CanonTree RegisterTree.\n",
    "theorems": [
        ("C20_argcheck_generic", "ArgCheckFacts.argcheck_correct_gen",
         "generic in the definition: complete / incomplete / rejected exactly as [legal] says, values under the defined names"),
        ("C20_fixed_arity_needed", "ArgCheckFacts.fixed_arity_necessary", "the side condition is necessary"),
        ("C20_lookup_registered", "RegisterFacts.lookup_registered", "a registered command is found, in any letter case"),
        ("C20_lookup_other", "RegisterFacts.lookup_other", "other names are unaffected by a registration"),
        ("C20_unregistered_unknown", "RegisterFacts.unregistered_unknown", "unregistered names remain unknown commands"),
        ("C20_no_extension", "RegisterFacts.registered_no_extension", "a registered command without extension is instantiated"),
        ("C20_extension_gate", "RegisterFacts.registered_extension_gate",
         "a registered command with an extension is refused with extension-not-loaded until it is required"),
        ("C20_register_wf", "RegisterFacts.register_wf", "registration preserves table well-formedness (C07's invariant applies)"),
        ("C20_register_keeps_conditions", "RegisterTree.register_tbl_ok", "registering a definition that is [def_ok] under its lower-cased name keeps the table conditions of the round-trip theorem"),
        ("C20_registered_roundtrip", "RegisterTree.registered_print_parse", "scripts using registered commands: printed text accepted, same content, same text again"),
        ("C20_example_definition", "RegisterTree.ex_def_ok", "non-vacuity: a definition with a tag group, a tag with a numeric parameter and a string/list positional meets the conditions"),
        ("C20_example_roundtrip", "RegisterTree.ex_registered_roundtrip", "... and, evaluated: parsed in mixed case with tags out of order, printed in definition order, re-parsed, printed again"),
        ("C20_registered_action_parsed", "CompleteFacts.parse_single_action",
         "end to end for a registered action (instantiate T := register key d T0, lookup by C20_no_extension): every use the definition allows is accepted and recorded under the defined names"),
    ],
}

FACTORY_IMPORTS = """From Coq Require Import List NArith Bool Arith.
From SV Require Import Bytes Ops OpsFacts.
Import ListNotations.
Local Open Scope nat_scope.
"""

SPEC["C12"] = {
    "header": """C12 — filter-set editing operations behave like an ordered, uniquely named list.

   Model: factory/Ops.v — addfilter, updatefilter, replacefilter, removefilter, enablefilter,
   disablefilter, movefilter, getfilter, is_filter_disabled of sievelib.factory.FiltersSet, with
   filter contents abstracted to "a plain command (identified by a number)" or "the if-false wrapper
   around contents", which is all these operations inspect.  Reference: [spec_step] over a list of
   entries (name, content id, enabled, description).  Proofs: factory/OpsFacts.v.
   The model is tied to factory.py by the correspondence check (every operation's return value /
   exception and the whole observable state after every step, on exhaustive and random operation
   sequences); the reference list is compared with the implementation directly as well.
   On real command trees (factory/Build.v, BuildHistory.v): the enabled flag and the `if false` wrapper of the
   rendered script agree in every reachable state (C12_rendering_agrees_with_flags).""",
    "imports": FACTORY_IMPORTS + "From SV Require Import Lexer Tables ArgCheck Machine Printer GenTables Text Build BuildFacts BuildSet Load LoadFacts BuildHistory.\n",
    "theorems": [
        ("C12_rendering_agrees_with_flags", "BuildHistory.history_flags_agree",
         "on real command trees (factory/Build.v): for every set reached by the editing operations from documented definitions, the rendered script parses, and a filter is wrapped in `if false` in what the parser reads back exactly when its enabled flag is off"),
        ("C12_representation", "OpsFacts.abs_iff",
         "a concrete set represents the reference list sp exactly when it is the image of sp: enabled filters hold their plain content, disabled ones hold it wrapped once in if-false, flags agree"),
        ("C12_step_refines", "OpsFacts.step_refines",
         "every operation on a representable set returns what the reference returns and yields the representation of the reference result"),
        ("C12_history_refines", "OpsFacts.history_refines",
         "all histories from the empty set (no length bound): every return value agrees and the final set represents the reference list"),
        ("C12_observers", "OpsFacts.observers_agree",
         "in every representable state: is_filter_disabled = not enabled (True for unknown names), getfilter returns the filter's own plain content whether or not it is disabled, and enabled = not wrapped for every filter"),
        ("C12_names_unique", "OpsFacts.spec_step_nodup", "names stay unique under every operation"),
        ("C12_history_names_unique", "OpsFacts.history_nodup", "... hence in every reachable state"),
        ("C12_update_in_place", "OpsFacts.s_update_in_place",
         "update / replace / enable / disable rewrite exactly the first entry of that name, at its position; everything else is untouched"),
        ("C12_move_up", "OpsFacts.s_move_up_swap", "moving up swaps the filter with its predecessor, nothing else moves"),
        ("C12_move_down", "OpsFacts.s_move_down_swap", "moving down swaps the filter with its successor, nothing else moves"),
        ("C12_unknown_names", "OpsFacts.unknown_name_noop", "operations on unknown names return False and change nothing"),
        ("raw", """(* the repaired defect stays repaired in the model: disabling twice then enabling once gives an enabled,
   unwrapped filter (F4 of DESIGN.md 1.1) *)
Example C12_disable_twice_enable :
  let a := [97%N] in
  let s := snd (run_trace [] [FAdd a 1; FDisable a; FDisable a; FEnable a]) in
  s = [mkF a (Plain 1) true None] /\ op_is_disabled a s = RBool false /\ op_get a s = RContent (Plain 1).
Proof. vm_compute. repeat split. Qed.

(* non-vacuity: collisions, repeats and boundary moves in one history *)
Example C12_history_example :
  let a := [97%N] in let b := [98%N] in
  let ops := [FAdd a 1; FAdd b 2; FAdd a 3; FDisable a; FDisable a; FUpdate a a 4; FMove a true; FMove b true;
              FEnable a; FEnable a; FReplace b 5 (Some a) None; FRemove b; FRemove b] in
  fst (run_trace [] ops) =
    [RNone; RNone; RAlreadyExists; RBool true; RBool true; RBool true; RBool false; RBool true;
     RBool true; RBool false; RAlreadyExists; RBool true; RBool false]
  /\ abs (snd (run_trace [] ops)) = Some [mkE a 4 true None].
Proof. vm_compute. split; reflexivity. Qed.
"""),
    ],
}

TEXT_IMPORTS = """From Coq Require Import String.
From Coq Require Import List NArith Bool Arith.
From SV Require Import Bytes Lexer Text TextFacts.
Import ListNotations.
Local Open Scope nat_scope.
"""

SPEC["C06"] = {
    "header": """C06 — every script the filter factory generates is valid and self-sufficient.

   Model: factory/Build.v follows FiltersSet.__create_filter, __build_condition, __add_tag, require,
   check_if_arg_is_extension, __gen_require_command, disablefilter's wrapper and FiltersSet.tosieve statement by
   statement on top of the models of Command.check_next_arg (sieve/ArgCheck.v) and Command.tosieve
   (sieve/Printer.v); it is run against factory.py on every check (edit histories with generated definitions and
   a malformed stream: return values, exception classes, rendered text, requires).
   Proved (factory/BuildFacts.v, factory/BuildSet.v over sieve/PrintTree.v, CompleteTree.v, RenderFacts.v):
     (a) values: the quoted form of EVERY byte string is exactly one string token whatever follows, its content
         unescapes to the value, a quoted list is bracket / string tokens separated by commas / bracket
         (factory/TextFacts.v) -- a caller-supplied value can never change the token structure;
     (b) every documented condition form [dcond] (header fallback with :is/:contains/:matches and the :not forms,
         one name or a list; exists/notexists; size; envelope; address; body :raw/:text; currentdate with match
         types and with :value + relational operator; true; false) and every documented action form [dact]
         whose definition has the shape ArgSpec describes (fileinto with :copy/:create/:flags, redirect with
         :copy, reject, discard, stop, vacation with every subset of its tags): __create_filter does not raise,
         the command it builds stands for a command of the grammar of CompleteTree (canonical form, with the
         list separators the factory's trees print with) that is legal wherever the extensions it needs are
         loaded (C06_condition_built, C06_condition_legal, C06_action_built, C06_action_legal);
     (c) a whole filter -- any non-empty list of such conditions, any list of such actions, anyof or allof --
         is `if anyof/allof (...) { ... }` in that sense, and the requirements recorded while it is built name
         EVERY extension it uses (C06_filter_built, C06_requires_cover);
     (d) a whole set: for any non-empty list of such filters, some wrapped in `if false { ... }` by disablefilter,
         with requirements that cover them, the text FiltersSet.tosieve writes -- require line, blank line, the
         marker comments, the filters -- is ACCEPTED by the parser and parses to the require command followed by
         the filters in order, each an `if` carrying its marker lines, `if false` exactly for the disabled ones
         (C06_set_accepted).  Unbounded over values, list lengths, numbers of conditions/actions/filters;
     (e) histories (factory/BuildHistory.v): every state reached from the empty set by addfilter / updatefilter with
         documented definitions and replacefilter (with a tree the set built) / removefilter / enablefilter /
         disablefilter / movefilter satisfies an invariant (representable structure, every tree good, requirements
         without duplicates that cover every tree ever built) under which no documented operation raises and
         the rendered text is accepted (C06_history_runs, C06_history_accepted).
   Hypotheses on values (each shown necessary by a generated case or a known finding): strings do not start with
   a quote character (outside the claim), are valid UTF-8, lists are not empty, a header name given as one string
   is not a condition keyword nor "not" + a condition keyword (a header called "notes" is fine since the fix
   recorded in known_findings.json: the proof forced the hypothesis and the real code failed on it), a string argument of an action does not start with ':'; marker lines contain no line feed.
   Not proved: keep/setflag/addflag/removeflag (definitions outside wf_def: known findings of C01/C03), tag orders
   other than the documented one (covered by the differential run and the strict validator).""",
    "imports": TEXT_IMPORTS + "From SV Require Import Tables ArgCheck ArgSpec Machine Printer CompleteFacts CompleteTree RenderFacts PrintTree GenTables Ops Build BuildFacts BuildSet Load LoadFacts BuildHistory FactoryConsts ConstFacts.\n",
    "theorems": [
        ("C06_tag_extension_map", "ConstFacts.arg_extension_is_the_map", "the model's tag -> extension map for action arguments IS the dict of check_if_arg_is_extension read from factory.py on this run (tools/gen_factory.py)"),
        ("C06_dispatch_keywords", "ConstFacts.dispatch_is_the_keywords", "the header fallback is taken exactly for names outside the condition keywords read from __create_filter on this run"),
        ("C06_negatable_names", "ConstFacts.negatable_is_the_tuple", "what a leading `not` negates is the tuple read from the source"),
        ("C06_condition_built", "BuildFacts.build_cond", "every documented condition form: the test __create_filter builds stands for [ctest d]; negation flag and requirements as stated"),
        ("C06_condition_legal", "BuildFacts.cond_wf", "... and that test is legal wherever its extensions are loaded"),
        ("C06_action_built", "BuildFacts.build_act", "every documented action form: the command built stands for [acmd a]"),
        ("C06_action_legal", "BuildFacts.act_wf", "... and is legal wherever its extensions are loaded"),
        ("C06_filter_built", "BuildSet.factory_filter_good", "a whole filter built by __create_filter with the factory's own quoting functions"),
        ("C06_requires_cover", "BuildSet.freqs_covers", "the requirements recorded name every extension the filter uses"),
        ("C06_requires_grow", "BuildSet.freqs_grows", "... and nothing recorded earlier is lost"),
        ("C06_disabled_wrapper", "BuildSet.wrap_good", "disablefilter's `if false { ... }` around a good filter is good"),
        ("C06_set_accepted", "BuildSet.factory_set_accepted", "the text of a whole set is accepted and parses to the filters in order with their marker lines"),
        ("C06_history_runs", "BuildHistory.history_runs", "histories: from every set reached by the editing operations (addfilter/updatefilter with documented definitions; replace/remove/enable/disable/move) the next documented operation does not raise"),
        ("C06_history_accepted", "BuildHistory.history_reload", "... and the text of every reachable non-empty set is accepted by the parser (and loads back as the same set: C11)"),
        ("C06_example_hypotheses", "BuildSet.ex_ok", "non-vacuity: a definition with ten condition forms and four action forms over hostile values (quotes, backslashes, commas, brackets, script fragments, a line feed, non-ASCII) meets the hypotheses"),
        ("C06_example_pipeline", "BuildSet.ex_pipeline", "... and, evaluated on the model: added, disabled, rendered, parsed -- require, then the disabled filter with its marker line"),
        ("C06_value_is_one_string_token", "TextFacts.next_token_quote",
         "the quoted form of ANY value lexes as exactly one string token, whatever follows"),
        ("C06_string_rule_length", "TextFacts.scan_string_quote", "the string scanner consumes exactly the quoted form"),
        ("C06_content_is_the_value", "TextFacts.unescape_escape", "unescaping the token's content gives back the value: nothing added, nothing lost"),
        ("C06_list_token_structure", "TextFacts.next_n_quote_list",
         "a quoted list of ANY values: bracket, quoted items separated by commas, bracket; then the lexer continues with what follows"),
        ("raw", r'''(* a hostile value stays inside its string literal (computed on the model lexer) *)
Example C06_injection_attempt :
  next_n 5 0 (quote_list [bs "a""] { discard; } #"; bs "b\"] ++ bs " { keep; }") =
  Some ([(TLeftBracket, [91%N]); (TString, quote (bs "a""] { discard; } #")); (TComma, [44%N]);
         (TString, quote (bs "b\")); (TRightBracket, [93%N])],
        length (quote_list [bs "a""] { discard; } #"; bs "b\"]), bs " { keep; }").
Proof. vm_compute. reflexivity. Qed.
'''),
    ],
}

SPEC["C11"] = {
    "header": """C11 — a filter set survives being saved as a script and loaded back.

   Models: factory/Build.v (FiltersSet.tosieve: require line, marker comments, filters), sieve/Machine.v (the
   parser, which collects the hash comments of every top-level command), factory/Load.v
   (FiltersSet.from_parser_result), each run against the implementation on every check.
   Proved (factory/LoadFacts.v over BuildSet.v, PrintTree.v, CompleteTree.v; factory/TextFacts.v):
     (a) the marker line written before a filter is ONE hash-comment token ending before the line feed, the
         parser stores it stripped, and from_parser_result recovers the name / description exactly, for every
         marker that starts with a non-blank byte and every text that does not end in a blank and does not
         contain the marker (with witnesses that both hypotheses are needed);
     (b) C11_reload_same: for EVERY non-empty list of good filters (every documented condition/action form,
         enabled or wrapped by disablefilter, with or without description) and requirements that cover them,
         the text FiltersSet.tosieve writes is accepted by the parser, and from_parser_result applied to the
         parsed commands returns the SAME requirements and the filters IN THE SAME ORDER with the same names,
         descriptions and enabled flags -- unbounded over values, numbers of filters, conditions and actions;
         the marker comments are attached to the right filter because the parser theorem
         (CompleteTree.parse_commented_script through PrintTree.set_parses) says so for every commented script;
     (c) C11_history_reload (factory/BuildHistory.v): the same for EVERY set reached from the empty set by a
         history of addfilter / updatefilter (documented definitions) / replacefilter / removefilter /
         enablefilter / disablefilter / movefilter -- the quantifier of the property.
   Hypotheses, besides those of C06: markers start with a non-blank byte, names/descriptions do not end in a
   blank, do not contain their marker, and a name line cannot be taken for a description line or vice versa
   (prefix conditions; all marker pairs used by callers in the harness satisfy them); the requirements have no
   duplicate (FiltersSet.require never adds one).
   The editing operations preserve "enabled = not wrapped" in every reachable state (C12).  That the reloaded
   filters render to scripts with the same trees and that rendering the reloaded set is a fixed point rests on
   C04 (print_parse_general) and is evaluated on the implementation over generated histories, names,
   descriptions and marker prefixes.""",
    "imports": TEXT_IMPORTS + "From SV Require Import Tables ArgCheck ArgSpec Machine Printer CompleteFacts CompleteTree RenderFacts PrintTree GenTables Ops Build BuildFacts BuildSet Load LoadFacts BuildHistory FactoryConsts ConstFacts.\n",
    "theorems": [
        ("C11_disabled_test", "ConstFacts.disabled_classes_ok", "the loader's `if false` test uses the two classes __isdisabled tests in the source"),
        ("C11_default_name", "ConstFacts.unnamed_prefix_ok", "the default name of a loaded filter is the format string of from_parser_result"),
        ("C11_history_reload", "BuildHistory.history_reload", "for every set reached by a history of editing operations with documented definitions: the saved text is accepted and from_parser_result returns the same requirements and the filters in order with the same names, descriptions and enabled flags"),
        ("C11_reload_same", "LoadFacts.reload_same", "save, parse, load: same requirements, same names in the same order, same descriptions, same enabled flags"),
        ("C11_comments_attached", "PrintTree.set_parses", "every commented script laid out as FiltersSet.tosieve does parses to its commands with each comment attached to the command it precedes"),
        ("C11_example_reload", "LoadFacts.ex_reload", "non-vacuity: the C06 example definition, once enabled and once disabled with a description and a non-ASCII name"),
        ("C11_comment_is_one_token", "TextFacts.scan_hash_line",
         "the marker line is one hash-comment token that ends before the line feed"),
        ("C11_recovered_exactly", "TextFacts.recover_stored",
         "name / description recovered exactly from the stored comment"),
        ("raw", r'''Example C11_recover_example :
  recover (bs "# Filter: ") (stored_comment (bs "# Filter: ") (bs "caf" ++ [195%N; 169%N] ++ bs " #1 ""x"""))
  = Some (bs "caf" ++ [195%N; 169%N] ++ bs " #1 ""x""").
Proof. vm_compute. reflexivity. Qed.

(* the hypotheses are needed: a name that ends in a blank loses it, a name containing the marker loses it *)
Example C11_trailing_blank_lost :
  recover (bs "# Filter: ") (stored_comment (bs "# Filter: ") (bs "x ")) = Some (bs "x").
Proof. vm_compute. reflexivity. Qed.
Example C11_marker_inside_lost :
  recover (bs "#F ") (stored_comment (bs "#F ") (bs "a #F b")) = Some (bs "a b").
Proof. vm_compute. reflexivity. Qed.
'''),
    ],
}

SPEC["C19"] = {
    "header": """C19 — what you put into a filter is what you read back.

   Models: factory/Build.v (__create_filter) and factory/Read.v (Command.walk, the args_as_tuple methods of
   header / size / exists / envelope / body / currentdate and of actions, the folding of `not` into the match type,
   get_filter_conditions / get_filter_actions / get_filter_matchtype, getfilter), both run against the
   implementation on every check -- on sets built through the API (enabled and disabled filters) and on the same
   sets saved and loaded back, crashes (AttributeError on list values) included.
   Proved (factory/ReadFacts.v):
     (a) C19_conditions_read_back: for EVERY non-empty list of documented condition forms the property lists
         (header with string values, exists / notexists, size, envelope with lists, body with transform,
         currentdate with and without a relational operator; the :not / not forms included; any number of
         conditions) whose values are free of commas, double quotes and backslashes, every list of documented
         actions, anyof or allof: the filter __create_filter builds is read back by get_filter_conditions as
         EXACTLY the tuples supplied (element by element: str, list, int) and by get_filter_matchtype as the match
         type supplied;
     (b) C19_actions_read_back: get_filter_actions returns exactly the actions supplied, for actions written with
         positional strings and value-less tags (fileinto with :copy/:create, redirect with :copy, reject, discard,
         stop, vacation with :mime and a reason);
     (c) the text-level core: tools.to_list inverts __quote_list exactly on values free of commas, double quotes
         and backslashes (C19_to_list_inverts) and provably not beyond (C19_comma_refuted, C19_quote_refuted: the
         known findings of C19).
   A disabled filter: getfilter returns the tree inside the wrapper, which is the tree that was built (C12's
   refinement: op_get on a disabled entry), so (a) and (b) apply unchanged (the example evaluates exactly that).
     (d) reloaded sets (factory/ReadReload.v): the parser stores string lists as lists, so args_as_tuple takes its
         list branch (re-render, split again); for the same forms and value class the tree the parser builds for the
         filter's script is read back exactly as supplied (C19_parsed_tree_read_back), and for every non-empty set of
         good filters saved by FiltersSet.tosieve the parsed script's filters -- out of their `if false` wrapper
         when disabled -- are read back as they were defined (C19_reloaded_read_back; uses that the tree of a
         script of the grammar is determined by the script, sieve/WfFun.v).
         The same for get_filter_actions on parser trees and on reloaded sets (C19_parsed_tree_actions,
         C19_reloaded_read_back_full): actions with positional strings and value-less tags.
   Not proved: address conditions, values with commas (known findings).  notsize (repaired in 7391840) is one of the
   condition forms of the theorems (DSize with its negation flag).  These are evaluated on the implementation and, for the model, by the differential runs.""",
    "imports": TEXT_IMPORTS + "From SV Require Import Tables ArgCheck ArgSpec Machine Printer GenTables Ops Build BuildFacts BuildSet Read ReadFacts ReadReload FactoryConsts ConstFacts.\n",
    "theorems": [
        ("C19_reloaded_read_back", "ReadReload.reload_read_back", "on a set reloaded from its rendered script: the parser accepts the text and every filter of the parsed script (taken out of its `if false` wrapper when disabled, as getfilter does) is read back as it was defined"),
        ("C19_reloaded_read_back_full", "ReadReload.reload_read_back_full", "the same with get_filter_actions: conditions, match type and actions of every filter of the reloaded set are read back as they were defined"),
        ("C19_parsed_tree_actions", "ReadReload.factory_parsed_actions", "get_filter_actions on the tree the parser builds for the script of a documented filter"),
        ("C19_parsed_tree_read_back", "ReadReload.factory_parsed_filter", "the tree the PARSER builds for the script of a documented filter (string lists stored as lists: the list branch of args_as_tuple) is read back exactly as supplied"),
        ("C19_readable_classes", "ConstFacts.readable_is_the_tuple", "get_filter_conditions reads exactly the command classes listed in the source on this run"),
        ("C19_negation_folding_classes", "ConstFacts.fold_not_only_there", "the negation is folded only for the names the source lists"),
        ("C19_matchtype_classes", "ConstFacts.matchtype_classes_ok", "get_filter_matchtype tests the classes the source lists"),
        ("C19_conditions_read_back", "ReadFacts.factory_read_filter", "conditions (negated forms included) and match type are read back exactly as supplied"),
        ("C19_actions_read_back", "ReadFacts.factory_read_actions", "actions written with positional strings and value-less tags are read back exactly as supplied"),
        ("C19_example_hypotheses", "ReadFacts.ex_r_ok", "non-vacuity: seven condition forms (five negated) and three actions meet the hypotheses"),
        ("C19_example_pipeline", "ReadFacts.ex_read_pipeline", "... and, evaluated on the models: added, disabled, read back through getfilter"),
        ("C19_to_list_inverts", "TextFacts.to_list_quote_list",
         "reading a rendered list back gives the values, for values free of commas, quotes and backslashes"),
        ("C19_single_value", "TextFacts.strip_dq_quote_plain", "a single quoted value is read back by stripping the quotes"),
        ("raw", r'''Example C19_comma_refuted : to_list (quote_list [bs "a,b"]) = [bs "a"; bs "b"].
Proof. vm_compute. reflexivity. Qed.

Example C19_quote_refuted : to_list (quote_list [bs "say ""hi"""]) <> [bs "say ""hi"""].
Proof. vm_compute. discriminate. Qed.

Example C19_blanks_survive : to_list (quote_list [bs " free "; bs "winner "]) = [bs " free "; bs "winner "].
Proof. vm_compute. reflexivity. Qed.
'''),
    ],
}

MS_IMPORTS = """From Coq Require Import String.
From Coq Require Import List NArith Bool Arith.
From SV Require Import Bytes Base64 Client Transport Server Session WriterFacts StatusFacts DecodeFacts DataFacts SessionFacts SessionData.
Import ListNotations.
Local Open Scope nat_scope.
"""

SPEC["C15"] = {
    "header": """C15 — the client's view of the server stays correct over whole sessions.

   Composition (IronFleet style) of the wire theorems against the reference server of ms/Server.v,
   proved in ms/SessionFacts.v for the operations whose reply is a single status line (HAVESPACE,
   PUTSCRIPT, CHECKSCRIPT, DELETESCRIPT, SETACTIVE, native RENAMESCRIPT):
     writer      C08  the strict parser reads back exactly the command the client wrote;
     server           parses it, executes it on its abstract state, renders a status reply with
                      whatever encoding choice comes next (text absent / quoted / literal, response code);
     reader      C09  the client's result mirrors that reply and exactly the reply is consumed.
   Hence (C15_step) the result of the call is the abstract answer of the server state at that moment,
   the server received exactly one well-formed command in a legal state and moved to the abstract
   successor state, and nothing is left in either buffer; by induction (C15_session) this holds for every
   session of such operations the reference server accepts, of any length, for every sequence of encoding
   choices.  Segmentation independence of every operation is C05 (interp agrees with the stream
   semantics used here).
   The data-bearing operations (ms/DataFacts.v, ms/SessionData.v): whatever encoding the server chooses for
   each name of a listing and for a script (quoted string or literal; with or without the extra CRLF after a
   literal), __read_response assembles exactly the canonical text (C15_assemble_listing, C15_assemble_script),
   so LISTSCRIPTS returns exactly the names of the store with the active one apart and GETSCRIPT exactly the
   lines of the stored script, the server state unchanged and both buffers empty (C15_listscripts,
   C15_getscript); and whole sessions mixing all eight operations stay in step (C15_session_with_data).
   Names in listings are assumed free of CR / LF.
   ms/SessionRename.v states the same against a FUNCTIONAL specification over the server's data only (store, active
   script, configuration): spec_op ver o s = the value the call returns and the data the server is left with, where
   a client whose server did not announce VERSION renames by emulation (LISTSCRIPTS, GETSCRIPT, PUTSCRIPT,
   SETACTIVE, DELETESCRIPT: up to five commands in one call; abstractly RenameAbs.rename_abs, whose safety is C14).
   C15_session_refines_spec: every session on which the specification is defined, of any length, returns exactly
   the specified values and leaves the server with the specified data and both buffers empty, for any fuel above
   the size of the store plus the length of the session.  GETSCRIPT of a script that does not exist (NO
   NONEXISTENT, the call returns None and mirrors the code) and LOGOUT are part of the specification
   (C15_getscript_missing, C15_logout), and so is CAPABILITY (ms/CapFacts.v: __read_response collects the
   capability lines one by one, the call returns exactly the text the server wrote -- C15_capability; ms/TlsInv.v:
   no operation but connect changes the server's TLS flag -- C15_tls_flag_invariant -- so the capability text is a
   function of the abstract state carried through the session).  The SASL lists of the configuration are assumed
   free of CR / LF.  Only the connection phase is left to the correspondence check (and C16 / C10).""",
    "imports": MS_IMPORTS + "From SV Require Import TlsInv CapFacts RenameAbs RenameData Spec SessionRename.\n",
    "theorems": [
        ("C15_server_receives_one_command", "SessionFacts.srv_react_simple",
         "the reference server, in step and authenticated, receiving the bytes of one single-status command: it parses exactly that command, answers with one status reply rendered from its abstract answer, and is in step again"),
        ("C15_step", "SessionFacts.simple_cmd_against_server",
         "one operation end to end: result = abstract answer, server state = abstract successor, both buffers empty"),
        ("C15_session", "SessionFacts.session_in_step",
         "whole sessions, no length bound: results, final client fields and final server state are those of the abstract session"),
        ("C15_assemble_listing", "DataFacts.read_response_listing",
         "__read_response on a listing in any mix of encodings, followed by the status reply: the canonical listing, the reply consumed exactly"),
        ("C15_assemble_script", "DataFacts.read_response_script",
         "__read_response on a script sent quoted or as a literal, with or without the extra CRLF"),
        ("C15_listscripts", "SessionData.listscripts_against_server",
         "LISTSCRIPTS end to end against the reference server"),
        ("C15_getscript", "SessionData.getscript_against_server",
         "GETSCRIPT of an existing script end to end"),
        ("C15_getscript_missing", "SessionData.getscript_missing_k_gen",
         "GETSCRIPT of a script that does not exist: None, errcode NONEXISTENT, the server's data untouched"),
        ("C15_logout", "SessionData.logout_k_gen", "LOGOUT: answered OK, the call returns None"),
        ("C15_read_response_lines", "CapFacts.read_response_lines",
         "__read_response over plain data lines followed by a status reply: the lines are collected in order, the reply consumed exactly"),
        ("C15_capability", "CapFacts.capability_k_gen",
         "CAPABILITY end to end: the call returns exactly the capability text the server wrote; server data untouched, buffers empty"),
        ("C15_tls_flag_invariant", "TlsInv.run_op_tls",
         "no operation but connect changes the TLS flag of the server (no command does; no such program wraps the socket)"),
        ("C15_spec_op_invariants", "SessionRename.spec_op_runs_inv",
         "one operation against the specification, with everything a session carries along (TLS flag, SASL lists, names, data)"),
        ("C15_session_capability_example", "SessionRename.session_capability_example",
         "non-vacuity: CAPABILITY and LOGOUT in a session, the capability text spelled out"),
        ("C15_session_with_data", "SessionData.session_with_data",
         "sessions of all eight operations, any length, any encoding choices"),
        ("C15_session_with_data_example", "SessionData.session_data_example",
         "non-vacuity: a concrete session with two listings and a fetch"),
        ("C15_spec_op_runs", "SessionRename.spec_op_runs",
         "one operation (emulated rename included) against the functional specification; the invariants of the session are kept"),
        ("C15_session_refines_spec", "SessionRename.session_refines_spec",
         "whole sessions against the functional specification, emulated rename included"),
        ("C15_session_rename_example", "SessionRename.session_rename_example",
         "non-vacuity: a session with two emulated renames (one refused by the script quota, one of the active script)"),
        ("raw", r'''(* what the abstract session is: the server's own exec_command, command by command *)
Example C15_session_example :
  match abs_session [OPutscript (bs "b") (bs "stop;"); ODeletescript (bs "a"); OSetactive (bs "b");
                     ODeletescript (bs "a"); OPutscript (bs "c") (bs "x"); ORenamescript (bs "b") (bs "a")]
                    demo_server (mkC true None [] [(bs "VERSION", Some (bs "1.0"))]) with
  | Some (outs, _, s') =>
      map (fun o => match o with ODone (VBool b) _ => Some b | _ => None end) outs
      = [Some true; Some false; Some true; Some true; Some true; Some true]
      /\ s_store s' = [(bs "a", bs "stop;"); (bs "c", bs "x")] /\ s_active s' = Some (bs "a")
  | None => False
  end.
Proof. vm_compute. repeat split. Qed.
'''),
    ],
}

SPEC["C02"] = {
    "header": """C02 — parsing always terminates with a verdict: no exception, no hang.

   Model: sieve/Lexer.v + sieve/Machine.v.  [parse T text] returns Accept | Reject | Crash | OutOfFuel,
   where Crash stands for every place at which the Python code would raise something other than a
   ParseError/CommandError (attribute access on None when no command is current, value.lower() on a
   list, NotImplementedError of reassign_arguments, iteration over a Command in complete_cb ...) and
   OutOfFuel for the token loop not ending within 2 * len(text) + 2 steps (a token delivered again and
   again after lexer rewinds).  Proofs: sieve/TotalFacts.v (1900 lines).
   Theorem C02_total: for EVERY byte string and every command table satisfying the decidable structural
   condition [twf_tables] (re-checked by vm_compute on the tables regenerated from /repo on every run:
   C02_tables), the outcome is Accept or Reject — never Crash, never OutOfFuel.  The proof is an
   invariant of the parser state (stack shape, counters of every frame, bracket/expected-token
   coherence, "a stray parenthesis ends the parse at the next token") preserved by every transition
   (C02_step), plus: tokens are non-empty (C02_token_count) and a token delivered again is never
   delivered a third time (C02_no_double_rewind), hence at most 2 * tokens + 1 machine steps.
   A rejection carries a position inside the text, so the reported line is between 1 and 1 + the number
   of line feeds (C02_reject_line).  The condition on the tables is necessary (C02_condition_needed).
   Not carried by the model: the running time of CPython's regex engine on one token (the check runs
   every case under a 2 s timer and counts the lexer's yields), UnicodeDecodeError funnelled into
   ParseError by the except clause (tied by correspondence on invalid UTF-8 inputs).""",
    "imports": SIEVE_IMPORTS + "From SV Require Import PositionFacts TotalFacts RegisterFacts.\n",
    "theorems": [
        ("C02_step", "TotalFacts.process_inv",
         "one parser step from a state satisfying the invariant never crashes and re-establishes the invariant"),
        ("C02_token_count", "TotalFacts.token_count", "every token takes at least one byte"),
        ("C02_no_double_rewind", "TotalFacts.no_double_rewind", "a token delivered again after a lexer rewind is not rewound again"),
        ("C02_total", "TotalFacts.parse_total", "every input, every well-formed table: Accept or Reject"),
        ("C02_total_generated_tables", "TotalFacts.parse_total_gen", "... instantiated with the tables generated from /repo"),
        ("C02_verdict", "TotalFacts.verdict_is_bool", "the same as a disjunction"),
        ("C02_reject_line", "TotalFacts.reject_line_in_range", "a rejection reports a position inside the text: 1 <= line <= 1 + number of LF"),
        ("raw", r'''(* the structural condition holds for the tables of the working tree (re-checked on every run) *)
Theorem C02_tables : twf_tables gen_tables = true.
Proof. vm_compute. reflexivity. Qed.
Print Assumptions C02_tables.

(* ... and is preserved by registering a command that satisfies it (C20: custom commands) *)
Theorem C02_registered : forall T key d text,
  twf_tables T = true -> twf d = true ->
  match parse (register key d T) text with Accept _ | Reject _ _ _ => True | _ => False end.
Proof.
  intros T key d text HT Hd. apply parse_total. unfold twf_tables, register in *. cbn. rewrite Hd, HT. reflexivity.
Qed.
Print Assumptions C02_registered.

(* the condition is needed: a table violating it on which the model loops *)
Example C02_condition_needed :
  let d := mkCmd [120%N] CAction [] false false true None None None HNone RHasflag in
  twf d = false /\ parse [([120%N], d)] [120%N; 123%N] = OutOfFuel.
Proof. vm_compute. split; reflexivity. Qed.

(* the inputs that used to crash or hang the parser (repaired defects), on the model *)
Example C02_former_crashers :
  map (fun s => match parse gen_tables s with Accept _ => 1 | Reject _ _ _ => 2 | Crash _ => 3 | OutOfFuel => 4 end)
      [bs "require [""imap4flags""]; if hasflag {}"; bs "require;"; bs "control;"; bs "if test {}";
       bs "keep (true);"; bs "if ( anyof ( true ) ) { }"; bs "if anyof ( header ) ) )"; bs "stop ( ) ;";
       bs "if true { if true { } else [ { } } }"]
  = [2; 1; 2; 2; 2; 2; 2; 2; 2].
Proof. vm_compute. reflexivity. Qed.
'''),
    ],
}

SPEC["C04"] = {
    "header": """C04 — serialising a parsed script yields an equivalent script (print/parse round trip).

   Proved here (sieve/LexerFacts.v over sieve/Lexer.v and sieve/Printer.v): the part of C04 that is about
   values — "string and list values survive unchanged whatever characters they contain".
     (a) every string token the lexer delivers is an exact string token (its text alone is matched
         completely by the string rule) — so is every value the parser stores from one;
     (b) an exact string token is printed as it is by the (repaired) list-item printer and is lexed back as
         the same single token, whatever follows it, also after the blank the printer writes;
     (c) a printed list of exact string tokens is lexed back as '[' item (',' item)* ']', whatever the items
         contain and whatever follows.
   Tree level (sieve/RenderFacts.v, sieve/PrintTree.v), for every script derivable in the grammar wf_cmds of
   CompleteTree whose tree is in CANONICAL FORM [canon_cmd] — command names spelled as in their definitions,
   arguments written in definition order with each optional slot at most once, values that are quoted
   strings, multi-line (`text:`) strings, numbers, tags or non-empty lists of quoted strings.  A multi-line
   string ends with its own line feed, which the layout carries into the white space before the next token
   ([carry_of], [args_carry], [tcarry]) exactly as Command.tosieve does:
     (d) the lexer inverts rendering: well-formed tokens written with any white space between them (none where
         two tokens cannot merge) are lexed back as exactly those tokens (C04_lex_render);
     (e) the text the model of Command.tosieve prints for such a tree IS the layout of the script's tokens
         (one command per line, four spaces per level, ", " in lists) (C04_tosieve_layout);
     (f) hence it is accepted and parses to EXACTLY the tree that was printed, and printing that tree again
         gives the same text (C04_print_parse_roundtrip, C04_print_fixed_point) — unbounded over tables,
         scripts, nesting depth, values.
     (g) every legal argument list has a canonical reordering with the same meaning (sieve/CanonFacts.v:
         C04_legal_canonical -- the arguments read off the maps in definition order are legal again and give
         maps with the same value under every key), hence every script of the grammar has a canonical twin
         whose tree has the same content and the SAME printed text (sieve/CanonTree.v), and so for EVERY
         printable script of the grammar, whatever the order of its arguments and with repeated tags: the
         printed text of its tree is accepted, parses to a tree with the same content [nsim] (same
         definitions, same value under every key, same nesting and order), and printing that tree gives the
         same text (C04_print_parse_general).  Table conditions [tbl_ok] (names consistent and identifiers,
         argument names distinct, no slot taking both numbers and strings) are re-checked by computation on
         the tables regenerated from /repo.
   Not proved: the commands outside wf_def (known findings); a multi-line string inside a string LIST
   (the lexer accepts it there, the grammar of CompleteTree does not generate it).  The printer model is tied to commands.py by comparing the printed text of every accepted
   input, and the round trip itself (print, re-parse, compare trees as maps, print again, compare text) is
   evaluated on the implementation over enumerations, generated
   scripts, layouts, mutants, repeated tags and a quoting-edge value generator.""",
    "imports": SIEVE_IMPORTS + "From SV Require Import TotalFacts LexerFacts CompleteFacts CompleteTree CompleteExamples RenderFacts PrintTree CanonFacts CanonTree PrintExamples.\n",
    "theorems": [
        ("C04_lexed_strings_exact", "LexerFacts.lexed_strings_exact", "every string token delivered by the lexer is an exact string token"),
        ("C04_item_printed_unchanged", "LexerFacts.print_item_exact", "the list-item printer leaves a string token alone, whatever it contains"),
        ("C04_string_lexes_back", "LexerFacts.next_token_exact", "a printed string token is lexed back as the same single token, whatever follows"),
        ("C04_string_lexes_back_after_blank", "LexerFacts.next_token_exact_sp", "... also after the blank the printer writes before a value"),
        ("C04_list_lexes_back", "LexerFacts.printed_list_lexes_back", "a printed list is lexed back as bracket, the same items separated by commas, bracket"),
        ("C04_lex_render", "RenderFacts.lex_lrender", "the lexer inverts rendering, for every token kind and every white space"),
        ("C04_layout_lexes", "PrintTree.layout_lexes", "the tosieve layout of a printable script is lexed back as the tokens of the script"),
        ("C04_layout_parses", "PrintTree.layout_parses", "... and parses to its tree"),
        ("C04_tosieve_layout", "PrintTree.tosieve_layout", "the model of Command.tosieve prints exactly that layout for a tree in canonical form"),
        ("C04_print_parse_roundtrip", "PrintTree.print_parse_roundtrip", "tree level: parse (print tree) = tree"),
        ("C04_print_fixed_point", "PrintTree.print_fixed_point", "printing the re-parsed tree reproduces the text"),
        ("C04_legal_canonical", "CanonFacts.legal_canonical",
         "the canonical reordering of a legal argument list: legal again, same content, and it is what the maps say in definition order"),
        ("C04_canonical_twin", "CanonTree.canon_of_cmds",
         "every well-formed printable script has a canonical twin: same content, same printed text"),
        ("C04_print_parse_general", "CanonTree.print_parse_general",
         "tree level, whole grammar, any argument order: parse (print tree) has the same content as tree and prints to the same text"),
        ("C04_example_general", "PrintExamples.ex2_roundtrip",
         "non-vacuity: a script with upper-case names, tags out of order and a repeated tag"),
        ("C04_example_multiline", "PrintExamples.ex_ml_roundtrip",
         "non-vacuity: a script whose value is a `text:` block (the line feed after the block is carried into the layout)"),
        ("C04_example_canonical", "PrintExamples.ex_canon", "non-vacuity on the tables generated from /repo: the tree of the example script (require, if/elsif/else, anyof, not, nested blocks, tags with parameters, numbers, lists) is canonical"),
        ("C04_example_roundtrip", "PrintExamples.ex_roundtrip", "... and the theorem gives its round trip"),
        ("raw", r'''(* non-vacuity: hostile contents are exact string tokens; and the model round trip on a concrete script *)
Example C04_exact_examples :
  Forall exact_string [bs """a\""b"""; bs """back\\slash"""; bs """[x], """; bs """two" ++ [10%N] ++ bs "lines"""; bs """"""].
Proof. repeat constructor; vm_compute; reflexivity. Qed.

Example C04_model_roundtrip :
  let src := bs "require [""fileinto"", ""a\""b""]; if anyof (header :contains [""x,y"", ""]""] ""\\"", not exists ""z"") { fileinto ""[a]""; }" in
  match parse gen_tables src with
  | Accept r =>
      let out := tosieve_all 10 r in
      match parse gen_tables out with
      | Accept r2 => tosieve_all 10 r2 = out
      | _ => False
      end
  | _ => False
  end.
Proof. vm_compute. reflexivity. Qed.
'''),
    ],
}

COMPLETE_IMPORTS = SIEVE_IMPORTS + "From SV Require Import ArgCheckFacts PositionFacts TotalFacts RegisterFacts CompleteFacts.\n"
TREE_IMPORTS = SIEVE_IMPORTS + "From SV Require Import ArgCheckFacts PositionFacts TotalFacts RegisterFacts CompleteFacts CompleteTree CompleteExamples.\n"

SPEC["C03"] = {
    "header": """C03 — accepted scripts are represented faithfully: nothing dropped or invented.

   Proved here (sieve/CompleteFacts.v) for commands without tests and blocks — every action of the
   tables (keep, stop, discard, redirect, fileinto, reject, vacation, set, ...) and every registered action of
   the documented shape: feeding the argument tokens of `name arg_1 ... arg_n ;` (string lists written
   '[' item (',' item)* ']') through the parser machine gives the SAME frame as feeding the arguments to the
   table interpreter (C03_run_args), and closing the command with ';' appends exactly one node to the
   result carrying exactly the argument map and the tag-parameter map the specification [legal] assigns
   (C03_action_faithful): no token is dropped, overwritten, duplicated or attached to another command;
   nothing else in the parser state changes.  On texts: every text that lexes — whatever its layout — to those
   tokens is accepted with that one-node tree (C03_parse_single_action).
   Whole scripts (sieve/CompleteTree.v): for every command sequence derivable in the grammar [wf_cmds]
   (actions, require, controls with a test and a block, tests with arguments, not, anyof / allof, all nested to
   any depth, elsif / else) the tree returned is EXACTLY the tree of the derivation: every command under
   its parent in source order, every test in the slot of the command that takes it, every argument map as
   the specification [legal] assigns it, no node dropped, duplicated or attached elsewhere
   (C03_run_cmds, C03_parse_script).
   Outside that grammar (hash comments between commands; keep / setflag / addflag / removeflag / hasflag whose
   definitions are not [wf_def], see known findings) faithfulness is checked, not proved: every accepted
   input of the enumerations, structural cases, generated scripts, layouts and mutants is compared with the
   tree of an independent recursive-descent parser of the RFC 5228 generic grammar, and the model's tree
   with the parser's tree.""",
    "imports": TREE_IMPORTS,
    "theorems": [
        ("C03_run_args", "CompleteFacts.run_args",
         "the argument tokens drive the machine exactly as the arguments drive the table interpreter; brackets, loaded extensions, comments and result are untouched"),
        ("C03_action_accepted", "CompleteFacts.action_accepted",
         "`name args ;` at top level appends exactly one node with the frame's maps; the pending hash comments move to it"),
        ("C03_action_faithful", "CompleteFacts.action_complete",
         "with the specification: legal and complete arguments give a node with exactly the specified maps"),
        ("C03_parse_single_action", "CompleteFacts.parse_single_action",
         "on texts: any layout that lexes to these tokens is accepted with exactly this tree"),
        ("C03_run_args_gen", "CompleteTree.run_args_gen",
         "arguments of any command (test, control, action), anywhere in the stack"),
        ("C03_run_test", "CompleteTree.run_test",
         "a test tree is rebuilt node for node: arguments, the test of `not`, the tests of a test list in order"),
        ("C03_run_cmds", "CompleteTree.run_cmds",
         "a command sequence emits exactly its nodes, in order, into the result (top level) or the children of the block owner"),
        ("C03_parse_script", "CompleteTree.parse_script",
         "on texts: the tree of the derivation, nothing else"),
        ("C03_parse_commented_script", "CompleteTree.parse_commented_script",
         "hash comments before top-level commands end up, stripped, in the comments of exactly that command; nothing else changes"),
        ("C03_script_example", "CompleteExamples.ex_wf",
         "non-vacuity on the generated tables"),
        ("raw", r'''(* non-vacuity: vacation with tags, a number, a list and a string, from its text *)
Example C03_vacation_example :
  parse gen_tables (bs "require ""vacation""; vacation :days 7 :addresses [""a@b"", ""c,d""] :subject ""x\""y"" ""gone"";") =
  match lookup_cmd gen_tables (bs "require"), lookup_cmd gen_tables (bs "vacation") with
  | Some rq, Some vac =>
      Accept [Node rq [(bs "capabilities", VStr (bs """vacation"""))] [] [] [];
              Node vac [(bs "days", VStr (bs ":days")); (bs "addresses", VStr (bs ":addresses"));
                        (bs "subject", VStr (bs ":subject")); (bs "reason", VStr (bs """gone"""))]
                       [(bs "days", VStr (bs "7")); (bs "addresses", VList [bs """a@b"""; bs """c,d"""]);
                        (bs "subject", VStr (bs """x\""y"""))] [] []]
  | _, _ => Reject EUnknownToken 0 0
  end.
Proof. vm_compute. reflexivity. Qed.
'''),
    ],
}


# the lexer rules the hand-translated scanners stand for (coq/sieve/LexRules.v) against the rules read from the
# working tree by tools/gen_tables.py: an obligation of every property that rests on the lexer
for _pid in ("C01", "C02", "C03", "C04", "C18"):
    SPEC[_pid]["imports"] += "From SV Require Import LexRules.\n"
    SPEC[_pid]["theorems"].append(("raw", (
        "(* Parser.lrules of the working tree are the regular expressions the scanners of sieve/Lexer.v were translated from *)\n"
        "Example %s_lexer_rules : gen_lrules = expected_lrules.\nProof. vm_compute. reflexivity. Qed.\n") % _pid))
