(* Bytes.v — byte strings as lists of N, with executable models of the CPython
   bytes/str builtins the modelled code relies on.  Definitions only (facts are
   in BytesFacts.v) so that the model still runs when a proof breaks. *)
From Coq Require Import List NArith Bool Ascii String.
Import ListNotations.
Open Scope N_scope.

Definition byte := N.
Definition bytes := list N.

Definition bs (s : string) : bytes := map N_of_ascii (list_ascii_of_string s).

Fixpoint beq (a b : bytes) : bool :=
  match a, b with
  | [], [] => true
  | x :: a', y :: b' => (x =? y) && beq a' b'
  | _, _ => false
  end.

Definition c_CR : N := 13.
Definition c_LF : N := 10.
Definition c_DQ : N := 34.
Definition c_BSL : N := 92.
Definition c_SP : N := 32.
Definition CRLF : bytes := [13; 10].

(* bytes.strip() / \s for bytes patterns: 9,10,11,12,13,32 *)
Definition is_space (c : N) : bool := (c =? 32) || ((9 <=? c) && (c <=? 13)).
Definition is_digit (c : N) : bool := (48 <=? c) && (c <=? 57).
Definition is_upper (c : N) : bool := (65 <=? c) && (c <=? 90).
Definition is_lower (c : N) : bool := (97 <=? c) && (c <=? 122).
Definition is_alpha (c : N) : bool := is_upper c || is_lower c.
(* \w for bytes patterns *)
Definition is_word (c : N) : bool := is_alpha c || is_digit c || (c =? 95).
Definition to_lower (c : N) : N := if is_upper c then c + 32 else c.
Definition to_upper (c : N) : N := if is_lower c then c - 32 else c.
Definition lower (l : bytes) : bytes := map to_lower l.
Definition upper (l : bytes) : bytes := map to_upper l.

Fixpoint starts_with (p l : bytes) : bool :=
  match p, l with
  | [], _ => true
  | x :: p', y :: l' => (x =? y) && starts_with p' l'
  | _ :: _, [] => false
  end.

Definition ends_with (p l : bytes) : bool := starts_with (rev p) (rev l).

Fixpoint drop_while (f : N -> bool) (l : bytes) : bytes :=
  match l with
  | [] => []
  | x :: t => if f x then drop_while f t else l
  end.

Fixpoint take_while (f : N -> bool) (l : bytes) : bytes :=
  match l with
  | [] => []
  | x :: t => if f x then x :: take_while f t else []
  end.

Definition lstrip_f (f : N -> bool) (l : bytes) : bytes := drop_while f l.
Definition rstrip_f (f : N -> bool) (l : bytes) : bytes := rev (drop_while f (rev l)).
Definition strip_f (f : N -> bool) (l : bytes) : bytes := rstrip_f f (lstrip_f f l).
Definition strip_ws := strip_f is_space.
Definition strip_dq := strip_f (fun c => c =? 34).

Fixpoint mem (x : bytes) (l : list bytes) : bool :=
  match l with
  | [] => false
  | y :: t => beq x y || mem x t
  end.

Fixpoint contains_byte (c : N) (l : bytes) : bool :=
  match l with
  | [] => false
  | x :: t => (x =? c) || contains_byte c t
  end.

(* first CRLF: (before, after) *)
Fixpoint split_crlf (l : bytes) : option (bytes * bytes) :=
  match l with
  | [] => None
  | a :: t =>
      match t with
      | [] => None
      | b :: t' =>
          if (a =? 13) && (b =? 10) then Some ([], t')
          else match split_crlf t with
               | Some (x, y) => Some (a :: x, y)
               | None => None
               end
      end
  end.

(* bytes.splitlines(): boundaries \n, \r\n, \r; no trailing empty element *)
Fixpoint splitlines_aux (cur : bytes) (l : bytes) : list bytes :=
  match l with
  | [] => match cur with [] => [] | _ => [rev cur] end
  | a :: t =>
      if a =? 10 then rev cur :: splitlines_aux [] t
      else if a =? 13 then
             match t with
             | b :: t' => if b =? 10 then rev cur :: splitlines_aux [] t'
                          else rev cur :: splitlines_aux [] t
             | [] => [rev cur]
             end
           else splitlines_aux (a :: cur) t
  end.
Definition splitlines (l : bytes) : list bytes := splitlines_aux [] l.

(* bytes.split(None, 1) *)
Definition split_ws1 (l : bytes) : list bytes :=
  let l1 := drop_while is_space l in
  match l1 with
  | [] => []
  | _ =>
      let w := take_while (fun c => negb (is_space c)) l1 in
      let r := drop_while is_space (drop_while (fun c => negb (is_space c)) l1) in
      match r with
      | [] => [w]
      | _ => [w; r]
      end
  end.

(* bytes.split() — all whitespace separated words *)
Fixpoint split_ws_aux (cur : bytes) (l : bytes) : list bytes :=
  match l with
  | [] => match cur with [] => [] | _ => [rev cur] end
  | a :: t =>
      if is_space a then
        match cur with
        | [] => split_ws_aux [] t
        | _ => rev cur :: split_ws_aux [] t
        end
      else split_ws_aux (a :: cur) t
  end.
Definition split_ws (l : bytes) : list bytes := split_ws_aux [] l.

Fixpoint join (sep : bytes) (l : list bytes) : bytes :=
  match l with
  | [] => []
  | [x] => x
  | x :: t => x ++ sep ++ join sep t
  end.

(* int(b"123") for a non-empty digit string *)
Definition num_of_digits (l : bytes) : N :=
  fold_left (fun acc c => acc * 10 + (c - 48)) l 0.

(* b"%d" % n *)
Fixpoint dec_aux (fuel : nat) (n : N) (acc : bytes) : bytes :=
  match fuel with
  | O => acc
  | S f =>
      let acc' := (48 + n mod 10) :: acc in
      if n / 10 =? 0 then acc' else dec_aux f (n / 10) acc'
  end.
Definition dec (n : N) : bytes := dec_aux (S (N.size_nat n)) n [].

Definition blen (l : bytes) : N := N.of_nat (List.length l).

(* the two chained bytes.replace calls of __quote: backslash and double quote get a backslash *)
Fixpoint escape_q (l : bytes) : bytes :=
  match l with
  | [] => []
  | c :: t => if (c =? 92) || (c =? 34) then 92 :: c :: escape_q t else c :: escape_q t
  end.
Definition quote (l : bytes) : bytes := 34 :: escape_q l ++ [34].

(* re.sub of backslash-any by the second byte (DOTALL): left to right, a trailing lone
   backslash is kept *)
Fixpoint unescape_q (l : bytes) : bytes :=
  match l with
  | [] => []
  | c :: t =>
      if c =? 92 then
        match t with
        | d :: t' => d :: unescape_q t'
        | [] => [c]
        end
      else c :: unescape_q t
  end.

(* the quoted-string pattern DQ ( [^DQ BSL] | BSL any )* DQ with DOTALL, matched at the head of l:
   Some (raw content between the quotes, rest after the closing quote) *)
Fixpoint scan_quoted_body (l : bytes) : option (bytes * bytes) :=
  match l with
  | [] => None
  | c :: t =>
      if c =? 34 then Some ([], t)
      else if c =? 92 then
             match t with
             | d :: t' =>
                 match scan_quoted_body t' with
                 | Some (x, r) => Some (c :: d :: x, r)
                 | None => None
                 end
             | [] => None
             end
           else match scan_quoted_body t with
                | Some (x, r) => Some (c :: x, r)
                | None => None
                end
  end.
Definition scan_quoted (l : bytes) : option (bytes * bytes) :=
  match l with
  | c :: t => if c =? 34 then scan_quoted_body t else None
  | [] => None
  end.

(* rb"\{(\d+)\+?\}" matched at the head of l: Some (n, rest) *)
Definition scan_size (l : bytes) : option (N * bytes) :=
  match l with
  | c :: t =>
      if c =? 123 then
        let ds := take_while is_digit t in
        let r := drop_while is_digit t in
        match ds with
        | [] => None
        | _ =>
            let r' := match r with
                      | p :: r1 => if p =? 43 then r1 else r
                      | [] => r
                      end in
            match r' with
            | e :: r2 => if e =? 125 then Some (num_of_digits ds, r2) else None
            | [] => None
            end
        end
      else None
  | [] => None
  end.

Definition opt_beq (a b : option bytes) : bool :=
  match a, b with
  | None, None => true
  | Some x, Some y => beq x y
  | _, _ => false
  end.

Fixpoint assoc_get {V : Type} (k : bytes) (m : list (bytes * V)) : option V :=
  match m with
  | [] => None
  | (k', v) :: t => if beq k k' then Some v else assoc_get k t
  end.

(* dict[k] = v keeping the insertion position of an existing key *)
Fixpoint assoc_set {V : Type} (k : bytes) (v : V) (m : list (bytes * V)) : list (bytes * V) :=
  match m with
  | [] => [(k, v)]
  | (k', v') :: t => if beq k k' then (k', v) :: t else (k', v') :: assoc_set k v t
  end.

Fixpoint assoc_del {V : Type} (k : bytes) (m : list (bytes * V)) : list (bytes * V) :=
  match m with
  | [] => []
  | (k', v') :: t => if beq k k' then t else (k', v') :: assoc_del k t
  end.
