(* Base64.v — model of base64.b64encode and a strict RFC 4648 decoder (definitions only). *)
From Coq Require Import List NArith Bool.
From SV Require Import Bytes.
Import ListNotations.
Open Scope N_scope.

Definition b64_char (n : N) : N :=
  if n <? 26 then 65 + n
  else if n <? 52 then 97 + (n - 26)
  else if n <? 62 then 48 + (n - 52)
  else if n =? 62 then 43 else 47.

Definition b64_val (c : N) : option N :=
  if (65 <=? c) && (c <=? 90) then Some (c - 65)
  else if (97 <=? c) && (c <=? 122) then Some (c - 97 + 26)
  else if (48 <=? c) && (c <=? 57) then Some (c - 48 + 52)
  else if c =? 43 then Some 62
  else if c =? 47 then Some 63
  else None.

Fixpoint b64_encode (l : bytes) : bytes :=
  match l with
  | [] => []
  | [a] => [b64_char (a / 4); b64_char ((a mod 4) * 16); 61; 61]
  | [a; b] => [b64_char (a / 4); b64_char ((a mod 4) * 16 + b / 16); b64_char ((b mod 16) * 4); 61]
  | a :: b :: c :: t =>
      b64_char (a / 4) :: b64_char ((a mod 4) * 16 + b / 16)
      :: b64_char ((b mod 16) * 4 + c / 64) :: b64_char (c mod 64) :: b64_encode t
  end.

(* strict decoder: groups of four, padding only in the last group, canonical padding bits *)
Fixpoint b64_decode (l : bytes) : option bytes :=
  match l with
  | [] => Some []
  | [w; x; y; z] =>
      match b64_val w, b64_val x with
      | Some p, Some q =>
          if (y =? 61) && (z =? 61) then
            if q mod 16 =? 0 then Some [p * 4 + q / 16] else None
          else
            match b64_val y with
            | Some r =>
                if z =? 61 then
                  if r mod 4 =? 0 then Some [p * 4 + q / 16; (q mod 16) * 16 + r / 4] else None
                else
                  match b64_val z with
                  | Some s => Some [p * 4 + q / 16; (q mod 16) * 16 + r / 4; (r mod 4) * 64 + s]
                  | None => None
                  end
            | None => None
            end
      | _, _ => None
      end
  | w :: x :: y :: z :: t =>
      match b64_val w, b64_val x, b64_val y, b64_val z, b64_decode t with
      | Some p, Some q, Some r, Some s, Some rest =>
          Some (p * 4 + q / 16 :: (q mod 16) * 16 + r / 4 :: (r mod 4) * 64 + s :: rest)
      | _, _, _, _, _ => None
      end
  | _ => None
  end.
