(* C19 — what you put into a filter is what you read back.

   Models: factory/Build.v (__create_filter) and factory/Read.v (Command.walk, the args_as_tuple methods of
   header / size / exists / envelope / body / currentdate and of actions, the folding of `not` into the match type,
   get_filter_conditions / get_filter_actions / get_filter_matchtype, getfilter), both run against the
   implementation on every check -- on sets built through the API (enabled and disabled filters) and on the same
   sets saved and loaded back, crashes (AttributeError on list values) included.
   Proved (factory/ReadFacts.v):
     (a) C19_conditions_read_back: for EVERY non-empty list of documented condition forms the property lists
         (header with string values, exists / notexists, size, envelope with lists, body with transform,
         currentdate with and without a relational operator; the :not / not forms included; any number of
         conditions) whose values are free of commas, double quotes and backslashes, every list of documented
         actions, anyof or allof: the filter __create_filter builds is read back by get_filter_conditions as
         EXACTLY the tuples supplied (element by element: str, list, int) and by get_filter_matchtype as the match
         type supplied;
     (b) C19_actions_read_back: get_filter_actions returns exactly the actions supplied, for actions written with
         positional strings and value-less tags (fileinto with :copy/:create, redirect with :copy, reject, discard,
         stop, vacation with :mime and a reason);
     (c) the text-level core: tools.to_list inverts __quote_list exactly on values free of commas, double quotes
         and backslashes (C19_to_list_inverts) and provably not beyond (C19_comma_refuted, C19_quote_refuted: the
         known findings of C19).
   A disabled filter: getfilter returns the tree inside the wrapper, which is the tree that was built (C12's
   refinement: op_get on a disabled entry), so (a) and (b) apply unchanged (the example evaluates exactly that).
     (d) reloaded sets (factory/ReadReload.v): the parser stores string lists as lists, so args_as_tuple takes its
         list branch (re-render, split again); for the same forms and value class the tree the parser builds for the
         filter's script is read back exactly as supplied (C19_parsed_tree_read_back), and for every non-empty set of
         good filters saved by FiltersSet.tosieve the parsed script's filters -- out of their `if false` wrapper
         when disabled -- are read back as they were defined (C19_reloaded_read_back; uses that the tree of a
         script of the grammar is determined by the script, sieve/WfFun.v).
         The same for get_filter_actions on parser trees and on reloaded sets (C19_parsed_tree_actions,
         C19_reloaded_read_back_full): actions with positional strings and value-less tags.
   Not proved: address conditions, values with commas (known findings).  notsize (repaired in 7391840) is one of the
   condition forms of the theorems (DSize with its negation flag).  These are evaluated on the implementation and, for the model, by the differential runs. *)
From Coq Require Import String.
From Coq Require Import List NArith Bool Arith.
From SV Require Import Bytes Lexer Text TextFacts.
Import ListNotations.
Local Open Scope nat_scope.
From SV Require Import Tables ArgCheck ArgSpec Machine Printer GenTables Ops Build BuildFacts BuildSet Read ReadFacts ReadReload FactoryConsts ConstFacts.

(* on a set reloaded from its rendered script: the parser accepts the text and every filter of the parsed script (taken out of its `if false` wrapper when disabled, as getfilter does) is read back as it was defined *)
Theorem C19_reloaded_read_back :
  forall (np dp : bytes) (loaded : list bytes) (fuel : nat) (reqs : list bytes)
    (sfs : list sfilter) (defs : list fdef),
  sfs <> [] ->
  kreqs reqs ->
  Forall (sf_ok np dp reqs fuel) sfs ->
  4 <= fuel ->
  Forall2 def_ok sfs defs ->
  exists (text : bytes) (ns nps : list node),
    render_set gen_tables loaded fuel np dp
      {| bs_requires := reqs; bs_filters := map sf_bf sfs |} = BOk text /\
    parse gen_tables text = Accept ns /\
    match reqs with
    | [] => ns = nps
    | _ :: _ => ns = req_pnode reqs :: nps
    end /\
    Forall2
      (fun (xd : sfilter * fdef) (n : node) =>
       exists flt : node, got (sf_dis (fst xd)) n flt /\ read_ok fuel (snd xd) flt)
      (combine sfs defs) nps.
Proof. exact ReadReload.reload_read_back. Qed.
Print Assumptions C19_reloaded_read_back.

(* the same with get_filter_actions: conditions, match type and actions of every filter of the reloaded set are read back as they were defined *)
Theorem C19_reloaded_read_back_full :
  forall (np dp : bytes) (loaded : list bytes) (fuel : nat) (reqs : list bytes)
    (sfs : list sfilter) (defs : list fdef),
  sfs <> [] ->
  kreqs reqs ->
  Forall (sf_ok np dp reqs fuel) sfs ->
  4 <= fuel ->
  Forall2 def_ok sfs defs ->
  Forall (fun d : fdef => Forall ract_ok (def_acts d)) defs ->
  exists (text : bytes) (ns nps : list node),
    render_set gen_tables loaded fuel np dp
      {| bs_requires := reqs; bs_filters := map sf_bf sfs |} = BOk text /\
    parse gen_tables text = Accept ns /\
    match reqs with
    | [] => ns = nps
    | _ :: _ => ns = req_pnode reqs :: nps
    end /\
    Forall2
      (fun (xd : sfilter * fdef) (n : node) =>
       exists flt : node, got (sf_dis (fst xd)) n flt /\ read_ok_full fuel (snd xd) flt)
      (combine sfs defs) nps.
Proof. exact ReadReload.reload_read_back_full. Qed.
Print Assumptions C19_reloaded_read_back_full.

(* get_filter_actions on the tree the parser builds for the script of a documented filter *)
Theorem C19_parsed_tree_actions :
  forall (conds : list dcond) (acts : list dact) (anyof : bool) (L : list bytes)
    (prev : option bytes) (fuel : nat),
  conds <> [] ->
  Forall cond_ok conds ->
  Forall rcond_ok conds ->
  Forall act_ok acts ->
  Forall ract_ok acts ->
  (forall e : bytes, In e (fexts conds acts) -> mem e L = true) ->
  4 <= fuel ->
  exists np : node,
    CompleteTree.wf_cmd gen_tables L prev (std_fcmd conds acts anyof) np L /\
    std_get_actions fuel np = ROk (map (fun a : dact => map fv_rv (atuple a)) acts).
Proof. exact ReadReload.factory_parsed_actions. Qed.
Print Assumptions C19_parsed_tree_actions.

(* the tree the PARSER builds for the script of a documented filter (string lists stored as lists: the list branch of args_as_tuple) is read back exactly as supplied *)
Theorem C19_parsed_tree_read_back :
  forall (conds : list dcond) (acts : list dact) (anyof : bool) (L : list bytes)
    (prev : option bytes) (fuel : nat),
  conds <> [] ->
  Forall cond_ok conds ->
  Forall rcond_ok conds ->
  Forall act_ok acts ->
  (forall e : bytes, In e (fexts conds acts) -> mem e L = true) ->
  4 <= fuel ->
  exists np : node,
    CompleteTree.wf_cmd gen_tables L prev (std_fcmd conds acts anyof) np L /\
    std_get_conditions fuel np = ROk (map (fun d : dcond => map fv_rv (ctuple d)) conds) /\
    get_matchtype fuel np = Some (mt_name anyof).
Proof. exact ReadReload.factory_parsed_filter. Qed.
Print Assumptions C19_parsed_tree_read_back.

(* get_filter_conditions reads exactly the command classes listed in the source on this run *)
Theorem C19_readable_classes :
  guarded gen_readable
    (fun l : list bytes =>
     forall (strip : bytes -> bytes) (has_comma : bytes -> bool)
       (tolist : bool -> bytes -> list bytes) (is_bracket is_digits : bytes -> bool)
       (render : list bytes -> bytes) (n : node),
     cond_tuple strip has_comma tolist is_bracket is_digits render n = None <->
     mem (d_name (node_def n)) l = false).
Proof. exact ConstFacts.readable_is_the_tuple. Qed.
Print Assumptions C19_readable_classes.

(* the negation is folded only for the names the source lists *)
Theorem C19_negation_folding_classes :
  guarded gen_fold_not
    (fun groups : list (list bytes) =>
     forall (name : bytes) (args : rtuple),
     mem name (concat groups) = false -> fold_not name args = ROk args).
Proof. exact ConstFacts.fold_not_only_there. Qed.
Print Assumptions C19_negation_folding_classes.

(* get_filter_matchtype tests the classes the source lists *)
Theorem C19_matchtype_classes :
  guarded gen_matchtype_classes
    (fun l : list bytes =>
     forall n : node, is_named n k_anyof || is_named n k_allof = mem (d_name (node_def n)) l).
Proof. exact ConstFacts.matchtype_classes_ok. Qed.
Print Assumptions C19_matchtype_classes.

(* conditions (negated forms included) and match type are read back exactly as supplied *)
Theorem C19_conditions_read_back :
  forall (loaded : list bytes) (conds : list dcond) (acts : list dact) 
    (anyof : bool) (reqs : list bytes) (fuel : nat),
  conds <> [] ->
  Forall rcond_ok conds ->
  Forall act_ok acts ->
  Forall act_plain acts ->
  4 <= fuel ->
  exists n : node,
    create_filter quote_if_necessary quote_list gen_tables loaded 
      (map ctuple conds) (map atuple acts) (mt_name anyof) reqs =
    BOk (n, freqs conds acts reqs) /\
    std_get_conditions fuel n = ROk (map (fun d : dcond => map fv_rv (ctuple d)) conds) /\
    get_matchtype fuel n = Some (mt_name anyof).
Proof. exact ReadFacts.factory_read_filter. Qed.
Print Assumptions C19_conditions_read_back.

(* actions written with positional strings and value-less tags are read back exactly as supplied *)
Theorem C19_actions_read_back :
  forall (loaded : list bytes) (conds : list dcond) (acts : list dact) 
    (anyof : bool) (reqs : list bytes) (fuel : nat),
  conds <> [] ->
  Forall rcond_ok conds ->
  Forall ract_ok acts ->
  Forall act_plain acts ->
  4 <= fuel ->
  exists n : node,
    create_filter quote_if_necessary quote_list gen_tables loaded 
      (map ctuple conds) (map atuple acts) (mt_name anyof) reqs =
    BOk (n, freqs conds acts reqs) /\
    std_get_actions fuel n = ROk (map (fun a : dact => map fv_rv (atuple a)) acts).
Proof. exact ReadFacts.factory_read_actions. Qed.
Print Assumptions C19_actions_read_back.

(* non-vacuity: seven condition forms (five negated) and three actions meet the hypotheses *)
Theorem C19_example_hypotheses :
  Forall rcond_ok ex_rconds /\
  Forall ract_ok ex_racts /\ Forall act_ok ex_racts /\ Forall act_plain ex_racts.
Proof. exact ReadFacts.ex_r_ok. Qed.
Print Assumptions C19_example_hypotheses.

(* ... and, evaluated on the models: added, disabled, read back through getfilter *)
Theorem C19_example_pipeline :
  match
    b_addfilter gen_tables [] (bs "f") (map ctuple ex_rconds) (map atuple ex_racts)
      (bs "allof") b_empty
  with
  | BOk (RNone, st) =>
      match b_getfilter gen_tables [] (bs "f") (snd (b_step (FDisable (bs "f")) st)) with
      | Some (BOk flt) =>
          std_get_conditions 8 flt =
          ROk (map (fun d : dcond => map fv_rv (ctuple d)) ex_rconds) /\
          std_get_actions 8 flt = ROk (map (fun a0 : dact => map fv_rv (atuple a0)) ex_racts) /\
          get_matchtype 8 flt = Some (bs "allof")
      | _ => False
      end
  | _ => False
  end.
Proof. exact ReadFacts.ex_read_pipeline. Qed.
Print Assumptions C19_example_pipeline.

(* reading a rendered list back gives the values, for values free of commas, quotes and backslashes *)
Theorem C19_to_list_inverts :
  forall vs : list bytes,
  vs <> [] -> Forall (fun v : bytes => plain v = true) vs -> to_list (quote_list vs) = vs.
Proof. exact TextFacts.to_list_quote_list. Qed.
Print Assumptions C19_to_list_inverts.

(* a single quoted value is read back by stripping the quotes *)
Theorem C19_single_value :
  forall v : bytes, plain v = true -> strip_dq (quote v) = v.
Proof. exact TextFacts.strip_dq_quote_plain. Qed.
Print Assumptions C19_single_value.

Example C19_comma_refuted : to_list (quote_list [bs "a,b"]) = [bs "a"; bs "b"].
Proof. vm_compute. reflexivity. Qed.

Example C19_quote_refuted : to_list (quote_list [bs "say ""hi"""]) <> [bs "say ""hi"""].
Proof. vm_compute. discriminate. Qed.

Example C19_blanks_survive : to_list (quote_list [bs " free "; bs "winner "]) = [bs " free "; bs "winner "].
Proof. vm_compute. reflexivity. Qed.
