(* C19 — statements are added when the corresponding facts file lands *)
From SV Require Import Bytes Text.
Theorem C19_placeholder : True. Proof. exact I. Qed.
