(* C19 — what you put into a filter is what you read back.

   Proved here (factory/TextFacts.v over factory/Text.v): the text-level core of the read-back path.
   Conditions built with lists are stored as the rendered list [quote_list vs] and read back with
   tools.to_list ([to_list]: drop the brackets, split at every comma, strip the quotes).  That inverts
   the quoting exactly on values free of commas, double quotes and backslashes (C19_to_list_inverts)
   and provably not beyond (C19_comma_refuted, C19_quote_refuted: the known findings of C19).
   The per-test args_as_tuple code, the negation folding of get_filter_conditions and the reload path
   are exercised on the implementation for all supported forms (created by addfilter, by updatefilter on
   an enabled and on a disabled filter; read back on the original set, while disabled, after enabling
   again, and on the reloaded set). *)
From Coq Require Import String.
From Coq Require Import List NArith Bool Arith.
From SV Require Import Bytes Lexer Text TextFacts.
Import ListNotations.
Local Open Scope nat_scope.

(* reading a rendered list back gives the values, for values free of commas, quotes and backslashes *)
Theorem C19_to_list_inverts :
  forall vs : list bytes,
  vs <> [] -> Forall (fun v : bytes => plain v = true) vs -> to_list (quote_list vs) = vs.
Proof. exact TextFacts.to_list_quote_list. Qed.
Print Assumptions C19_to_list_inverts.

(* a single quoted value is read back by stripping the quotes *)
Theorem C19_single_value :
  forall v : bytes, plain v = true -> strip_dq (quote v) = v.
Proof. exact TextFacts.strip_dq_quote_plain. Qed.
Print Assumptions C19_single_value.

Example C19_comma_refuted : to_list (quote_list [bs "a,b"]) = [bs "a"; bs "b"].
Proof. vm_compute. reflexivity. Qed.

Example C19_quote_refuted : to_list (quote_list [bs "say ""hi"""]) <> [bs "say ""hi"""].
Proof. vm_compute. discriminate. Qed.

Example C19_blanks_survive : to_list (quote_list [bs " free "; bs "winner "]) = [bs " free "; bs "winner "].
Proof. vm_compute. reflexivity. Qed.
