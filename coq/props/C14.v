(* C14 — emulated rename never loses or overwrites a script.

   Model: ms/RenameAbs.v [rename_abs]: the decision logic of Client.renamescript (server without
   VERSION) run directly against the reference server's [exec_command] (ms/Server.v) under a
   fault plan (each of the up to five commands answered normally, NO, BYE or not at all).
   Proofs: ms/RenameFacts.v.  The byte-level client (ms/Client.v renamescript against srv_react)
   is tied to rename_abs and to managesieve.py by the exhaustive correspondence check of C14
   (initial states x fault placement x bodies); C05/C08/C09/C17 are the lemmas of that refinement. *)
From Coq Require Import List NArith Bool.
From SV Require Import Bytes Server RenameAbs RenameFacts.
Import ListNotations.

(* every script other than old and new is untouched, whatever fails *)
Theorem C14_untouched :
  forall plan s s' old new r, rename_abs plan s old new = (r, s') ->
  forall n c, n <> old -> n <> new ->
              (assoc_get n (s_store s) = Some c <-> assoc_get n (s_store s') = Some c).
Proof. exact RenameFacts.rename_untouched. Qed.
Print Assumptions C14_untouched.

(* an existing target (active or not) is never written: nothing changes and no success is reported *)
Theorem C14_existing_target :
  forall plan s s' old new r, rename_abs plan s old new = (r, s') ->
  forall c, assoc_get new (s_store s) = Some c -> s' = s /\ r <> RTrue.
Proof. exact RenameFacts.rename_existing_target. Qed.
Print Assumptions C14_existing_target.

(* nothing is lost: the content of old is still there under the old or the new name *)
Theorem C14_nothing_lost :
  forall plan s s' old new r, rename_abs plan s old new = (r, s') ->
  forall c, assoc_get old (s_store s) = Some c ->
            assoc_get old (s_store s') = Some c \/ assoc_get new (s_store s') = Some (norm c).
Proof. exact RenameFacts.rename_nothing_lost. Qed.
Print Assumptions C14_nothing_lost.

(* success: old gone, new holds the old content, active iff old was *)
Theorem C14_success :
  forall plan s s' old new r, rename_abs plan s old new = (r, s') ->
  NoDup (map fst (s_store s)) -> active_ok s -> new <> [] -> r = RTrue ->
  old <> new /\
  assoc_get old (s_store s') = None /\
  (exists c, assoc_get old (s_store s) = Some c /\ assoc_get new (s_store s') = Some (norm c)) /\
  (s_active s' = Some new <-> s_active s = Some old).
Proof. exact RenameFacts.rename_success_C14. Qed.
Print Assumptions C14_success.

(* an active script other than old stays active *)
Theorem C14_other_active :
  forall plan s s' old new r, rename_abs plan s old new = (r, s') ->
  forall a, s_active s = Some a -> a <> old -> s_active s' = Some a.
Proof. exact RenameFacts.rename_other_active. Qed.
Print Assumptions C14_other_active.

(* the result is True, False or Error by construction of aresult; server invariants are kept *)
Theorem C14_invariants :
  forall plan s s' old new r, rename_abs plan s old new = (r, s') ->
  NoDup (map fst (s_store s)) -> active_ok s ->
  NoDup (map fst (s_store s')) /\ active_ok s'.
Proof. exact RenameFacts.rename_invariants. Qed.
Print Assumptions C14_invariants.
