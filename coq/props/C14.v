(* C14 — emulated rename never loses or overwrites a script.

   Model: ms/RenameAbs.v [rename_abs]: the decision logic of Client.renamescript (server without
   VERSION) run directly against the reference server's [exec_command] (ms/Server.v) under a
   fault plan (each of the up to five commands answered normally, NO, BYE or not at all).
   Proofs: ms/RenameFacts.v (safety of [rename_abs] under every fault plan) and ms/RenameData.v (the
   byte-level client, run by the stream semantics against the reference server with any choice of reply
   encodings and no injected fault, REFINES [rename_abs]: same result, same final store and active script,
   both buffers empty -- C14_emulation_refines) and, in ms/FaultFacts.v + ms/RenameFaults.v, UNDER EVERY LIST OF
   PLANNED FAULTS of the reference server (NO / BYE / silence for any of the commands): the byte-level client
   returns what rename_abs computes for that plan and leaves exactly its store and active script
   (C14_emulation_refines_under_faults); composed with the safety theorems this gives the statement of C14 about
   the bytes (C14_bytes_safe).  The model client is tied to managesieve.py by the exhaustive correspondence check
   of C14 (initial states x fault placement x bodies). *)
From Coq Require Import String List NArith Bool Arith.
From SV Require Import Bytes Client Transport Server RenameAbs RenameFacts SessionFacts SessionData FaultFacts RenameData RenameFaults.
Import ListNotations.
Local Open Scope nat_scope.

(* every script other than old and new is untouched, whatever fails *)
Theorem C14_untouched :
  forall plan s s' old new r, rename_abs plan s old new = (r, s') ->
  forall n c, n <> old -> n <> new ->
              (assoc_get n (s_store s) = Some c <-> assoc_get n (s_store s') = Some c).
Proof. exact RenameFacts.rename_untouched. Qed.
Print Assumptions C14_untouched.

(* an existing target (active or not) is never written: nothing changes and no success is reported *)
Theorem C14_existing_target :
  forall plan s s' old new r, rename_abs plan s old new = (r, s') ->
  forall c, assoc_get new (s_store s) = Some c -> s' = s /\ r <> RTrue.
Proof. exact RenameFacts.rename_existing_target. Qed.
Print Assumptions C14_existing_target.

(* nothing is lost: the content of old is still there under the old or the new name *)
Theorem C14_nothing_lost :
  forall plan s s' old new r, rename_abs plan s old new = (r, s') ->
  forall c, assoc_get old (s_store s) = Some c ->
            assoc_get old (s_store s') = Some c \/ assoc_get new (s_store s') = Some (norm c).
Proof. exact RenameFacts.rename_nothing_lost. Qed.
Print Assumptions C14_nothing_lost.

(* success: old gone, new holds the old content, active iff old was *)
Theorem C14_success :
  forall plan s s' old new r, rename_abs plan s old new = (r, s') ->
  NoDup (map fst (s_store s)) -> active_ok s -> new <> [] -> r = RTrue ->
  old <> new /\
  assoc_get old (s_store s') = None /\
  (exists c, assoc_get old (s_store s) = Some c /\ assoc_get new (s_store s') = Some (norm c)) /\
  (s_active s' = Some new <-> s_active s = Some old).
Proof. exact RenameFacts.rename_success_C14. Qed.
Print Assumptions C14_success.

(* an active script other than old stays active *)
Theorem C14_other_active :
  forall plan s s' old new r, rename_abs plan s old new = (r, s') ->
  forall a, s_active s = Some a -> a <> old -> s_active s' = Some a.
Proof. exact RenameFacts.rename_other_active. Qed.
Print Assumptions C14_other_active.

(* the result is True, False or Error by construction of aresult; server invariants are kept *)
Theorem C14_invariants :
  forall plan s s' old new r, rename_abs plan s old new = (r, s') ->
  NoDup (map fst (s_store s)) -> active_ok s ->
  NoDup (map fst (s_store s')) /\ active_ok s'.
Proof. exact RenameFacts.rename_invariants. Qed.
Print Assumptions C14_invariants.

(* the byte-level emulation refines the abstract rename (no injected fault; any reply encodings) *)
Theorem C14_emulation_refines :
  forall F old new st (w : sworld sstate),
    c_auth st = true -> has_cap (bs "VERSION") st = false -> ok_world w -> names_ok (s_peer sstate w) ->
    length (s_store (s_peer sstate w)) < F -> 3 <= F ->
    let s := s_peer sstate w in
    exists out w',
      interp_s sstate srv_react srv_connect srv_tls (renamescript F old new st finish) w = (out, w') /\
      aresult_of out = Some (fst (rename_abs (fun _ => FNone) s old new)) /\
      ok_world w' /\ same_data (snd (rename_abs (fun _ => FNone) s old new)) (s_peer sstate w').
Proof. exact RenameData.rename_emulated_refines. Qed.
Print Assumptions C14_emulation_refines.

(* the same against any abstract state agreeing with the server on its data; the client keeps its session fields
   (authenticated, capabilities), so the emulation composes into whole sessions (C15_session_refines_spec) *)
Theorem C14_emulation_refines_in_sessions :
  forall F old new st (w : sworld sstate) s,
    c_auth st = true -> has_cap (bs "VERSION") st = false -> ok_world w -> same_data s (s_peer sstate w) ->
    names_ok s -> length (s_store s) < F -> 3 <= F ->
    exists out w',
      interp_s sstate srv_react srv_connect srv_tls (renamescript F old new st finish) w = (out, w') /\
      aresult_of out = Some (fst (rename_abs (fun _ => FNone) s old new)) /\
      ok_world w' /\ same_data (snd (rename_abs (fun _ => FNone) s old new)) (s_peer sstate w') /\
      c_auth (Session.outcome_state out) = true /\ c_caps (Session.outcome_state out) = c_caps st.
Proof. exact RenameData.rename_emulated_refines_st. Qed.
Print Assumptions C14_emulation_refines_in_sessions.

(* the reference server with a planned fault for the command it receives next: a NO reply reaches the continuation of
   __send_command as NO, BYE and silence raise Error; the server's data are untouched *)
Theorem C14_send_command_faulted :
  forall f verb args nbl ql st k (w : sworld sstate),
    verb_ok verb -> s_stream sstate w = [] -> s_in (s_peer sstate w) = [] ->
    fault_now (s_peer sstate w) <> FNone ->
    exists w' c,
      fault_frame (s_peer sstate w) (s_peer sstate w') /\
      interp_s sstate srv_react srv_connect srv_tls (send_command (S f) verb args [] nbl ql st k) w =
      match fault_now (s_peer sstate w) with
      | FNo =>
          let r := mk_reply StNO None (bs "injected failure") c in
          interp_s sstate srv_react srv_connect srv_tls
            (k (set_err (StatusFacts.code_of r) (StatusFacts.text_of r) st) (Some (bs "NO")) (StatusFacts.data_of r) []) w'
      | FBye => (OFail ExBye st, w')
      | _ => (OFail ExTimeout st, w')
      end /\
      (fault_now (s_peer sstate w) = FNo -> s_stream sstate w' = []).
Proof. exact FaultFacts.send_command_faulted. Qed.
Print Assumptions C14_send_command_faulted.

(* the byte-level emulation refines the abstract rename under every list of planned faults *)
Theorem C14_emulation_refines_under_faults :
  forall Fu old new st (w : sworld sstate) s,
    c_auth st = true -> has_cap (bs "VERSION") st = false ->
    s_stream sstate w = [] -> live (s_peer sstate w) -> same_data s (s_peer sstate w) ->
    names_ok s -> length (s_store s) < Fu -> 3 <= Fu ->
    let pl := fun n => find_fault (s_count (s_peer sstate w) + n) (s_faults (s_peer sstate w)) in
    exists out w',
      interp_s sstate srv_react srv_connect srv_tls (renamescript Fu old new st finish) w = (out, w') /\
      result_is out (fst (rename_abs pl s old new)) /\
      same_data (snd (rename_abs pl s old new)) (s_peer sstate w').
Proof. exact RenameFaults.rename_emulated_refines_faults. Qed.
Print Assumptions C14_emulation_refines_under_faults.

(* the statement of C14 about the bytes: any fault list, any store, any bodies, any reply encodings *)
Theorem C14_bytes_safe :
  forall Fu old new st (w : sworld sstate),
    c_auth st = true -> has_cap (bs "VERSION") st = false ->
    s_stream sstate w = [] -> live (s_peer sstate w) -> names_ok (s_peer sstate w) ->
    length (s_store (s_peer sstate w)) < Fu -> 3 <= Fu ->
    let before := s_peer sstate w in
    exists out w',
      interp_s sstate srv_react srv_connect srv_tls (renamescript Fu old new st finish) w = (out, w') /\
      let after := s_peer sstate w' in
      ((exists b st', out = ODone (VBool b) st') \/ (exists e st', out = OFail e st' /\ err_ok e)) /\
      (forall n c, n <> old -> n <> new ->
         (assoc_get n (s_store before) = Some c <-> assoc_get n (s_store after) = Some c)) /\
      (forall c, assoc_get new (s_store before) = Some c ->
         s_store after = s_store before /\ s_active after = s_active before /\ (forall st', out <> ODone (VBool true) st')) /\
      (forall c, assoc_get old (s_store before) = Some c ->
         assoc_get old (s_store after) = Some c \/ assoc_get new (s_store after) = Some (norm c)) /\
      (forall a, s_active before = Some a -> a <> old -> s_active after = Some a) /\
      (forall st', out = ODone (VBool true) st' -> NoDup (map fst (s_store before)) -> active_ok before -> new <> [] ->
         old <> new /\ assoc_get old (s_store after) = None /\
         (exists c, assoc_get old (s_store before) = Some c /\ assoc_get new (s_store after) = Some (norm c)) /\
         (s_active after = Some new <-> s_active before = Some old)).
Proof. exact RenameFaults.rename_bytes_safe. Qed.
Print Assumptions C14_bytes_safe.

(* non-vacuity: SETACTIVE answered NO, the connection dropped at DELETESCRIPT, GETSCRIPT never answered *)
Example C14_faults_example :
  let run fl := interp_s sstate srv_react srv_connect srv_tls
                  (renamescript 10 (bs "a") (bs "b") (mkC true None [] []) finish) (faulty_world fl) in
  (match run [(3, FNo)] with
   | (ODone (VBool false) _, w') =>
       s_store (s_peer sstate w') = [(bs "a", bs "keep;"); (bs "b", bs "keep;")] /\ s_active (s_peer sstate w') = Some (bs "a")
   | _ => False
   end) /\
  (match run [(4, FBye)] with
   | (OFail ExBye _, w') =>
       s_store (s_peer sstate w') = [(bs "a", bs "keep;"); (bs "b", bs "keep;")] /\ s_active (s_peer sstate w') = Some (bs "b")
   | _ => False
   end) /\
  (match run [(1, FSilent)] with
   | (OFail ExTimeout _, w') => s_store (s_peer sstate w') = [(bs "a", bs "keep;")]
   | _ => False
   end) /\
  live (faulty_server [(3, FNo)]) /\ names_ok (faulty_server [(3, FNo)]).
Proof. exact RenameFaults.rename_faults_example. Qed.
