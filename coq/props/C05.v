(* C05 — ManageSieve replies are read identically however the bytes are segmented.

   Model: ms/Client.v (every public operation as an interaction tree over read-line /
   read-block / send), ms/Transport.v (concrete semantics [interp]: read buffer + pending
   recv chunks, recv limited to the requested size; stream semantics [interp_s]).
   This file holds statements only; proofs are in ms/TransportFacts.v. *)
From Coq Require Import String.
From Coq Require Import List NArith Bool Lia.
From SV Require Import Bytes Client Transport TransportFacts Session.
Import ListNotations.
Open Scope N_scope.

(* Full statement: for every client program (hence every operation, with any arguments, from
   any client state), every reactive peer, and every two ways of cutting the peer's bytes into
   non-empty recv() chunks, the outcome (result or exception, client fields) is the same, and
   unless the call ended in a read timeout the bytes left for the next call are the same. *)
Theorem C05_segmentation :
  forall (S : Type) (react : S -> bytes -> S * bytes) (on_connect on_tls : S -> option (S * bytes))
         (seg1 seg2 : nat -> bytes -> list bytes) (p : prog) (w1 w2 : world S),
    valid_seg seg1 -> valid_seg seg2 ->
    Forall nonempty (w_chunks S w1) -> Forall nonempty (w_chunks S w2) ->
    abs S w1 = abs S w2 ->
    fst (interp S react on_connect on_tls seg1 p w1) = fst (interp S react on_connect on_tls seg2 p w2)
    /\ (is_timeout (fst (interp S react on_connect on_tls seg1 p w1)) = false ->
        abs S (snd (interp S react on_connect on_tls seg1 p w1))
        = abs S (snd (interp S react on_connect on_tls seg2 p w2))).
Proof. exact TransportFacts.segmentation_independent. Qed.
Print Assumptions C05_segmentation.

(* Whole sessions: as long as no call ends in a read timeout, every result of an arbitrary
   sequence of public operations is independent of the segmentation — "the client's ability
   to run the next operation correctly". *)
Theorem C05_sessions :
  forall (S : Type) (react : S -> bytes -> S * bytes) (on_connect on_tls : S -> option (S * bytes))
         (seg1 seg2 : nat -> bytes -> list bytes) (fuel : nat) (ops : list op) (st : cstate)
         (w1 w2 : world S),
    valid_seg seg1 -> valid_seg seg2 ->
    Forall nonempty (w_chunks S w1) -> Forall nonempty (w_chunks S w2) ->
    abs S w1 = abs S w2 ->
    forallb (fun o => negb (is_timeout o))
            (fst (fst (run_ops S react on_connect on_tls seg1 fuel ops st w1))) = true ->
    fst (fst (run_ops S react on_connect on_tls seg1 fuel ops st w1))
    = fst (fst (run_ops S react on_connect on_tls seg2 fuel ops st w2)).
Proof. exact TransportFacts.sessions_independent. Qed.
Print Assumptions C05_sessions.

(* A literal is consumed as exactly n octets, in however many segments it arrives. *)
Theorem C05_literal_exact :
  forall (S : Type) (react : S -> bytes -> S * bytes) (on_connect on_tls : S -> option (S * bytes))
         (seg : nat -> bytes -> list bytes) (st : cstate) (n : N) (k : bytes -> prog) (w : world S),
    valid_seg seg -> Forall nonempty (w_chunks S w) ->
    n <= blen (w_buf S w ++ concat (w_chunks S w)) ->
    fst (interp S react on_connect on_tls seg (RdBlock st n k) w)
    = fst (interp_s S react on_connect on_tls
                    (k (firstn (N.to_nat n) (w_buf S w ++ concat (w_chunks S w))))
                    (s_set S (skipn (N.to_nat n) (w_buf S w ++ concat (w_chunks S w))) (abs S w))).
Proof. exact TransportFacts.literal_exact. Qed.
Print Assumptions C05_literal_exact.

(* Non-vacuity: a GETSCRIPT reply whose literal body contains protocol look-alikes, delivered
   in seven chunks that cut the literal header, the body and the CRLFs, gives the script. *)
Example C05_example_getscript :
  let reply := bs "{12}" ++ CRLF ++ bs "OK" ++ CRLF ++ bs "{5}" ++ CRLF ++ bs "x" ++ CRLF ++ CRLF
               ++ bs "OK ""done""" ++ CRLF in
  let chunks := [firstn 2 reply; firstn 3 (skipn 2 reply); firstn 4 (skipn 5 reply);
                 firstn 1 (skipn 9 reply); firstn 6 (skipn 10 reply); firstn 3 (skipn 16 reply);
                 skipn 19 reply] in
  concat chunks = reply /\
  fst (interp unit (fun u _ => (u, [])) (fun _ => None) (fun _ => None) (fun _ _ => [])
              (getscript 100 (bs "s") (set_auth true c_init) finish)
              (mkW unit tt [] chunks 0 1 false []))
  = ODone (VBytes (bs "OK" ++ [10] ++ bs "{5}" ++ [10] ++ bs "x")) (set_auth true c_init).
Proof. vm_compute. split; reflexivity. Qed.
