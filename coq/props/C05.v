(* C05 — placeholder until TransportFacts is written *)
From SV Require Import Bytes Client Transport.
Theorem C05_placeholder : True. Proof. exact I. Qed.
Print Assumptions C05_placeholder.
