(* C15 — the client's view of the server stays correct over whole sessions.

   Composition (IronFleet style) of the wire theorems against the reference server of ms/Server.v,
   proved in ms/SessionFacts.v for the operations whose reply is a single status line (HAVESPACE,
   PUTSCRIPT, CHECKSCRIPT, DELETESCRIPT, SETACTIVE, native RENAMESCRIPT):
     writer      C08  the strict parser reads back exactly the command the client wrote;
     server           parses it, executes it on its abstract state, renders a status reply with
                      whatever encoding choice comes next (text absent / quoted / literal, response code);
     reader      C09  the client's result mirrors that reply and exactly the reply is consumed.
   Hence (C15_step) the result of the call is the abstract answer of the server state at that moment,
   the server received exactly one well-formed command in a legal state and moved to the abstract
   successor state, and nothing is left in either buffer; by induction (C15_session) this holds for every
   session of such operations the reference server accepts, of any length, for every sequence of encoding
   choices.  Segmentation independence of every operation is C05 (interp agrees with the stream
   semantics used here).  LISTSCRIPTS / GETSCRIPT / the emulated rename are composed in the
   correspondence check (model client vs real client vs server state after every step of generated
   sessions), not in Coq: the assembling step of read_response with quoted literals is not proved. *)
From Coq Require Import String.
From Coq Require Import List NArith Bool Arith.
From SV Require Import Bytes Base64 Client Transport Server Session WriterFacts StatusFacts SessionFacts.
Import ListNotations.
Local Open Scope nat_scope.

(* the reference server, in step and authenticated, receiving the bytes of one single-status command: it parses exactly that command, answers with one status reply rendered from its abstract answer, and is in step again *)
Theorem C15_server_receives_one_command :
  forall (verb : bytes) (args : list arg) (s : sstate) (a : answer) (s2 : sstate),
  In verb simple_verbs ->
  conforming s ->
  srv_step verb (map decode_arg args) s = Some (a, s2) ->
  exists (c : N) (s3 : sstate),
    pick s2 = (c, s3) /\
    srv_react s (command_bytes verb args) =
    (s3,
     render_reply
       match a with
       | AnsOK code => mk_reply StOK code (bs "done") c
       | AnsNO code => mk_reply StNO code (bs "refused") c
       | _ => mk_reply StOK None [] c
       end) /\
    conforming s3 /\
    s_store s3 = s_store s2 /\ s_active s3 = s_active s2 /\ s_cfg s3 = s_cfg s.
Proof. exact SessionFacts.srv_react_simple. Qed.
Print Assumptions C15_server_receives_one_command.

(* one operation end to end: result = abstract answer, server state = abstract successor, both buffers empty *)
Theorem C15_step :
  forall (f : nat) (verb : bytes) (args : list arg) (st : cstate) 
    (w : sworld sstate) (a : answer) (s2 : sstate),
  In verb simple_verbs ->
  s_stream sstate w = [] ->
  conforming (s_peer sstate w) ->
  srv_step verb (map decode_arg args) (s_peer sstate w) = Some (a, s2) ->
  exists (c : N) (s3 : sstate),
    pick s2 = (c, s3) /\
    conforming s3 /\
    s_store s3 = s_store s2 /\
    s_active s3 = s_active s2 /\
    s_cfg s3 = s_cfg (s_peer sstate w) /\
    interp_s sstate srv_react srv_connect srv_tls (simple_cmd (S f) verb args st finish) w =
    (answer_outcome a c st,
     {|
       s_peer := s3;
       s_stream := [];
       s_n := S (s_n sstate w);
       s_conn := s_conn sstate w;
       Transport.s_tls := Transport.s_tls sstate w;
       s_log :=
         WSend (s_conn sstate w) (Transport.s_tls sstate w) (command_bytes verb args)
         :: s_log sstate w
     |}).
Proof. exact SessionFacts.simple_cmd_against_server. Qed.
Print Assumptions C15_step.

(* whole sessions, no length bound: results, final client fields and final server state are those of the abstract session *)
Theorem C15_session :
  forall (ops : list op) (f : nat) (st : cstate) (w : sworld sstate) 
    (outs : list outcome) (st' : cstate) (s' : sstate),
  c_auth st = true ->
  (forall o : op, In o ops -> needs_version o = true -> has_cap (bs "VERSION") st = true) ->
  s_stream sstate w = [] ->
  conforming (s_peer sstate w) ->
  abs_session ops (s_peer sstate w) st = Some (outs, st', s') ->
  exists w' : sworld sstate,
    run_ops_s sstate srv_react srv_connect srv_tls (S f) ops st w = (outs, st', w') /\
    s_peer sstate w' = s' /\ s_stream sstate w' = [] /\ conforming s'.
Proof. exact SessionFacts.session_in_step. Qed.
Print Assumptions C15_session.

(* what the abstract session is: the server's own exec_command, command by command *)
Example C15_session_example :
  match abs_session [OPutscript (bs "b") (bs "stop;"); ODeletescript (bs "a"); OSetactive (bs "b");
                     ODeletescript (bs "a"); OPutscript (bs "c") (bs "x"); ORenamescript (bs "b") (bs "a")]
                    demo_server (mkC true None [] [(bs "VERSION", Some (bs "1.0"))]) with
  | Some (outs, _, s') =>
      map (fun o => match o with ODone (VBool b) _ => Some b | _ => None end) outs
      = [Some true; Some false; Some true; Some true; Some true; Some true]
      /\ s_store s' = [(bs "a", bs "stop;"); (bs "c", bs "x")] /\ s_active s' = Some (bs "a")
  | None => False
  end.
Proof. vm_compute. repeat split. Qed.
