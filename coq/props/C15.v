(* C15 — the client's view of the server stays correct over whole sessions.

   Composition (IronFleet style) of the wire theorems against the reference server of ms/Server.v,
   proved in ms/SessionFacts.v for the operations whose reply is a single status line (HAVESPACE,
   PUTSCRIPT, CHECKSCRIPT, DELETESCRIPT, SETACTIVE, native RENAMESCRIPT):
     writer      C08  the strict parser reads back exactly the command the client wrote;
     server           parses it, executes it on its abstract state, renders a status reply with
                      whatever encoding choice comes next (text absent / quoted / literal, response code);
     reader      C09  the client's result mirrors that reply and exactly the reply is consumed.
   Hence (C15_step) the result of the call is the abstract answer of the server state at that moment,
   the server received exactly one well-formed command in a legal state and moved to the abstract
   successor state, and nothing is left in either buffer; by induction (C15_session) this holds for every
   session of such operations the reference server accepts, of any length, for every sequence of encoding
   choices.  Segmentation independence of every operation is C05 (interp agrees with the stream
   semantics used here).
   The data-bearing operations (ms/DataFacts.v, ms/SessionData.v): whatever encoding the server chooses for
   each name of a listing and for a script (quoted string or literal; with or without the extra CRLF after a
   literal), __read_response assembles exactly the canonical text (C15_assemble_listing, C15_assemble_script),
   so LISTSCRIPTS returns exactly the names of the store with the active one apart and GETSCRIPT exactly the
   lines of the stored script, the server state unchanged and both buffers empty (C15_listscripts,
   C15_getscript); and whole sessions mixing all eight operations stay in step (C15_session_with_data).
   Names in listings are assumed free of CR / LF.
   ms/SessionRename.v states the same against a FUNCTIONAL specification over the server's data only (store, active
   script, configuration): spec_op ver o s = the value the call returns and the data the server is left with, where
   a client whose server did not announce VERSION renames by emulation (LISTSCRIPTS, GETSCRIPT, PUTSCRIPT,
   SETACTIVE, DELETESCRIPT: up to five commands in one call; abstractly RenameAbs.rename_abs, whose safety is C14).
   C15_session_refines_spec: every session on which the specification is defined, of any length, returns exactly
   the specified values and leaves the server with the specified data and both buffers empty, for any fuel above
   the size of the store plus the length of the session.  GETSCRIPT of a script that does not exist (NO
   NONEXISTENT, the call returns None and mirrors the code) and LOGOUT are part of the specification
   (C15_getscript_missing, C15_logout), and so is CAPABILITY (ms/CapFacts.v: __read_response collects the
   capability lines one by one, the call returns exactly the text the server wrote -- C15_capability; ms/TlsInv.v:
   no operation but connect changes the server's TLS flag -- C15_tls_flag_invariant -- so the capability text is a
   function of the abstract state carried through the session).  The SASL lists of the configuration are assumed
   free of CR / LF.  Only the connection phase is left to the correspondence check (and C16 / C10). *)
From Coq Require Import String.
From Coq Require Import List NArith Bool Arith.
From SV Require Import Bytes Base64 Client Transport Server Session WriterFacts StatusFacts DecodeFacts DataFacts SessionFacts SessionData.
Import ListNotations.
Local Open Scope nat_scope.
From SV Require Import TlsInv CapFacts RenameAbs RenameData Spec SessionRename.

(* the reference server, in step and authenticated, receiving the bytes of one single-status command: it parses exactly that command, answers with one status reply rendered from its abstract answer, and is in step again *)
Theorem C15_server_receives_one_command :
  forall (verb : bytes) (args : list arg) (s : sstate) (a : answer) (s2 : sstate),
  In verb simple_verbs ->
  conforming s ->
  srv_step verb (map decode_arg args) s = Some (a, s2) ->
  exists (c : N) (s3 : sstate),
    pick s2 = (c, s3) /\
    srv_react s (command_bytes verb args) =
    (s3,
     render_reply
       match a with
       | AnsOK code => mk_reply StOK code (bs "done") c
       | AnsNO code => mk_reply StNO code (bs "refused") c
       | _ => mk_reply StOK None [] c
       end) /\
    conforming s3 /\
    s_store s3 = s_store s2 /\ s_active s3 = s_active s2 /\ s_cfg s3 = s_cfg s.
Proof. exact SessionFacts.srv_react_simple. Qed.
Print Assumptions C15_server_receives_one_command.

(* one operation end to end: result = abstract answer, server state = abstract successor, both buffers empty *)
Theorem C15_step :
  forall (f : nat) (verb : bytes) (args : list arg) (st : cstate) 
    (w : sworld sstate) (a : answer) (s2 : sstate),
  In verb simple_verbs ->
  s_stream sstate w = [] ->
  conforming (s_peer sstate w) ->
  srv_step verb (map decode_arg args) (s_peer sstate w) = Some (a, s2) ->
  exists (c : N) (s3 : sstate),
    pick s2 = (c, s3) /\
    conforming s3 /\
    s_store s3 = s_store s2 /\
    s_active s3 = s_active s2 /\
    s_cfg s3 = s_cfg (s_peer sstate w) /\
    runS (simple_cmd (S f) verb args st finish) w =
    (answer_outcome a c st,
     {|
       s_peer := s3;
       s_stream := [];
       s_n := S (s_n sstate w);
       s_conn := s_conn sstate w;
       Transport.s_tls := Transport.s_tls sstate w;
       s_log :=
         WSend (s_conn sstate w) (Transport.s_tls sstate w) (command_bytes verb args)
         :: s_log sstate w
     |}).
Proof. exact SessionFacts.simple_cmd_against_server. Qed.
Print Assumptions C15_step.

(* whole sessions, no length bound: results, final client fields and final server state are those of the abstract session *)
Theorem C15_session :
  forall (ops : list op) (f : nat) (st : cstate) (w : sworld sstate) 
    (outs : list outcome) (st' : cstate) (s' : sstate),
  c_auth st = true ->
  (forall o : op, In o ops -> needs_version o = true -> has_cap (bs "VERSION") st = true) ->
  s_stream sstate w = [] ->
  conforming (s_peer sstate w) ->
  abs_session ops (s_peer sstate w) st = Some (outs, st', s') ->
  exists w' : sworld sstate,
    run_ops_s sstate srv_react srv_connect srv_tls (S f) ops st w = (outs, st', w') /\
    s_peer sstate w' = s' /\ s_stream sstate w' = [] /\ conforming s'.
Proof. exact SessionFacts.session_in_step. Qed.
Print Assumptions C15_session.

(* __read_response on a listing in any mix of encodings, followed by the status reply: the canonical listing, the reply consumed exactly *)
Theorem C15_assemble_listing :
  forall (P : Type) (react : P -> bytes -> P * bytes) (oc ot : P -> option (P * bytes))
    (es : list (bytes * bool * enc)) (r : reply) (f : nat) (resp : bytes) 
    (cpt : nat) (st : cstate) (k : cstate -> option bytes -> option bytes -> bytes -> prog)
    (w : sworld P) (rest : list N),
  Forall (fun x : bytes * bool * enc => name_ok (fst (fst x))) es ->
  reply_ok r ->
  s_stream P w = listing_stream es ++ render_reply r ++ rest ->
  interp_s P react oc ot (read_response (S (Datatypes.length es + f)) None true resp cpt st k)
    w =
  match r_status r with
  | StOK =>
      interp_s P react oc ot
        (k st (Some (bs "OK")) (data_of r) (resp ++ listing_resp (map fst es)))
        (s_set P rest w)
  | StNO =>
      interp_s P react oc ot
        (k (set_err (code_of r) (text_of r) st) (Some (bs "NO")) (data_of r)
           (resp ++ listing_resp (map fst es))) (s_set P rest w)
  | StBYE => (OFail ExBye st, s_set P (after_line r ++ rest) w)
  end.
Proof. exact DataFacts.read_response_listing. Qed.
Print Assumptions C15_assemble_listing.

(* __read_response on a script sent quoted or as a literal, with or without the extra CRLF *)
Theorem C15_assemble_script :
  forall (P : Type) (react : P -> bytes -> P * bytes) (oc ot : P -> option (P * bytes))
    (c : bytes) (enc : enc) (eol : bytes) (r : reply) (f : nat) (st : cstate)
    (k : cstate -> option bytes -> option bytes -> bytes -> prog) 
    (w : sworld P) (rest : list N),
  reply_ok r ->
  eol = CRLF \/ eol = [] /\ sent_quoted enc c = false /\ ends_with CRLF c = true ->
  s_stream P w = render_string enc c ++ eol ++ render_reply r ++ rest ->
  exists tail : list N,
    interp_s P react oc ot (read_response (S (S (S f))) None true [] 0 st k) w =
    match r_status r with
    | StOK =>
        interp_s P react oc ot (k st (Some (bs "OK")) (data_of r) (quote c ++ tail))
          (s_set P rest w)
    | StNO =>
        interp_s P react oc ot
          (k (set_err (code_of r) (text_of r) st) (Some (bs "NO")) 
             (data_of r) (quote c ++ tail)) (s_set P rest w)
    | StBYE => (OFail ExBye st, s_set P (after_line r ++ rest) w)
    end.
Proof. exact DataFacts.read_response_script. Qed.
Print Assumptions C15_assemble_script.

(* LISTSCRIPTS end to end against the reference server *)
Theorem C15_listscripts :
  forall (f : nat) (st : cstate) (w : sworld sstate),
  c_auth st = true ->
  s_stream sstate w = [] ->
  conforming (s_peer sstate w) ->
  names_ok (s_peer sstate w) ->
  let s := s_peer sstate w in
  let es := listing_entries (s_store s) (s_active s) in
  exists s3 : sstate,
    runS (listscripts (S (Datatypes.length (s_store s) + f)) st finish) w =
    (ODone
       (VListing (last_active es) (map fst (filter (fun e : bytes * bool => negb (snd e)) es)))
       st,
     {|
       s_peer := s3;
       s_stream := [];
       s_n := S (s_n sstate w);
       s_conn := s_conn sstate w;
       Transport.s_tls := Transport.s_tls sstate w;
       s_log :=
         WSend (s_conn sstate w) (Transport.s_tls sstate w)
           (command_bytes (bs "LISTSCRIPTS") []) :: s_log sstate w
     |}) /\
    conforming s3 /\
    s_store s3 = s_store s /\
    s_active s3 = s_active s /\
    s_cfg s3 = s_cfg s /\ s3 = snd (render_answer AnsListing (booked (bs "LISTSCRIPTS") [] s)).
Proof. exact SessionData.listscripts_against_server. Qed.
Print Assumptions C15_listscripts.

(* GETSCRIPT of an existing script end to end *)
Theorem C15_getscript :
  forall (f : nat) (name content : bytes) (st : cstate) (w : sworld sstate),
  c_auth st = true ->
  s_stream sstate w = [] ->
  conforming (s_peer sstate w) ->
  assoc_get name (s_store (s_peer sstate w)) = Some content ->
  let s := s_peer sstate w in
  exists s3 : sstate,
    runS (getscript (S (S (S f))) name st finish) w =
    (ODone (VBytes (join [10%N] (splitlines content))) st,
     {|
       s_peer := s3;
       s_stream := [];
       s_n := S (s_n sstate w);
       s_conn := s_conn sstate w;
       Transport.s_tls := Transport.s_tls sstate w;
       s_log :=
         WSend (s_conn sstate w) (Transport.s_tls sstate w)
           (command_bytes (bs "GETSCRIPT") [AStr name]) :: s_log sstate w
     |}) /\
    conforming s3 /\
    s_store s3 = s_store s /\
    s_active s3 = s_active s /\
    s_cfg s3 = s_cfg s /\
    s3 = snd (render_answer (AnsScript content) (booked (bs "GETSCRIPT") [PStr name] s)).
Proof. exact SessionData.getscript_against_server. Qed.
Print Assumptions C15_getscript.

(* GETSCRIPT of a script that does not exist: None, errcode NONEXISTENT, the server's data untouched *)
Theorem C15_getscript_missing :
  forall (f : nat) (name : bytes) (st : cstate) (w : sworld sstate) (k : kont),
  c_auth st = true ->
  s_stream sstate w = [] ->
  live (s_peer sstate w) ->
  fault_now (s_peer sstate w) = FNone ->
  assoc_get name (s_store (s_peer sstate w)) = None ->
  let s := s_peer sstate w in
  exists (c : N) (s3 : sstate),
    runS (getscript (S f) name st k) w =
    runS
      (k (set_err (bs "NONEXISTENT") (if ((c / 2) mod 4 =? 0)%N then [] else bs "refused") st)
         VNone)
      {|
        s_peer := s3;
        s_stream := [];
        s_n := S (s_n sstate w);
        s_conn := s_conn sstate w;
        Transport.s_tls := Transport.s_tls sstate w;
        s_log :=
          WSend (s_conn sstate w) (Transport.s_tls sstate w)
            (command_bytes (bs "GETSCRIPT") [AStr name]) :: s_log sstate w
      |} /\
    live s3 /\
    s_faults s3 = s_faults s /\
    s_count s3 = S (s_count s) /\
    s_store s3 = s_store s /\ s_active s3 = s_active s /\ s_cfg s3 = s_cfg s.
Proof. exact SessionData.getscript_missing_k_gen. Qed.
Print Assumptions C15_getscript_missing.

(* LOGOUT: answered OK, the call returns None *)
Theorem C15_logout :
  forall (f : nat) (st : cstate) (w : sworld sstate) (k : kont),
  s_stream sstate w = [] ->
  live (s_peer sstate w) ->
  fault_now (s_peer sstate w) = FNone ->
  let s := s_peer sstate w in
  exists s3 : sstate,
    runS (logout (S f) st k) w =
    runS (k st VNone)
      {|
        s_peer := s3;
        s_stream := [];
        s_n := S (s_n sstate w);
        s_conn := s_conn sstate w;
        Transport.s_tls := Transport.s_tls sstate w;
        s_log :=
          WSend (s_conn sstate w) (Transport.s_tls sstate w) (command_bytes (bs "LOGOUT") [])
          :: s_log sstate w
      |} /\
    live s3 /\
    s_faults s3 = s_faults s /\
    s_count s3 = S (s_count s) /\
    s_store s3 = s_store s /\ s_active s3 = s_active s /\ s_cfg s3 = s_cfg s.
Proof. exact SessionData.logout_k_gen. Qed.
Print Assumptions C15_logout.

(* __read_response over plain data lines followed by a status reply: the lines are collected in order, the reply consumed exactly *)
Theorem C15_read_response_lines :
  forall (P : Type) (react : P -> bytes -> P * bytes) (oc ot : P -> option (P * bytes))
    (ls : list bytes) (r : reply) (f : nat) (ql : bool) (resp : bytes) 
    (cpt : nat) (st : cstate) (k : cstate -> option bytes -> option bytes -> bytes -> prog)
    (w : sworld P) (rest : list N),
  Forall plain_line ls ->
  reply_ok r ->
  s_stream P w = lines_bytes ls ++ render_reply r ++ rest ->
  interp_s P react oc ot (read_response (S (Datatypes.length ls + f)) None ql resp cpt st k) w =
  match r_status r with
  | StOK =>
      interp_s P react oc ot (k st (Some (bs "OK")) (data_of r) (resp ++ lines_bytes ls))
        (s_set P rest w)
  | StNO =>
      interp_s P react oc ot
        (k (set_err (code_of r) (text_of r) st) (Some (bs "NO")) (data_of r)
           (resp ++ lines_bytes ls)) (s_set P rest w)
  | StBYE => (OFail ExBye st, s_set P (after_line r ++ rest) w)
  end.
Proof. exact CapFacts.read_response_lines. Qed.
Print Assumptions C15_read_response_lines.

(* CAPABILITY end to end: the call returns exactly the capability text the server wrote; server data untouched, buffers empty *)
Theorem C15_capability :
  forall (f : nat) (st : cstate) (w : sworld sstate) (k : kont),
  s_stream sstate w = [] ->
  live (s_peer sstate w) ->
  fault_now (s_peer sstate w) = FNone ->
  sasl_safe (s_peer sstate w) ->
  let s := s_peer sstate w in
  exists s3 : sstate,
    runS (capability (S (5 + f)) st k) w =
    runS (k st (VBytes (capabilities_bytes s)))
      {|
        s_peer := s3;
        s_stream := [];
        s_n := S (s_n sstate w);
        s_conn := s_conn sstate w;
        Transport.s_tls := Transport.s_tls sstate w;
        s_log :=
          WSend (s_conn sstate w) (Transport.s_tls sstate w)
            (command_bytes (bs "CAPABILITY") []) :: s_log sstate w
      |} /\
    live s3 /\
    s_faults s3 = s_faults s /\
    s_count s3 = S (s_count s) /\
    s_store s3 = s_store s /\ s_active s3 = s_active s /\ s_cfg s3 = s_cfg s.
Proof. exact CapFacts.capability_k_gen. Qed.
Print Assumptions C15_capability.

(* no operation but connect changes the TLS flag of the server (no command does; no such program wraps the socket) *)
Theorem C15_tls_flag_invariant :
  forall (F : nat) (o : op) (st : cstate) (w : sworld sstate),
  match o with
  | OConnect _ _ _ _ _ => True
  | _ => s_tls (s_peer sstate (snd (runS (run_op F o st) w))) = s_tls (s_peer sstate w)
  end.
Proof. exact TlsInv.run_op_tls. Qed.
Print Assumptions C15_tls_flag_invariant.

(* one operation against the specification, with everything a session carries along (TLS flag, SASL lists, names, data) *)
Theorem C15_spec_op_invariants :
  forall (F : nat) (ver : bool) (o : op) (st : cstate) (w : sworld sstate) 
    (s : sstate) (v : value) (s' : sstate),
  c_auth st = true ->
  has_cap (bs "VERSION") st = ver ->
  ok_world w ->
  same_data s (s_peer sstate w) ->
  s_tls s = s_tls (s_peer sstate w) ->
  sasl_safe s ->
  names_ok s ->
  op_ok o ->
  Datatypes.length (s_store s) < F ->
  6 <= F ->
  spec_op ver o s = Some (v, s') ->
  exists (st1 : cstate) (w1 : sworld sstate),
    runS (run_op F o st) w = (ODone v st1, w1) /\
    c_auth st1 = true /\
    c_caps st1 = c_caps st /\
    ok_world w1 /\
    same_data s' (s_peer sstate w1) /\
    names_ok s' /\
    Datatypes.length (s_store s') <= S (Datatypes.length (s_store s)) /\
    s_tls s' = s_tls (s_peer sstate w1) /\ sasl_safe s'.
Proof. exact SessionRename.spec_op_runs_inv. Qed.
Print Assumptions C15_spec_op_invariants.

(* non-vacuity: CAPABILITY and LOGOUT in a session, the capability text spelled out *)
Theorem C15_session_capability_example :
  spec_run false [OCapability; OLogout] demo_server =
  Some ([VBytes (capabilities_bytes demo_server); VNone], demo_server) /\
  sasl_safe demo_server /\
  capabilities_bytes demo_server =
  bs
    ("""IMPLEMENTATION"" ""reference model""" ++
     String (Ascii.ascii_of_nat 13) (String (Ascii.ascii_of_nat 10) "") ++
     """SASL"" ""PLAIN""" ++
     String (Ascii.ascii_of_nat 13) (String (Ascii.ascii_of_nat 10) "") ++
     """SIEVE"" ""fileinto vacation""" ++
     String (Ascii.ascii_of_nat 13) (String (Ascii.ascii_of_nat 10) "") ++
     """VERSION"" ""1.0""" ++
     String (Ascii.ascii_of_nat 13) (String (Ascii.ascii_of_nat 10) "")).
Proof. exact SessionRename.session_capability_example. Qed.
Print Assumptions C15_session_capability_example.

(* sessions of all eight operations, any length, any encoding choices *)
Theorem C15_session_with_data :
  forall (F : nat) (ops : list op) (st : cstate) (w : sworld sstate) 
    (outs : list outcome) (st' : cstate) (s' : sstate),
  c_auth st = true ->
  s_stream sstate w = [] ->
  conforming (s_peer sstate w) ->
  abs_run F ops (s_peer sstate w) st outs st' s' ->
  exists w' : sworld sstate,
    run_ops_s sstate srv_react srv_connect srv_tls F ops st w = (outs, st', w') /\
    s_peer sstate w' = s' /\ s_stream sstate w' = [] /\ conforming s'.
Proof. exact SessionData.session_with_data. Qed.
Print Assumptions C15_session_with_data.

(* non-vacuity: a concrete session with two listings and a fetch *)
Theorem C15_session_with_data_example :
  exists (outs : list outcome) (st' : cstate) (s' : sstate),
    abs_run 10
      [OPutscript (bs "b") (bs "stop;"); OListscripts; OGetscript (bs "b");
       OSetactive (bs "b"); OListscripts] demo_server ex_st0 outs st' s' /\
    map (fun o : outcome => match o with
                            | ODone v _ => Some v
                            | OFail _ _ => None
                            end) outs =
    [Some (VBool true); Some (VListing (Some (bs "a")) [bs "b"]); 
     Some (VBytes (bs "stop;")); Some (VBool true); Some (VListing (Some (bs "b")) [bs "a"])].
Proof. exact SessionData.session_data_example. Qed.
Print Assumptions C15_session_with_data_example.

(* one operation (emulated rename included) against the functional specification; the invariants of the session are kept *)
Theorem C15_spec_op_runs :
  forall (F : nat) (ver : bool) (o : op) (st : cstate) (w : sworld sstate) 
    (s : sstate) (v : value) (s' : sstate),
  c_auth st = true ->
  has_cap (bs "VERSION") st = ver ->
  ok_world w ->
  same_data s (s_peer sstate w) ->
  s_tls s = s_tls (s_peer sstate w) ->
  sasl_safe s ->
  names_ok s ->
  op_ok o ->
  Datatypes.length (s_store s) < F ->
  6 <= F ->
  spec_op ver o s = Some (v, s') ->
  exists (st1 : cstate) (w1 : sworld sstate),
    runS (run_op F o st) w = (ODone v st1, w1) /\
    c_auth st1 = true /\
    c_caps st1 = c_caps st /\
    ok_world w1 /\
    same_data s' (s_peer sstate w1) /\
    names_ok s' /\ Datatypes.length (s_store s') <= S (Datatypes.length (s_store s)).
Proof. exact SessionRename.spec_op_runs. Qed.
Print Assumptions C15_spec_op_runs.

(* whole sessions against the functional specification, emulated rename included *)
Theorem C15_session_refines_spec :
  forall (ver : bool) (ops : list op) (F : nat) (st : cstate) (w : sworld sstate) 
    (s : sstate) (vals : list value) (s' : sstate),
  c_auth st = true ->
  has_cap (bs "VERSION") st = ver ->
  ok_world w ->
  same_data s (s_peer sstate w) ->
  s_tls s = s_tls (s_peer sstate w) ->
  sasl_safe s ->
  names_ok s ->
  Forall op_ok ops ->
  Datatypes.length (s_store s) + Datatypes.length ops < F ->
  6 <= F ->
  spec_run ver ops s = Some (vals, s') ->
  exists (outs : list outcome) (st' : cstate) (w' : sworld sstate),
    run_ops_s sstate srv_react srv_connect srv_tls F ops st w = (outs, st', w') /\
    map outcome_value outs = map Some vals /\
    ok_world w' /\
    same_data s' (s_peer sstate w') /\
    names_ok s' /\ c_auth st' = true /\ c_caps st' = c_caps st.
Proof. exact SessionRename.session_refines_spec. Qed.
Print Assumptions C15_session_refines_spec.

(* non-vacuity: a session with two emulated renames (one refused by the script quota, one of the active script) *)
Theorem C15_session_rename_example :
  exists s' : sstate,
    spec_run false
      [OPutscript (bs "b") (bs "stop;"); OSetactive (bs "b"); ORenamescript (bs "b") (bs "c");
       ODeletescript (bs "a"); ORenamescript (bs "b") (bs "c"); OListscripts;
       OGetscript (bs "c"); ORenamescript (bs "zz") (bs "d")] demo_server =
    Some
      ([VBool true; VBool true; VBool false; VBool true; VBool true;
        VListing (Some (bs "c")) []; VBytes (bs "stop;"); VBool false], s') /\
    s_store s' = [(bs "c", bs "stop;")] /\ s_active s' = Some (bs "c").
Proof. exact SessionRename.session_rename_example. Qed.
Print Assumptions C15_session_rename_example.

(* what the abstract session is: the server's own exec_command, command by command *)
Example C15_session_example :
  match abs_session [OPutscript (bs "b") (bs "stop;"); ODeletescript (bs "a"); OSetactive (bs "b");
                     ODeletescript (bs "a"); OPutscript (bs "c") (bs "x"); ORenamescript (bs "b") (bs "a")]
                    demo_server (mkC true None [] [(bs "VERSION", Some (bs "1.0"))]) with
  | Some (outs, _, s') =>
      map (fun o => match o with ODone (VBool b) _ => Some b | _ => None end) outs
      = [Some true; Some false; Some true; Some true; Some true; Some true]
      /\ s_store s' = [(bs "a", bs "stop;"); (bs "c", bs "x")] /\ s_active s' = Some (bs "a")
  | None => False
  end.
Proof. vm_compute. repeat split. Qed.
