(* C18 — parse errors point at the offending place.

   Model: sieve/Lexer.v ([lineno]/[colno] = Lexer.curlineno/curcolno, [next_token]),
   sieve/Machine.v ([parse] returns Reject e pos tlen with pos = lexer.pos and tlen = len(tvalue)
   at the time the error is raised; [error_pos]).  Proofs: sieve/PositionFacts.v.
     (a) (line, column) against an independent specification: the text split at LF;
     (b) a rejection is raised at a token of the text (its start offset and length), at the
         offset where no lexer rule matches, or at the end of the text — so a token-level error
         reports the line/column of the first byte of the offending token and its length;
     (c) the machine is a left fold over the token list that stops at the first failure, so the
         report depends only on the tokens up to the failing one (prefix determinism) and can
         never lie before a token the machine has not reached.
   Which token is "the offending one" for each error category: sieve/RejectFacts.v proves, after every
   prefix of a script of the grammar (any nesting), that an unknown command, a command or tag whose extension is
   not loaded, a tag the command does not take, a surplus or ill-typed argument, a test in command position and a
   non-test in test position are reported at the first byte of THAT token with its length
   (C18_offending_token, C18_unknown_command_at_token, C18_non_test_at_token, C18_argument_at_token); the
   categories are also exercised against the implementation by the check with the expected offset computed
   independently.  Second clause ("never before the first token that makes the script invalid"): whatever the
   rejection, it is not reported inside a prefix of the grammar -- C18_not_inside_valid_prefix (by tokens) and
   C18_never_before_first_invalid (by byte offsets, with the lexer's forward order C18_lexer_moves_forward).  The viable-prefix sense beyond the prefixes of wf_prefix (inside tests and
   argument lists) is checked on the implementation (mutants). *)
From Coq Require Import String.
From Coq Require Import List NArith Bool Arith.
From SV Require Import Bytes Lexer Tables ArgCheck ArgSpec Machine Printer GenTables.
Import ListNotations.
Local Open Scope nat_scope.
From SV Require Import PositionFacts TotalFacts CompleteFacts CompleteTree RejectFacts RejectExamples.
From SV Require Import LexRules.

(* the specification of lines: split_lf is the only LF-free, non-empty decomposition that joins back to the text *)
Theorem C18_split_unique :
  forall (ls : list (list N)) (l : bytes),
  ls <> [] -> Forall (fun s : list N => ~ In 10%N s) ls -> join_lf ls = l -> ls = split_lf l.
Proof. exact PositionFacts.split_lf_unique. Qed.
Print Assumptions C18_split_unique.

(* lineno/colno of an offset designate, in the split text, line L and column C, and the offset is recovered from (L, C) *)
Theorem C18_line_column_address :
  forall (text : list N) (pos : nat),
  pos <= Datatypes.length text ->
  let ls := split_lf text in
  let L := lineno text pos in
  let C := colno text pos in
  1 <= L /\
  1 <= C /\
  L - 1 < Datatypes.length ls /\
  C - 1 <= Datatypes.length (nth (L - 1) ls []) /\ pos = line_offset ls (L - 1) + (C - 1).
Proof. exact PositionFacts.position_address. Qed.
Print Assumptions C18_line_column_address.

(* column = 1 + distance to the start of the line; no LF in between *)
Theorem C18_column_from_line_start :
  forall (text : list N) (pos : nat),
  pos <= Datatypes.length text ->
  colno text pos = S (pos - line_start text pos) /\
  line_start text pos <= pos /\
  (line_start text pos = 0 \/ nth (line_start text pos - 1) text 0%N = 10%N) /\
  (forall i : nat, line_start text pos <= i < pos -> nth i text 0%N <> 10%N).
Proof. exact PositionFacts.colno_line_start. Qed.
Print Assumptions C18_column_from_line_start.

(* every token is a non-empty slice of the text at its recorded offset *)
Theorem C18_token_slice :
  forall (text : bytes) (t : token),
  In t (fst (lex text)) ->
  t_val t = firstn (Datatypes.length (t_val t)) (skipn (t_pos t) text) /\
  t_pos t + Datatypes.length (t_val t) <= Datatypes.length text /\
  1 <= Datatypes.length (t_val t).
Proof. exact PositionFacts.lex_token_at. Qed.
Print Assumptions C18_token_slice.

(* a lexical error is reported at the first non-space byte where no rule matches *)
Theorem C18_lexical_error_place :
  forall (text : bytes) (p : nat),
  snd (lex text) = Some p ->
  p < Datatypes.length text /\
  scan_rules (skipn p text) = None /\ is_space (nth p text 0%N) = false.
Proof. exact PositionFacts.lex_error_at. Qed.
Print Assumptions C18_lexical_error_place.

(* the lazy lexer/parser loop is a fold over the token list *)
Theorem C18_lazy_loop_is_fold :
  forall (T : tables) (text : bytes),
  parse T text =
  run_tokens (2 * Datatypes.length text + 2) T (fst (lex text)) (snd (lex text))
    (Datatypes.length text) 0 p_init.
Proof. exact PositionFacts.parse_run_tokens. Qed.
Print Assumptions C18_lazy_loop_is_fold.

(* every rejection: lexical error place, end of text, or start and length of a token of the text (with a token-level error) *)
Theorem C18_reject_place :
  forall (T : tables) (text : bytes) (e : perr) (pos tlen : nat),
  parse T text = Reject e pos tlen ->
  e = EUnknownToken /\
  snd (lex text) = Some pos /\
  pos < Datatypes.length text /\
  scan_rules (skipn pos text) = None /\ is_space (nth pos text 0%N) = false \/
  (e = EEndExpected \/ e = EEndUnfinished) /\
  pos = Datatypes.length text /\ snd (lex text) = None \/
  token_error e /\
  (exists t : token,
     In t (fst (lex text)) /\
     t_pos t = pos /\
     tlen = Datatypes.length (t_val t) /\
     t_val t = firstn tlen (skipn pos text) /\
     pos + tlen <= Datatypes.length text /\ 1 <= tlen).
Proof. exact PositionFacts.reject_position_strong. Qed.
Print Assumptions C18_reject_place.

(* error_pos = (line, column, length) of that place, as an address in the split text *)
Theorem C18_error_pos :
  forall (T : tables) (text : bytes) (e : perr) (pos tlen : nat),
  parse T text = Reject e pos tlen ->
  let ls := split_lf text in
  let L := lineno text pos in
  let C := colno text pos in
  error_pos text (parse T text) = Some (L, C, tlen) /\
  pos <= Datatypes.length text /\
  L - 1 < Datatypes.length ls /\
  C - 1 <= Datatypes.length (nth (L - 1) ls []) /\
  pos = line_offset ls (L - 1) + (C - 1) /\ C = S (pos - line_start text pos).
Proof. exact PositionFacts.error_pos_address. Qed.
Print Assumptions C18_error_pos.

(* no reported position depends on what follows the failing token *)
Theorem C18_prefix_determinism :
  forall (T : tables) (text1 text2 : bytes) (k : nat) (e : perr) (pos tlen : nat),
  firstn k (fst (lex text1)) = firstn k (fst (lex text2)) ->
  rejects_within T text1 k e pos tlen ->
  parse T text1 = Reject e pos tlen /\
  (parse T text2 = Reject e pos tlen \/ parse T text2 = OutOfFuel) /\
  (Datatypes.length text1 <= Datatypes.length text2 -> parse T text2 = Reject e pos tlen).
Proof. exact PositionFacts.prefix_determinism. Qed.
Print Assumptions C18_prefix_determinism.

(* tokens the machine takes, then one it refuses: the report is (error, first byte of that token, its length), whatever follows *)
Theorem C18_offending_token :
  forall (T : tables) (text : bytes) (pre : list token) (t : token) 
    (rest : list token) (st : pstate) (e : perr),
  fst (lex text) = pre ++ t :: rest ->
  steps T p_init (map strip_pos pre) = Some st ->
  stops (process T st t) e -> parse T text = Reject e (t_pos t) (Datatypes.length (t_val t)).
Proof. exact RejectFacts.reject_after_prefix. Qed.
Print Assumptions C18_offending_token.

(* unknown command / extension not loaded after any prefix of the grammar: reported at that identifier *)
Theorem C18_unknown_command_at_token :
  forall T : tables,
  twf_tables T = true ->
  forall (text : bytes) (pre : list token) (t : token) (rest : list token) 
    (L : list bytes) (prev : option bytes) (k : nat) (e : perr),
  wf_prefix T (map strip_pos pre) L prev k ->
  fst (lex text) = pre ++ t :: rest ->
  t_kind t = TIdentifier ->
  get_command_instance T L (t_val t) = inr e ->
  parse T text = Reject e (t_pos t) (Datatypes.length (t_val t)).
Proof. exact RejectFacts.unknown_command_rejected. Qed.
Print Assumptions C18_unknown_command_at_token.

(* a test in command position: reported at that identifier *)
Theorem C18_test_in_command_position_at_token :
  forall T : tables,
  twf_tables T = true ->
  forall (text : bytes) (pre : list token) (t : token) (rest : list token) 
    (L : list bytes) (prev : option bytes) (k : nat) (d : cmddef),
  wf_prefix T (map strip_pos pre) L prev k ->
  fst (lex text) = pre ++ t :: rest ->
  t_kind t = TIdentifier ->
  get_command_instance T L (t_val t) = inl d ->
  d_type d = CTest ->
  parse T text = Reject (EFirstCommand (d_name d)) (t_pos t) (Datatypes.length (t_val t)).
Proof. exact RejectFacts.test_as_command_rejected. Qed.
Print Assumptions C18_test_in_command_position_at_token.

(* a non-test (or no identifier at all) in test position: reported at that token *)
Theorem C18_non_test_at_token :
  forall T : tables,
  twf_tables T = true ->
  forall (text : bytes) (pre : list token) (tn t : token) (rest : list token) 
    (L : list bytes) (prev : option bytes) (k : nat) (d : cmddef),
  wf_prefix T (map strip_pos pre) L prev k ->
  fst (lex text) = pre ++ tn :: t :: rest ->
  t_kind tn = TIdentifier ->
  get_command_instance T L (t_val tn) = inl d ->
  d_type d = CControl ->
  d_accept_children d = true ->
  has_arguments d = true ->
  not_comment (t_kind t) = true ->
  match t_kind t with
  | TIdentifier =>
      match get_command_instance T L (t_val t) with
      | inl d' =>
          d_type d' <> CTest ->
          parse T text = Reject (ENotTest (d_name d')) (t_pos t) (Datatypes.length (t_val t))
      | inr e => parse T text = Reject e (t_pos t) (Datatypes.length (t_val t))
      end
  | _ => parse T text = Reject EExpected (t_pos t) (Datatypes.length (t_val t))
  end.
Proof. exact RejectFacts.test_position_rejected. Qed.
Print Assumptions C18_non_test_at_token.

(* a tag the command does not take, a tag whose extension is not loaded, a surplus or ill-typed argument: reported at a token of the argument list *)
Theorem C18_argument_at_token :
  forall T : tables,
  twf_tables T = true ->
  forall (text : bytes) (pre : list token) (tn : token) (atoks rest : list token)
    (L : list bytes) (prev : option bytes) (k : nat) (d : cmddef) 
    (args : list argument) (e : option perr),
  wf_prefix T (map strip_pos pre) L prev k ->
  fst (lex text) = pre ++ tn :: atoks ++ rest ->
  t_kind tn = TIdentifier ->
  get_command_instance T L (t_val tn) = inl d ->
  flat_def d = true ->
  wf_def d = true ->
  ArgCheckFacts.fixed_arity d = true ->
  Forall arg_ok args ->
  map strip_pos atoks = flat_map arg_toks args ->
  legal d L args = LReject e ->
  exists (t : token) (e' : perr),
    In t atoks /\ parse T text = Reject e' (t_pos t) (Datatypes.length (t_val t)).
Proof. exact RejectFacts.illegal_arguments_rejected. Qed.
Print Assumptions C18_argument_at_token.

(* a byte sequence that is no token, after a prefix of the grammar: reported at the place where no rule matches *)
Theorem C18_lexical_error_after_prefix :
  forall T : tables,
  twf_tables T = true ->
  forall (text : bytes) (L : list bytes) (prev : option bytes) (k p : nat),
  wf_prefix T (map strip_pos (fst (lex text))) L prev k ->
  snd (lex text) = Some p -> exists ll : nat, parse T text = Reject EUnknownToken p ll.
Proof. exact RejectFacts.lexical_error_rejected. Qed.
Print Assumptions C18_lexical_error_after_prefix.

(* a non-test, an unknown name or no name at all at the first position of a test list / after `not`: reported at that token *)
Theorem C18_inner_test_at_token :
  forall T : tables,
  twf_tables T = true ->
  forall (text : bytes) (pre : list token) (tn tl : token) (more : list token) 
    (t : token) (rest : list token) (L : list bytes) (prev : option bytes) 
    (k : nat) (d : cmddef) (a : argdef) (dl : cmddef),
  wf_prefix T (map strip_pos pre) L prev k ->
  fst (lex text) = pre ++ tn :: tl :: more ++ t :: rest ->
  t_kind tn = TIdentifier ->
  get_command_instance T L (t_val tn) = inl d ->
  d_type d = CControl ->
  d_accept_children d = true ->
  d_args d = [a] ->
  is_t1 a = true ->
  t_kind tl = TIdentifier ->
  get_command_instance T L (t_val tl) = inl dl ->
  d_type dl = CTest ->
  iscomplete (new_frame dl (at_of a)) None = false ->
  d_expected_first dl = Some [TLeftParen] /\
  (exists lp : token, more = [lp] /\ t_kind lp = TLeftParen) \/
  d_expected_first dl = Some [TIdentifier] /\ more = [] ->
  not_comment (t_kind t) = true ->
  match t_kind t with
  | TIdentifier =>
      match get_command_instance T L (t_val t) with
      | inl d' =>
          d_type d' <> CTest ->
          parse T text = Reject (ENotTest (d_name d')) (t_pos t) (Datatypes.length (t_val t))
      | inr e => parse T text = Reject e (t_pos t) (Datatypes.length (t_val t))
      end
  | _ => parse T text = Reject EExpected (t_pos t) (Datatypes.length (t_val t))
  end.
Proof. exact RejectFacts.inner_test_rejected. Qed.
Print Assumptions C18_inner_test_at_token.

(* malformed test lists (later positions): reported at the token that cannot continue the list *)
Theorem C18_test_list_later_at_token :
  forall T : tables,
  twf_tables T = true ->
  forall (text : bytes) (pre : list token) (tn tl lp : token) (ttoks cm : list token)
    (t : token) (rest : list token) (L : list bytes) (prev : option bytes) 
    (k : nat) (d : cmddef) (a : argdef) (dl : cmddef) (al : argdef) 
    (ts : list gtest) (ns : list node),
  wf_prefix T (map strip_pos pre) L prev k ->
  fst (lex text) = pre ++ tn :: tl :: lp :: ttoks ++ cm ++ t :: rest ->
  t_kind tn = TIdentifier ->
  get_command_instance T L (t_val tn) = inl d ->
  d_type d = CControl ->
  d_accept_children d = true ->
  d_args d = [a] ->
  is_t1 a = true ->
  t_kind tl = TIdentifier ->
  get_command_instance T L (t_val tl) = inl dl ->
  d_type dl = CTest ->
  d_args dl = [al] ->
  is_tl al = true ->
  d_expected_first dl = Some [TLeftParen] ->
  t_kind lp = TLeftParen ->
  ts <> [] ->
  Forall2 (wf_test T L) ts ns ->
  map strip_pos ttoks = toks_tests ts ->
  cm = [] \/ (exists c : token, cm = [c] /\ strip_pos c = mk TComma [44%N]) ->
  not_comment (t_kind t) = true ->
  match cm with
  | [] =>
      kind_mem (t_kind t) [TComma; TRightParen] = false ->
      parse T text = Reject EExpected (t_pos t) (Datatypes.length (t_val t))
  | _ :: _ =>
      match t_kind t with
      | TIdentifier =>
          match get_command_instance T L (t_val t) with
          | inl d' =>
              d_type d' <> CTest ->
              parse T text =
              Reject (ENotTest (d_name d')) (t_pos t) (Datatypes.length (t_val t))
          | inr e => parse T text = Reject e (t_pos t) (Datatypes.length (t_val t))
          end
      | _ => parse T text = Reject EExpected (t_pos t) (Datatypes.length (t_val t))
      end
  end.
Proof. exact RejectFacts.test_list_later_rejected. Qed.
Print Assumptions C18_test_list_later_at_token.

(* a tag the test does not take / whose extension is not loaded, an ill-typed value in a test: reported at that token *)
Theorem C18_test_argument_at_token :
  forall T : tables,
  twf_tables T = true ->
  forall (text : bytes) (pre : list token) (tn tl : token) (a0toks : list token) 
    (t : token) (rest : list token) (L : list bytes) (prev : option bytes) 
    (k : nat) (d : cmddef) (a : argdef) (dl : cmddef) (args0 : list argument) 
    (fN : frame) (ty : atype),
  wf_prefix T (map strip_pos pre) L prev k ->
  fst (lex text) = pre ++ tn :: tl :: a0toks ++ t :: rest ->
  t_kind tn = TIdentifier ->
  get_command_instance T L (t_val tn) = inl d ->
  d_type d = CControl ->
  d_accept_children d = true ->
  d_args d = [a] ->
  is_t1 a = true ->
  t_kind tl = TIdentifier ->
  get_command_instance T L (t_val tl) = inl dl ->
  d_type dl = CTest ->
  d_expected_first dl = None ->
  iscomplete (new_frame dl (at_of a)) None = false ->
  Forall arg_ok args0 ->
  map strip_pos a0toks = flat_map arg_toks args0 ->
  feed (new_frame dl (at_of a)) args0 L = FOk fN ->
  iscomplete fN None = false ->
  (t_kind t = TString \/ t_kind t = TMultiline) /\
  ty = TyString /\ utf8_valid (t_val t) = true \/
  t_kind t = TNumber /\ ty = TyNumber \/ t_kind t = TTag /\ ty = TyTag ->
  match check_next_arg fN ty (VStr (t_val t)) true true L with
  | CnaFalse => parse T text = Reject EUnexpectedToken (t_pos t) (Datatypes.length (t_val t))
  | CnaErr e => parse T text = Reject e (t_pos t) (Datatypes.length (t_val t))
  | _ => True
  end.
Proof. exact RejectFacts.test_argument_rejected. Qed.
Print Assumptions C18_test_argument_at_token.

(* every token after a given one, and the place of a lexical error, lie strictly after its first byte *)
Theorem C18_lexer_moves_forward :
  forall (text : bytes) (a : list token) (t : token) (b : list token),
  fst (lex text) = a ++ t :: b ->
  (forall u : token, In u b -> t_pos t < t_pos u) /\
  (forall p : nat, snd (lex text) = Some p -> t_pos t < p).
Proof. exact RejectFacts.lex_order. Qed.
Print Assumptions C18_lexer_moves_forward.

(* a rejection is never reported at a token of a prefix of the grammar: it is reported at a later token, at the lexical error, or at the end *)
Theorem C18_not_inside_valid_prefix :
  forall T : tables,
  twf_tables T = true ->
  forall (text : bytes) (pre rest : list token) (L : list bytes) (prev : option bytes)
    (k : nat) (e : perr) (pos tlen : nat),
  wf_prefix T (map strip_pos pre) L prev k ->
  fst (lex text) = pre ++ rest ->
  parse T text = Reject e pos tlen ->
  e = EUnknownToken /\ snd (lex text) = Some pos \/
  (e = EEndExpected \/ e = EEndUnfinished) /\ pos = Datatypes.length text \/
  (exists t : token, In t rest /\ t_pos t = pos /\ tlen = Datatypes.length (t_val t)).
Proof. exact RejectFacts.reject_not_in_prefix. Qed.
Print Assumptions C18_not_inside_valid_prefix.

(* second clause of the property: the reported offset is never before the first token after a prefix of the grammar *)
Theorem C18_never_before_first_invalid :
  forall T : tables,
  twf_tables T = true ->
  forall (text : bytes) (pre : list token) (t0 : token) (rest : list token) 
    (L : list bytes) (prev : option bytes) (k : nat) (e : perr) (pos tlen : nat),
  wf_prefix T (map strip_pos pre) L prev k ->
  fst (lex text) = pre ++ t0 :: rest -> parse T text = Reject e pos tlen -> t_pos t0 <= pos.
Proof. exact RejectFacts.reject_not_before. Qed.
Print Assumptions C18_never_before_first_invalid.

(* non-vacuity: line 3, column 4, length 3 for an unknown command inside a block, from the theorem *)
Theorem C18_offending_examples :
  let text := bs (px_text ++ "foo ""x""; }") in
  parse gen_tables text = Reject (EUnknownCommand (bs "foo")) 46 3 /\
  error_pos text (parse gen_tables text) = Some (3, 4, 3).
Proof. exact RejectExamples.ex_unknown. Qed.
Print Assumptions C18_offending_examples.

(* non-vacuity: each token-level category on a concrete script, position = first byte of the token *)
Example C18_unknown_command :
  error_pos (bs "keep;" ++ [10%N] ++ bs "  foo ""a"";") (parse gen_tables (bs "keep;" ++ [10%N] ++ bs "  foo ""a"";"))
  = Some (2, 3, 3).
Proof. vm_compute. reflexivity. Qed.

Example C18_tag_extension :
  error_pos (bs "redirect :copy ""a"";") (parse gen_tables (bs "redirect :copy ""a"";")) = Some (1, 10, 5).
Proof. vm_compute. reflexivity. Qed.

Example C18_surplus_string :
  error_pos (bs "stop ""x"";") (parse gen_tables (bs "stop ""x"";")) = Some (1, 6, 3).
Proof. vm_compute. reflexivity. Qed.

(* Parser.lrules of the working tree are the regular expressions the scanners of sieve/Lexer.v were translated from *)
Example C18_lexer_rules : gen_lrules = expected_lrules.
Proof. vm_compute. reflexivity. Qed.
