(* C16 — SASL: the right mechanism, carrying exactly the caller's credentials.

   Model: ms/Client.v ([select_mech] = the choice made by __authenticate; [plain_auth],
   [login_auth], [oauthbearer_auth] message builders; lib/Base64.v).  Spec: the server-side
   decoders of ms/Server.v ([b64_decode] strict RFC 4648, [split_nul] RFC 4616, [decode_oauth]
   RFC 7628 with RFC 5801 saslname).  Proofs: ms/SaslFacts.v.
   Not carried by the model: DIGEST-MD5 (digest_md5.py is Python 2 code and raises on Python 3:
   known finding digest-md5-python2; the model of the mechanism is "raise TypeError"). *)
From Coq Require Import String.
From Coq Require Import List NArith Bool.
From SV Require Import Bytes Base64 Client Server SaslFacts.
Import ListNotations.
Open Scope N_scope.

(* only a mechanism that is both implemented and announced *)
Theorem C16_select_announced :
  forall v m r, select_mech v m = Some r ->
                mem r (split_ws v) = true /\ mem r SUPPORTED_AUTH_MECHS = true.
Proof. exact SaslFacts.select_announced. Qed.
Print Assumptions C16_select_announced.

(* if the caller names an implemented mechanism: that one and no other *)
Theorem C16_select_preferred :
  forall v m r, mem m SUPPORTED_AUTH_MECHS = true -> select_mech v (Some m) = Some r -> beq r m = true.
Proof. exact SaslFacts.select_preferred. Qed.
Print Assumptions C16_select_preferred.

Theorem C16_select_preferred_none :
  forall v m, mem m SUPPORTED_AUTH_MECHS = true -> mem m (split_ws v) = false -> select_mech v (Some m) = None.
Proof. exact SaslFacts.select_preferred_none. Qed.
Print Assumptions C16_select_preferred_none.

(* otherwise the first of DIGEST-MD5, PLAIN, LOGIN, OAUTHBEARER that the server announces *)
Theorem C16_select_first :
  forall v m, (m = None \/ exists x, m = Some x /\ mem x SUPPORTED_AUTH_MECHS = false) ->
              select_mech v m = first_announced SUPPORTED_AUTH_MECHS (split_ws v).
Proof. exact SaslFacts.select_first. Qed.
Print Assumptions C16_select_first.

Theorem C16_first_announced_some :
  forall c s r, first_announced c s = Some r ->
                exists pre post, c = pre ++ r :: post /\ mem r s = true /\ forall x, In x pre -> mem x s = false.
Proof. exact SaslFacts.first_announced_some. Qed.
Print Assumptions C16_first_announced_some.

(* if none qualifies nothing is selected (and authenticate then writes nothing: see Client.authenticate) *)
Theorem C16_first_announced_none :
  forall c s, first_announced c s = None -> forall x, In x c -> mem x s = false.
Proof. exact SaslFacts.first_announced_none. Qed.
Print Assumptions C16_first_announced_none.

Example C16_preference_order :
  SUPPORTED_AUTH_MECHS = [bs "DIGEST-MD5"; bs "PLAIN"; bs "LOGIN"; bs "OAUTHBEARER"].
Proof. reflexivity. Qed.

(* wire formats: what the server decodes is exactly what the caller passed *)
Theorem C16_base64_roundtrip :
  forall l, Forall (fun c => c < 256) l -> b64_decode (b64_encode l) = Some l.
Proof. exact SaslFacts.b64_roundtrip. Qed.
Print Assumptions C16_base64_roundtrip.

Theorem C16_base64_quoted_safe :
  forall l, Forall (fun c => c < 256) l ->
            Forall (fun c => c <> 34 /\ c <> 92 /\ c <> 13 /\ c <> 10 /\ c <> 0) (b64_encode l).
Proof. exact SaslFacts.b64_alphabet. Qed.
Print Assumptions C16_base64_quoted_safe.

Theorem C16_plain_exact :
  forall authz login pw,
    contains_byte 0 authz = false -> contains_byte 0 login = false -> contains_byte 0 pw = false ->
    split_nul (authz ++ [0] ++ login ++ [0] ++ pw) [] = [authz; login; pw].
Proof. exact SaslFacts.plain_exact. Qed.
Print Assumptions C16_plain_exact.

Theorem C16_oauth_exact :
  forall login pw, decode_oauth (oauth_token login pw) = Some (login, pw).
Proof. exact SaslFacts.oauth_exact. Qed.
Print Assumptions C16_oauth_exact.

(* Non-vacuity / regression witness of the repaired defect: a login with ',' and '=' *)
Example C16_oauth_example :
  decode_oauth (oauth_token (bs "a,b=c") (bs "tok")) = Some (bs "a,b=c", bs "tok").
Proof. vm_compute. reflexivity. Qed.
