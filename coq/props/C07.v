(* C07 — extension use is gated by require.

   Model: sieve/Machine.v (Parser), sieve/ArgCheck.v (check_next_arg), over the tables
   regenerated from /repo on every run (gen/GenTables.v).  Proofs: sieve/GateFacts.v.
   Shape of the argument ("preceded in the script by a require"):
     (a) the loaded set only grows, and only when a command whose completion hook is
         RequireCommand.complete_cb is closed by ';' (C07_only_require_loads, C07_loaded_monotone,
         C07_loaded_was_required);
     (b) at the moment a command is instantiated / a slot takes a tag or match type, the extension
         it belongs to is in the loaded set of that moment (C07_command_gate, C07_argument_gate);
     (c) invariant over all reachable parser states, hence for every accepted script — regular or
         not — every extension needed anywhere in the tree is loaded (C07_accept);
     (d) the table the gates consult covers the frozen RFC list of extension-owned commands, tags
         and match types (C07_tables_cover_frozen, a vm_compute obligation over the generated
         tables), and has no blind spot (C07_no_blind_spot).
   Removal direction ("rejected with extension '<x>' not loaded, x first in script order"), sieve/LessLoaded.v
   and sieve/RemovalFacts.v: two runs of the parser on the same tokens, the second with a subset of the loaded
   extensions, are in lockstep -- same stack, expectations, brackets, results with the same command names --
   until the first transition that consults an extension the second run lacks, where the second run stops with
   "extension 'x' not loaded" (C07_step_simulation: every transition, for every state and token, by case analysis
   over the whole machine; the stale string-list buffer, which differs after `require` commands of different
   lengths, is part of the relation).  Hence for two scripts that begin with commands of the grammar -- the
   `require` commands, listing different extensions -- and continue with the same tokens: if the full one is
   accepted, the reduced one is either accepted with the same commands or rejected with that message at a token
   of the common part, for an extension the full run has loaded there and the reduced run has not
   (C07_removal_rejects); together with C07_accept (an accepted tree never needs an extension that is not
   loaded) a script whose tree needs the removed extension cannot take the first alternative.  Three gate
   examples and one removal example are computed on the model; all (script, extension) pairs of the generator
   are run on the implementation. *)
From Coq Require Import String.
From Coq Require Import List NArith Bool Arith.
From SV Require Import Bytes Lexer Tables ArgCheck ArgSpec Machine Printer GenTables.
Import ListNotations.
Local Open Scope nat_scope.
From SV Require Import GateFacts TotalFacts CompleteFacts CompleteTree LessLoaded RemovalFacts.

(* one parser step changes the loaded set only by completing a require with ';' (loaded_step) *)
Theorem C07_only_require_loads :
  forall (T : tables) (st : pstate) (t : token) (st' : pstate),
  process T st t = MTrue st' -> loaded_step st t st'.
Proof. exact GateFacts.process_loaded_true. Qed.
Print Assumptions C07_only_require_loads.

(* the loaded set never shrinks *)
Theorem C07_loaded_monotone :
  forall (T : tables) (st : pstate) (t : token) (st' : pstate),
  process T st t = MTrue st' \/ process T st t = MRewind st' ->
  incl (p_loaded st) (p_loaded st').
Proof. exact GateFacts.process_loaded_incl. Qed.
Print Assumptions C07_loaded_monotone.

(* in every reachable state the loaded set was built from [] by requires, in order *)
Theorem C07_loaded_trace :
  forall (T : tables) (st : pstate), reachable T st -> require_trace (p_loaded st).
Proof. exact GateFacts.reachable_require_trace. Qed.
Print Assumptions C07_loaded_trace.

(* every loaded extension is the unquoted form of a capability named by some require *)
Theorem C07_loaded_was_required :
  forall (L : list bytes) (e : bytes),
  require_trace L ->
  mem e L = true ->
  exists (f : frame) (items : list bytes) (x : bytes),
    d_complete (f_def f) = HRequire /\ caps_of f items /\ In x items /\ e = strip_dq x.
Proof. exact GateFacts.loaded_was_required. Qed.
Print Assumptions C07_loaded_was_required.

(* a command that belongs to an extension is instantiated only while that extension is loaded *)
Theorem C07_command_gate :
  forall (T : tables) (loaded : list bytes) (name : bytes) (d : cmddef),
  get_command_instance T loaded name = inl d ->
  match d_extension d with
  | Some (c :: e) => mem (c :: e) loaded = true
  | _ => True
  end.
Proof. exact GateFacts.gci_gate. Qed.
Print Assumptions C07_command_gate.

(* a slot takes a tag / match type only while the extension owning the slot or the value is loaded *)
Theorem C07_argument_gate :
  forall (f : frame) (t : atype) (v : aval) (add : bool) (loaded : list bytes) 
    (f' : frame) (ca : argdef),
  check_next_arg f t v add true loaded = CnaOk f' (Some ca) ->
  In ca (d_args (f_def f)) /\
  (a_required ca = true /\ a_type ca = [TyTestList] /\ f' = f \/
   (a_required ca = false ->
    match a_extension ca with
    | Some (c :: e) => mem (c :: e) loaded = true
    | _ => True
    end) /\
   (forall (s : bytes) (m : list (bytes * bytes)) (c : N) (e : list N),
    v = VStr s ->
    match a_values ca with
    | Some l => mem (lower s) l
    | None => false
    end = false ->
    a_extension_values ca = Some m ->
    assoc_get (lower s) m = Some (c :: e) -> mem (c :: e) loaded = true)).
Proof. exact GateFacts.cna_gate. Qed.
Print Assumptions C07_argument_gate.

(* the invariant holds in every reachable state *)
Theorem C07_reachable_inv :
  forall (T : tables) (st : pstate), wf_tables T = true -> reachable T st -> inv st.
Proof. exact GateFacts.reachable_inv. Qed.
Print Assumptions C07_reachable_inv.

(* every accepted input whatsoever: all extensions needed anywhere in the tree are loaded *)
Theorem C07_accept :
  forall (T : tables) (text : bytes) (r : list node),
  wf_tables T = true ->
  parse T text = Accept r ->
  exists st : pstate,
    reachable T st /\
    r = p_result st /\
    (forall (fuel : nat) (n : node) (e : bytes),
     In n r -> In e (needs fuel n) -> mem e (p_loaded st) = true).
Proof. exact GateFacts.gate_accept. Qed.
Print Assumptions C07_accept.

(* ... instantiated with the tables generated from /repo *)
Theorem C07_accept_generated_tables :
  forall (text : bytes) (r : list node),
  parse gen_tables text = Accept r ->
  exists st : pstate,
    reachable gen_tables st /\
    r = p_result st /\
    (forall (fuel : nat) (n : node) (e : bytes),
     In n r -> In e (needs fuel n) -> mem e (p_loaded st) = true).
Proof. exact GateFacts.gate_accept_gen. Qed.
Print Assumptions C07_accept_generated_tables.

(* one transition with fewer extensions loaded: the same outcome in the related state, or extension-not-loaded for an extension the full run has *)
Theorem C07_step_simulation :
  forall (T : tables) (st : pstate) (t : token) (C' L' : list bytes) (R' : list node),
  rel C' L' R' st -> sim st (ch C' L' R' st) (process T st t) (process T (ch C' L' R' st) t).
Proof. exact LessLoaded.process_sim. Qed.
Print Assumptions C07_step_simulation.

(* whole runs over the same tokens: accepted with the same command names, or rejected at the first token that consults a missing extension *)
Theorem C07_run_simulation :
  forall (T : tables) (fuel : nat) (toks toks' : list token) (endpos endpos' ll : nat)
    (st : pstate) (C' L' : list bytes) (R' res : list node),
  Forall2 tok_eq toks toks' ->
  rel C' L' R' st ->
  PositionFacts.run_tokens fuel T toks None endpos ll st = Accept res ->
  (exists res' : list node,
     PositionFacts.run_tokens fuel T toks' None endpos' ll (ch C' L' R' st) = Accept res' /\
     names res = names res') \/
  (exists (x : bytes) (t' : token) (s s' : pstate),
     In t' toks' /\
     PositionFacts.run_tokens fuel T toks' None endpos' ll (ch C' L' R' st) =
     Reject (EExtNotLoaded x) (t_pos t') (Datatypes.length (t_val t')) /\
     simst s s' /\ lacks (p_loaded s) (p_loaded s') x).
Proof. exact LessLoaded.run_less. Qed.
Print Assumptions C07_run_simulation.

(* two scripts whose prefixes leave the parser in related states and whose remainders are the same tokens *)
Theorem C07_removal_dichotomy :
  forall (T : tables) (full red : bytes) (pre pre' rest rest' : list token) 
    (stA stB : pstate) (r : list node),
  twf_tables T = true ->
  snd (lex full) = None ->
  snd (lex red) = None ->
  fst (lex full) = pre ++ rest ->
  fst (lex red) = pre' ++ rest' ->
  Forall2 tok_eq rest rest' ->
  steps T p_init (map strip_pos pre) = Some stA ->
  steps T p_init (map strip_pos pre') = Some stB ->
  simst stA stB ->
  parse T full = Accept r ->
  (exists r' : list node, parse T red = Accept r' /\ names r = names r') \/
  (exists (x : bytes) (t' : token) (s s' : pstate),
     In t' rest' /\
     parse T red = Reject (EExtNotLoaded x) (t_pos t') (Datatypes.length (t_val t')) /\
     simst s s' /\ lacks (p_loaded s) (p_loaded s') x).
Proof. exact LessLoaded.removal_dichotomy. Qed.
Print Assumptions C07_removal_dichotomy.

(* two scripts that begin with commands of the grammar (the require commands) loading a subset and continue with the same tokens *)
Theorem C07_removal_rejects :
  forall (T : tables) (full red : bytes) (pre pre' rest rest' : list token)
    (cs cs' : list gcmd) (ns ns' : list node) (L L' : list bytes) 
    (r : list node),
  twf_tables T = true ->
  snd (lex full) = None ->
  snd (lex red) = None ->
  fst (lex full) = pre ++ rest ->
  fst (lex red) = pre' ++ rest' ->
  Forall2 tok_eq rest rest' ->
  map strip_pos pre = flat_map toks_cmd cs ->
  map strip_pos pre' = flat_map toks_cmd cs' ->
  wf_cmds T [] None cs ns L ->
  wf_cmds T [] None cs' ns' L' ->
  sub L' L ->
  names ns = names ns' ->
  parse T full = Accept r ->
  (exists r' : list node, parse T red = Accept r' /\ names r = names r') \/
  (exists (x : bytes) (t' : token) (s s' : pstate),
     In t' rest' /\
     parse T red = Reject (EExtNotLoaded x) (t_pos t') (Datatypes.length (t_val t')) /\
     simst s s' /\ lacks (p_loaded s) (p_loaded s') x).
Proof. exact RemovalFacts.removal_rejects. Qed.
Print Assumptions C07_removal_rejects.

(* computed on the tables generated from /repo: `copy` removed from the require, rejected at the tag :copy *)
Theorem C07_removal_example :
  (exists r : list node, parse gen_tables ex_full = Accept r) /\
  parse gen_tables ex_red = Reject (EExtNotLoaded (bs "copy")) 41 5.
Proof. exact RemovalFacts.ex_removal. Qed.
Print Assumptions C07_removal_example.

(* obligations over the generated tables, re-checked on every run *)
Theorem C07_tables_wf : wf_tables gen_tables = true.
Proof. vm_compute. reflexivity. Qed.
Print Assumptions C07_tables_wf.

Theorem C07_tables_cover_frozen : covers gen_tables = true.
Proof. vm_compute. reflexivity. Qed.
Print Assumptions C07_tables_cover_frozen.

Theorem C07_no_blind_spot :
  forallb (fun kd => forallb slot_no_blind_spot (d_args (snd kd))) gen_tables = true.
Proof. vm_compute. reflexivity. Qed.
Print Assumptions C07_no_blind_spot.

(* end to end for the command entries of the frozen table *)
Theorem C07_frozen_command :
  forall (T : tables) (text : bytes) (r : list node) (n : node) (k ext : bytes),
  wf_tables T = true ->
  covers T = true ->
  parse T text = Accept r ->
  In n r ->
  In (k, ext) frozen_commands ->
  lookup_cmd T k = Some (node_def n) ->
  exists st : pstate, reachable T st /\ r = p_result st /\ mem ext (p_loaded st) = true.
Proof. exact GateFacts.frozen_command_gate. Qed.
Print Assumptions C07_frozen_command.

(* end to end for tags and match types covered by a slot *)
Theorem C07_covered_tag :
  forall (T : tables) (text : bytes) (r : list node) (n : node) (name s : bytes) 
    (a : argdef) (c : N) (e : list N),
  wf_tables T = true ->
  parse T text = Accept r ->
  In n r ->
  In (name, VStr s) (node_args n) ->
  find_slot (node_def n) name = Some a ->
  slot_covers (lower s) (c :: e) a = true ->
  exists st : pstate, reachable T st /\ r = p_result st /\ mem (c :: e) (p_loaded st) = true.
Proof. exact GateFacts.covered_tag_gate. Qed.
Print Assumptions C07_covered_tag.

(* non-vacuity and the removal direction on concrete scripts (computed on the model) *)
Example C07_needs_example :
  match parse gen_tables
          (bs "require [""fileinto"",""copy"",""relational""]; if header :count ""ge"" ""a"" ""1"" { fileinto :copy ""x""; }")
  with
  | Accept r => flat_map (needs 5) r = [bs "relational"; bs "fileinto"; bs "copy"]
  | _ => False
  end.
Proof. vm_compute. reflexivity. Qed.

Example C07_removal_command :
  parse gen_tables (bs "fileinto ""x"";") = Reject (EExtNotLoaded (bs "fileinto")) 0 8.
Proof. vm_compute. reflexivity. Qed.

Example C07_removal_tag :
  parse gen_tables (bs "require ""fileinto""; fileinto :copy ""x"";") = Reject (EExtNotLoaded (bs "copy")) 29 5.
Proof. vm_compute. reflexivity. Qed.

Example C07_removal_match_type :
  parse gen_tables (bs "if header :count ""ge"" ""a"" ""1"" {}") = Reject (EExtNotLoaded (bs "relational")) 10 6.
Proof. vm_compute. reflexivity. Qed.

(* first missing extension in script order: both copy and relational are missing, relational comes first *)
Example C07_removal_first_in_order :
  parse gen_tables (bs "require ""fileinto""; if header :count ""ge"" ""a"" ""1"" { fileinto :copy ""x""; }")
  = Reject (EExtNotLoaded (bs "relational")) 30 6.
Proof. vm_compute. reflexivity. Qed.
