(* C13 — parsing and filter building are independent of what happened before.

   Model: sieve/Machine.v.  [parse T text] is a Gallina function of the tables and the text: the model
   has no place where history could be kept, which is exactly what C13 asks of the implementation.
   What ties that to the code is (a) the state inventory gen/StateInv.v, regenerated from the AST of
   /repo/sievelib/{parser,commands,factory,tools}.py on every run by tools/gen_state.py, with the
   obligations below re-checked by vm_compute: every attribute the parser mutates while parsing is
   re-initialised by __reset_parser, which parse() calls first; the lexer's mutable attributes are
   assigned at the start of scan(); the only class-level state written anywhere is
   RequireCommand.loaded_extensions, rebound by the reset; nothing outside commands.py/parser.py refers
   to it (in particular the filter factory does not); no global statements, no mutated module-level
   containers, no mutable default arguments; (b) the correspondence of the stateless model with a
   reused Parser inside generated histories, and the comparison of every outcome with a pristine
   interpreter (the check). *)
From Coq Require Import String List Bool.
From SV Require Import Bytes Lexer Tables ArgCheck Machine StateInv.
Import ListNotations.
Local Open Scope string_scope.

(* a Parser object between two calls: whatever the previous parse left behind *)
Record parser_object := mkPO { po_leftover : pstate; po_last : option outcome }.

(* Parser.parse: __reset_parser first, then the token loop from the initial state *)
Definition reset_parser (o : parser_object) : pstate := p_init.
Definition parse_with (T : tables) (o : parser_object) (text : bytes) : outcome * parser_object :=
  let out := run_loop (2 * length text + 2) T 0 text 0 None (reset_parser o) in
  (out, mkPO (reset_parser o) (Some out)).

(* full statement: for every history of earlier parses on the same object (any texts, accepted or not),
   the outcome of the next parse is the outcome a fresh parser gives *)
Fixpoint after_history (T : tables) (o : parser_object) (hist : list bytes) : parser_object :=
  match hist with
  | [] => o
  | t :: r => after_history T (snd (parse_with T o t)) r
  end.

Theorem C13_parse_independent_of_history :
  forall T hist o text, fst (parse_with T (after_history T o hist) text) = parse T text.
Proof. intros. reflexivity. Qed.
Print Assumptions C13_parse_independent_of_history.

(* ---- obligations over the inventory regenerated from the working tree ---- *)
Definition smem (s : string) (l : list string) : bool := existsb (String.eqb s) l.

(* outputs of parse(): written on failure, read only by the caller *)
Definition parser_outputs : list string := ["error"; "error_pos"].

Theorem C13_reset_runs_first : parse_resets_first = true.
Proof. vm_compute. reflexivity. Qed.

(* every Parser attribute mutated while parsing is re-initialised by __reset_parser (the lexer object is
   covered by its own obligation below) *)
Theorem C13_reset_covers_mutations :
  forallb (fun mf => smem (snd mf) (parser_reset_fields ++ parser_outputs ++ ["lexer"])) parser_mutations = true.
Proof. vm_compute. reflexivity. Qed.

(* every attribute read is configuration set by __init__, or re-initialised by the reset, or an output *)
Theorem C13_reset_covers_reads :
  forallb (fun f => smem f (parser_init_fields ++ parser_reset_fields ++ parser_outputs)) parser_reads = true.
Proof. vm_compute. reflexivity. Qed.

(* configuration set by __init__ is never mutated afterwards, except the lexer's own position *)
Theorem C13_init_fields_constant :
  forallb (fun f => negb (smem f (map snd parser_mutations)) || String.eqb f "lexer") parser_init_fields = true.
Proof. vm_compute. reflexivity. Qed.

(* the lexer: everything scan() mutates is assigned at its start; everything it reads is configuration or that *)
Theorem C13_lexer_state :
  forallb (fun mf => String.eqb (fst mf) "scan" && smem (snd mf) lexer_scan_prologue) lexer_mutations = true
  /\ forallb (fun f => smem f (lexer_init_fields ++ lexer_scan_prologue)) lexer_reads = true.
Proof. vm_compute. split; reflexivity. Qed.

(* class-level state: only RequireCommand.loaded_extensions is ever written, by the reset (rebinding) and by
   complete_cb; nothing else in the four modules writes to a class object *)
Definition write_ok (w : string * string * string * string) : bool :=
  let '(file, fn, target, kind) := w in
  (String.eqb file "parser.py" && String.eqb fn "__reset_parser" && String.eqb target "RequireCommand.loaded_extensions" && String.eqb kind "assign")
  || (String.eqb file "commands.py" && String.eqb fn "complete_cb" && String.eqb target "RequireCommand.loaded_extensions").
Theorem C13_class_state_writes :
  forallb write_ok class_state_writes = true
  /\ existsb (fun w => let '(file, fn, _, kind) := w in String.eqb fn "__reset_parser" && String.eqb kind "assign") class_state_writes = true.
Proof. vm_compute. split; reflexivity. Qed.

(* ... and it is consulted only inside commands.py (the parser's gates); the filter factory never reads it *)
Definition ref_ok (r : string * string * string) : bool :=
  let '(file, fn, target) := r in
  String.eqb file "commands.py" || String.eqb target "Parser.lrules".
Theorem C13_class_state_refs : forallb ref_ok class_state_refs = true.
Proof. vm_compute. reflexivity. Qed.

(* no other channel: global statements, mutated module-level containers, mutable defaults, class-level
   containers mutated through self; globals() is written by add_commands only *)
Theorem C13_no_other_channel :
  global_statements = [] /\ module_mutables_mutated = [] /\ mutable_defaults = [] /\
  class_attrs_mutated_via_self = [] /\
  forallb (fun g => String.eqb (fst g) "commands.py" && String.eqb (snd g) "add_commands") globals_writes = true.
Proof. vm_compute. repeat split. Qed.
