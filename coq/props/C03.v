(* C03 — accepted scripts are represented faithfully: nothing dropped or invented.

   Proved here (sieve/CompleteFacts.v) for commands without tests and blocks — every action of the
   tables (keep, stop, discard, redirect, fileinto, reject, vacation, set, ...) and every registered action of
   the documented shape: feeding the argument tokens of `name arg_1 ... arg_n ;` (string lists written
   '[' item (',' item)* ']') through the parser machine gives the SAME frame as feeding the arguments to the
   table interpreter (C03_run_args), and closing the command with ';' appends exactly one node to the
   result carrying exactly the argument map and the tag-parameter map the specification [legal] assigns
   (C03_action_faithful): no token is dropped, overwritten, duplicated or attached to another command;
   nothing else in the parser state changes.  On texts: every text that lexes — whatever its layout — to those
   tokens is accepted with that one-node tree (C03_parse_single_action).
   For tests, test lists, blocks and if/elsif/else chains faithfulness is not proved: every accepted input
   of the enumerations, structural cases, generated scripts, layouts and mutants is compared with the tree
   of an independent recursive-descent parser of the RFC 5228 generic grammar (names, nesting, order,
   every tag with its parameter, nothing else), and the model's tree with the parser's tree. *)
From Coq Require Import String.
From Coq Require Import List NArith Bool Arith.
From SV Require Import Bytes Lexer Tables ArgCheck ArgSpec Machine Printer GenTables.
Import ListNotations.
Local Open Scope nat_scope.
From SV Require Import ArgCheckFacts PositionFacts TotalFacts RegisterFacts CompleteFacts.

(* the argument tokens drive the machine exactly as the arguments drive the table interpreter; brackets, loaded extensions, comments and result are untouched *)
Theorem C03_run_args :
  forall (T : tables) (args : list argument) (st : pstate) (f : frame) 
    (rest : list frame) (fN : frame),
  in_args st f rest ->
  p_expected st = None ->
  Forall arg_ok args ->
  feed f args (p_loaded st) = FOk fN ->
  exists st' : pstate,
    steps T st (flat_map arg_toks args) = Some st' /\
    in_args st' fN rest /\
    (p_expected st' = None \/ p_expected st' = Some [TSemicolon] /\ iscomplete fN None = true) /\
    p_brackets st' = p_brackets st /\
    p_loaded st' = p_loaded st /\ p_hash st' = p_hash st /\ p_result st' = p_result st.
Proof. exact CompleteFacts.run_args. Qed.
Print Assumptions C03_run_args.

(* `name args ;` at top level appends exactly one node with the frame's maps; the pending hash comments move to it *)
Theorem C03_action_accepted :
  forall (T : tables) (st : pstate) (name : bytes) (d : cmddef) (args : list argument)
    (fN : frame),
  can_start st ->
  get_command_instance T (p_loaded st) name = inl d ->
  d_type d = CAction ->
  twf d = true ->
  d_complete d = HNone ->
  d_must_follow d = None ->
  Forall arg_ok args ->
  feed (new_frame d AtTop) args (p_loaded st) = FOk fN ->
  steps T st (mk TIdentifier name :: flat_map arg_toks args ++ [mk TSemicolon [59%N]]) =
  Some
    {|
      p_stack := [];
      p_cstate := CNone;
      p_curlist :=
        p_curlist
          match
            steps T (with_cstate CArgs (with_stack [new_frame d AtTop] st))
              (flat_map arg_toks args)
          with
          | Some s => s
          | None => st
          end;
      p_expected := None;
      p_brackets := p_brackets st;
      p_loaded := p_loaded st;
      p_hash := [];
      p_result := p_result st ++ [Node d (f_args fN) (f_extra fN) [] (p_hash st)]
    |}.
Proof. exact CompleteFacts.action_accepted. Qed.
Print Assumptions C03_action_accepted.

(* with the specification: legal and complete arguments give a node with exactly the specified maps *)
Theorem C03_action_faithful :
  forall (T : tables) (st : pstate) (name : bytes) (d : cmddef) (args : list argument)
    (am em : list (bytes * aval)),
  can_start st ->
  get_command_instance T (p_loaded st) name = inl d ->
  d_type d = CAction ->
  twf d = true ->
  d_complete d = HNone ->
  d_must_follow d = None ->
  wf_def d = true ->
  fixed_arity d = true ->
  Forall arg_ok args ->
  legal d (p_loaded st) args = LComplete am em ->
  exists cl : list bytes,
    steps T st (mk TIdentifier name :: flat_map arg_toks args ++ [mk TSemicolon [59%N]]) =
    Some
      {|
        p_stack := [];
        p_cstate := CNone;
        p_curlist := cl;
        p_expected := None;
        p_brackets := p_brackets st;
        p_loaded := p_loaded st;
        p_hash := [];
        p_result := p_result st ++ [Node d am em [] (p_hash st)]
      |}.
Proof. exact CompleteFacts.action_complete. Qed.
Print Assumptions C03_action_faithful.

(* on texts: any layout that lexes to these tokens is accepted with exactly this tree *)
Theorem C03_parse_single_action :
  forall (T : tables) (text name : bytes) (d : cmddef) (args : list argument)
    (am em : list (bytes * aval)),
  twf_tables T = true ->
  snd (lex text) = None ->
  map strip_pos (fst (lex text)) =
  mk TIdentifier name :: flat_map arg_toks args ++ [mk TSemicolon [59%N]] ->
  get_command_instance T [] name = inl d ->
  d_type d = CAction ->
  d_complete d = HNone ->
  d_must_follow d = None ->
  wf_def d = true ->
  fixed_arity d = true ->
  Forall arg_ok args ->
  legal d [] args = LComplete am em -> parse T text = Accept [Node d am em [] []].
Proof. exact CompleteFacts.parse_single_action. Qed.
Print Assumptions C03_parse_single_action.

(* non-vacuity: vacation with tags, a number, a list and a string, from its text *)
Example C03_vacation_example :
  parse gen_tables (bs "require ""vacation""; vacation :days 7 :addresses [""a@b"", ""c,d""] :subject ""x\""y"" ""gone"";") =
  match lookup_cmd gen_tables (bs "require"), lookup_cmd gen_tables (bs "vacation") with
  | Some rq, Some vac =>
      Accept [Node rq [(bs "capabilities", VStr (bs """vacation"""))] [] [] [];
              Node vac [(bs "days", VStr (bs ":days")); (bs "addresses", VStr (bs ":addresses"));
                        (bs "subject", VStr (bs ":subject")); (bs "reason", VStr (bs """gone"""))]
                       [(bs "days", VStr (bs "7")); (bs "addresses", VList [bs """a@b"""; bs """c,d"""]);
                        (bs "subject", VStr (bs """x\""y"""))] [] []]
  | _, _ => Reject EUnknownToken 0 0
  end.
Proof. vm_compute. reflexivity. Qed.
