(* C03 — accepted scripts are represented faithfully: nothing dropped or invented.

   Proved here (sieve/CompleteFacts.v) for commands without tests and blocks — every action of the
   tables (keep, stop, discard, redirect, fileinto, reject, vacation, set, ...) and every registered action of
   the documented shape: feeding the argument tokens of `name arg_1 ... arg_n ;` (string lists written
   '[' item (',' item)* ']') through the parser machine gives the SAME frame as feeding the arguments to the
   table interpreter (C03_run_args), and closing the command with ';' appends exactly one node to the
   result carrying exactly the argument map and the tag-parameter map the specification [legal] assigns
   (C03_action_faithful): no token is dropped, overwritten, duplicated or attached to another command;
   nothing else in the parser state changes.  On texts: every text that lexes — whatever its layout — to those
   tokens is accepted with that one-node tree (C03_parse_single_action).
   Whole scripts (sieve/CompleteTree.v): for every command sequence derivable in the grammar [wf_cmds]
   (actions, require, controls with a test and a block, tests with arguments, not, anyof / allof, all nested to
   any depth, elsif / else) the tree returned is EXACTLY the tree of the derivation: every command under
   its parent in source order, every test in the slot of the command that takes it, every argument map as
   the specification [legal] assigns it, no node dropped, duplicated or attached elsewhere
   (C03_run_cmds, C03_parse_script).
   Outside that grammar (hash comments between commands; keep / setflag / addflag / removeflag / hasflag whose
   definitions are not [wf_def], see known findings) faithfulness is checked, not proved: every accepted
   input of the enumerations, structural cases, generated scripts, layouts and mutants is compared with the
   tree of an independent recursive-descent parser of the RFC 5228 generic grammar, and the model's tree
   with the parser's tree. *)
From Coq Require Import String.
From Coq Require Import List NArith Bool Arith.
From SV Require Import Bytes Lexer Tables ArgCheck ArgSpec Machine Printer GenTables.
Import ListNotations.
Local Open Scope nat_scope.
From SV Require Import ArgCheckFacts PositionFacts TotalFacts RegisterFacts CompleteFacts CompleteTree CompleteExamples.
From SV Require Import LexRules.

(* the argument tokens drive the machine exactly as the arguments drive the table interpreter; brackets, loaded extensions, comments and result are untouched *)
Theorem C03_run_args :
  forall (T : tables) (args : list argument) (st : pstate) (f : frame) 
    (rest : list frame) (fN : frame),
  in_args st f rest ->
  p_expected st = None ->
  Forall arg_ok args ->
  feed f args (p_loaded st) = FOk fN ->
  exists st' : pstate,
    steps T st (flat_map arg_toks args) = Some st' /\
    in_args st' fN rest /\
    (p_expected st' = None \/ p_expected st' = Some [TSemicolon] /\ iscomplete fN None = true) /\
    p_brackets st' = p_brackets st /\
    p_loaded st' = p_loaded st /\ p_hash st' = p_hash st /\ p_result st' = p_result st.
Proof. exact CompleteFacts.run_args. Qed.
Print Assumptions C03_run_args.

(* `name args ;` at top level appends exactly one node with the frame's maps; the pending hash comments move to it *)
Theorem C03_action_accepted :
  forall (T : tables) (st : pstate) (name : bytes) (d : cmddef) (args : list argument)
    (fN : frame),
  can_start st ->
  get_command_instance T (p_loaded st) name = inl d ->
  d_type d = CAction ->
  twf d = true ->
  d_complete d = HNone ->
  d_must_follow d = None ->
  Forall arg_ok args ->
  feed (new_frame d AtTop) args (p_loaded st) = FOk fN ->
  pending_param fN = false ->
  steps T st (mk TIdentifier name :: flat_map arg_toks args ++ [mk TSemicolon [59%N]]) =
  Some
    {|
      p_stack := [];
      p_cstate := CNone;
      p_curlist :=
        p_curlist
          match
            steps T (with_cstate CArgs (with_stack [new_frame d AtTop] st))
              (flat_map arg_toks args)
          with
          | Some s => s
          | None => st
          end;
      p_expected := None;
      p_brackets := p_brackets st;
      p_loaded := p_loaded st;
      p_hash := [];
      p_result := p_result st ++ [Node d (f_args fN) (f_extra fN) [] (p_hash st)]
    |}.
Proof. exact CompleteFacts.action_accepted. Qed.
Print Assumptions C03_action_accepted.

(* with the specification: legal and complete arguments give a node with exactly the specified maps *)
Theorem C03_action_faithful :
  forall (T : tables) (st : pstate) (name : bytes) (d : cmddef) (args : list argument)
    (am em : list (bytes * aval)),
  can_start st ->
  get_command_instance T (p_loaded st) name = inl d ->
  d_type d = CAction ->
  twf d = true ->
  d_complete d = HNone ->
  d_must_follow d = None ->
  wf_def d = true ->
  fixed_arity d = true ->
  Forall arg_ok args ->
  legal d (p_loaded st) args = LComplete am em ->
  exists cl : list bytes,
    steps T st (mk TIdentifier name :: flat_map arg_toks args ++ [mk TSemicolon [59%N]]) =
    Some
      {|
        p_stack := [];
        p_cstate := CNone;
        p_curlist := cl;
        p_expected := None;
        p_brackets := p_brackets st;
        p_loaded := p_loaded st;
        p_hash := [];
        p_result := p_result st ++ [Node d am em [] (p_hash st)]
      |}.
Proof. exact CompleteFacts.action_complete. Qed.
Print Assumptions C03_action_faithful.

(* on texts: any layout that lexes to these tokens is accepted with exactly this tree *)
Theorem C03_parse_single_action :
  forall (T : tables) (text name : bytes) (d : cmddef) (args : list argument)
    (am em : list (bytes * aval)),
  twf_tables T = true ->
  snd (lex text) = None ->
  map strip_pos (fst (lex text)) =
  mk TIdentifier name :: flat_map arg_toks args ++ [mk TSemicolon [59%N]] ->
  get_command_instance T [] name = inl d ->
  d_type d = CAction ->
  d_complete d = HNone ->
  d_must_follow d = None ->
  wf_def d = true ->
  fixed_arity d = true ->
  Forall arg_ok args ->
  legal d [] args = LComplete am em -> parse T text = Accept [Node d am em [] []].
Proof. exact CompleteFacts.parse_single_action. Qed.
Print Assumptions C03_parse_single_action.

(* arguments of any command (test, control, action), anywhere in the stack *)
Theorem C03_run_args_gen :
  forall (T : tables) (args : list argument) (st : pstate) (f : frame) 
    (rest : list frame) (fN : frame),
  cur_is st f rest ->
  Forall arg_ok args ->
  args <> [] ->
  feed f args (p_loaded st) = FOk fN ->
  exists (stX : pstate) (ts : bool),
    steps T st (flat_map arg_toks args) = ostep (check_completion stX ts) /\
    p_stack stX = fN :: rest /\
    p_cstate stX = CArgs /\
    p_expected stX = None /\
    same_env st stX /\
    fi fN /\ f_def fN = f_def f /\ f_attach fN = f_attach f /\ f_children fN = f_children f.
Proof. exact CompleteTree.run_args_gen. Qed.
Print Assumptions C03_run_args_gen.

(* a test tree is rebuilt node for node: arguments, the test of `not`, the tests of a test list in order *)
Theorem C03_run_test :
  forall (T : tables) (L : list bytes),
  twf_tables T = true -> forall (t : gtest) (n : node), wf_test T L t n -> Pst T L t n.
Proof. exact CompleteTree.run_test. Qed.
Print Assumptions C03_run_test.

(* a command sequence emits exactly its nodes, in order, into the result (top level) or the children of the block owner *)
Theorem C03_run_cmds :
  forall T : tables,
  twf_tables T = true ->
  forall (L : list bytes) (prev : option bytes) (cs : list gcmd) (ns : list node)
    (L' : list bytes), wf_cmds T L prev cs ns L' -> Pcmds T L prev cs ns L'.
Proof. exact CompleteTree.run_cmds. Qed.
Print Assumptions C03_run_cmds.

(* on texts: the tree of the derivation, nothing else *)
Theorem C03_parse_script :
  forall (T : tables) (text : bytes) (cs : list gcmd) (ns : list node) (L' : list bytes),
  twf_tables T = true ->
  snd (lex text) = None ->
  map strip_pos (fst (lex text)) = flat_map toks_cmd cs ->
  wf_cmds T [] None cs ns L' -> parse T text = Accept ns.
Proof. exact CompleteTree.parse_script. Qed.
Print Assumptions C03_parse_script.

(* hash comments before top-level commands end up, stripped, in the comments of exactly that command; nothing else changes *)
Theorem C03_parse_commented_script :
  forall (T : tables) (text : bytes) (tops : list (list bytes * gcmd)) 
    (ns : list node) (L' : list bytes),
  twf_tables T = true ->
  snd (lex text) = None ->
  map strip_pos (fst (lex text)) = flat_map toks_top tops ->
  wf_tops T [] None tops ns L' -> parse T text = Accept ns.
Proof. exact CompleteTree.parse_commented_script. Qed.
Print Assumptions C03_parse_commented_script.

(* non-vacuity on the generated tables *)
Theorem C03_script_example :
  exists (L' : list bytes) (ns : list node),
    wf_cmds gen_tables [] None ex_script ns L' /\ parse gen_tables ex_text = Accept ns.
Proof. exact CompleteExamples.ex_wf. Qed.
Print Assumptions C03_script_example.

(* non-vacuity: vacation with tags, a number, a list and a string, from its text *)
Example C03_vacation_example :
  parse gen_tables (bs "require ""vacation""; vacation :days 7 :addresses [""a@b"", ""c,d""] :subject ""x\""y"" ""gone"";") =
  match lookup_cmd gen_tables (bs "require"), lookup_cmd gen_tables (bs "vacation") with
  | Some rq, Some vac =>
      Accept [Node rq [(bs "capabilities", VStr (bs """vacation"""))] [] [] [];
              Node vac [(bs "days", VStr (bs ":days")); (bs "addresses", VStr (bs ":addresses"));
                        (bs "subject", VStr (bs ":subject")); (bs "reason", VStr (bs """gone"""))]
                       [(bs "days", VStr (bs "7")); (bs "addresses", VList [bs """a@b"""; bs """c,d"""]);
                        (bs "subject", VStr (bs """x\""y"""))] [] []]
  | _, _ => Reject EUnknownToken 0 0
  end.
Proof. vm_compute. reflexivity. Qed.

(* Parser.lrules of the working tree are the regular expressions the scanners of sieve/Lexer.v were translated from *)
Example C03_lexer_rules : gen_lrules = expected_lrules.
Proof. vm_compute. reflexivity. Qed.
