(* C11 — statements are added when the corresponding facts file lands *)
From SV Require Import Bytes Text.
Theorem C11_placeholder : True. Proof. exact I. Qed.
