(* C11 — a filter set survives being saved as a script and loaded back.

   Proved here (factory/TextFacts.v over factory/Text.v and sieve/Lexer.v): the marker comments.
   The line FiltersSet.tosieve writes before a filter ([pretext ++ text], LF) is ONE hash-comment token
   ending before the line feed; the parser stores it stripped ([stored_comment]); from_parser_result
   ([recover]) gives back exactly the name / description, for every marker that starts with a
   non-blank byte, and every text that does not end in a blank and does not contain the marker.
   The editing operations preserve "enabled = not wrapped" in every reachable state (C12), which is
   what reloading the enabled flag rests on.  Tree equality of reloaded filters rests on C04 and is
   exercised on the implementation (render -> parse -> from_parser_result -> render fixed point) over
   generated histories, names, descriptions and marker prefixes. *)
From Coq Require Import String.
From Coq Require Import List NArith Bool Arith.
From SV Require Import Bytes Lexer Text TextFacts.
Import ListNotations.
Local Open Scope nat_scope.

(* the marker line is one hash-comment token that ends before the line feed *)
Theorem C11_comment_is_one_token :
  forall p x rest : list N,
  match p with
  | [] => False
  | c :: _ => c = 35%N
  end ->
  contains_byte 10 (p ++ x) = false ->
  scan_hash ((p ++ x) ++ 10%N :: rest) = Some (Datatypes.length (p ++ x)).
Proof. exact TextFacts.scan_hash_line. Qed.
Print Assumptions C11_comment_is_one_token.

(* name / description recovered exactly from the stored comment *)
Theorem C11_recovered_exactly :
  forall (p : list N) (x : bytes),
  match p with
  | [] => False
  | c :: _ => is_space c = false
  end ->
  last_nonspace x = true -> occurs p x = false -> recover p (stored_comment p x) = Some x.
Proof. exact TextFacts.recover_stored. Qed.
Print Assumptions C11_recovered_exactly.

Example C11_recover_example :
  recover (bs "# Filter: ") (stored_comment (bs "# Filter: ") (bs "caf" ++ [195%N; 169%N] ++ bs " #1 ""x"""))
  = Some (bs "caf" ++ [195%N; 169%N] ++ bs " #1 ""x""").
Proof. vm_compute. reflexivity. Qed.

(* the hypotheses are needed: a name that ends in a blank loses it, a name containing the marker loses it *)
Example C11_trailing_blank_lost :
  recover (bs "# Filter: ") (stored_comment (bs "# Filter: ") (bs "x ")) = Some (bs "x").
Proof. vm_compute. reflexivity. Qed.
Example C11_marker_inside_lost :
  recover (bs "#F ") (stored_comment (bs "#F ") (bs "a #F b")) = Some (bs "a b").
Proof. vm_compute. reflexivity. Qed.
