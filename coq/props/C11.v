(* C11 — a filter set survives being saved as a script and loaded back.

   Models: factory/Build.v (FiltersSet.tosieve: require line, marker comments, filters), sieve/Machine.v (the
   parser, which collects the hash comments of every top-level command), factory/Load.v
   (FiltersSet.from_parser_result), each run against the implementation on every check.
   Proved (factory/LoadFacts.v over BuildSet.v, PrintTree.v, CompleteTree.v; factory/TextFacts.v):
     (a) the marker line written before a filter is ONE hash-comment token ending before the line feed, the
         parser stores it stripped, and from_parser_result recovers the name / description exactly, for every
         marker that starts with a non-blank byte and every text that does not end in a blank and does not
         contain the marker (with witnesses that both hypotheses are needed);
     (b) C11_reload_same: for EVERY non-empty list of good filters (every documented condition/action form,
         enabled or wrapped by disablefilter, with or without description) and requirements that cover them,
         the text FiltersSet.tosieve writes is accepted by the parser, and from_parser_result applied to the
         parsed commands returns the SAME requirements and the filters IN THE SAME ORDER with the same names,
         descriptions and enabled flags -- unbounded over values, numbers of filters, conditions and actions;
         the marker comments are attached to the right filter because the parser theorem
         (CompleteTree.parse_commented_script through PrintTree.set_parses) says so for every commented script;
     (c) C11_history_reload (factory/BuildHistory.v): the same for EVERY set reached from the empty set by a
         history of addfilter / updatefilter (documented definitions) / replacefilter / removefilter /
         enablefilter / disablefilter / movefilter -- the quantifier of the property.
   Hypotheses, besides those of C06: markers start with a non-blank byte, names/descriptions do not end in a
   blank, do not contain their marker, and a name line cannot be taken for a description line or vice versa
   (prefix conditions; all marker pairs used by callers in the harness satisfy them); the requirements have no
   duplicate (FiltersSet.require never adds one).
   The editing operations preserve "enabled = not wrapped" in every reachable state (C12).  That the reloaded
   filters render to scripts with the same trees and that rendering the reloaded set is a fixed point rests on
   C04 (print_parse_general) and is evaluated on the implementation over generated histories, names,
   descriptions and marker prefixes. *)
From Coq Require Import String.
From Coq Require Import List NArith Bool Arith.
From SV Require Import Bytes Lexer Text TextFacts.
Import ListNotations.
Local Open Scope nat_scope.
From SV Require Import Tables ArgCheck ArgSpec Machine Printer CompleteFacts CompleteTree RenderFacts PrintTree GenTables Ops Build BuildFacts BuildSet Load LoadFacts BuildHistory FactoryConsts ConstFacts.

(* the loader's `if false` test uses the two classes __isdisabled tests in the source *)
Theorem C11_disabled_test :
  guarded gen_disabled_classes (fun l : list bytes => [k_if; k_false] = l).
Proof. exact ConstFacts.disabled_classes_ok. Qed.
Print Assumptions C11_disabled_test.

(* the default name of a loaded filter is the format string of from_parser_result *)
Theorem C11_default_name :
  guarded gen_unnamed_prefix (fun p : bytes => forall cpt : N, unnamed cpt = p ++ dec cpt).
Proof. exact ConstFacts.unnamed_prefix_ok. Qed.
Print Assumptions C11_default_name.

(* for every set reached by a history of editing operations with documented definitions: the saved text is accepted and from_parser_result returns the same requirements and the filters in order with the same names, descriptions and enabled flags *)
Theorem C11_history_reload :
  forall (loaded : list bytes) (st : bstate) (name_pre desc_pre : bytes) (fuel : nat),
  reach loaded st ->
  b_set st <> [] ->
  5 <= fuel ->
  marker_ok name_pre ->
  marker_ok desc_pre ->
  names_ok name_pre desc_pre (b_set st) ->
  exists (text : bytes) (ns : list node) (lfs : list lfilter),
    b_render gen_tables loaded fuel name_pre desc_pre st = BOk text /\
    parse gen_tables text = Accept ns /\
    from_parser_result name_pre desc_pre ns = (b_reqs st, lfs) /\
    map (fun f : lfilter => (lf_name f, lf_desc f, lf_enabled f)) lfs =
    map (fun f : filter => (f_name f, desc_text (f_desc f), f_enabled f)) (b_set st).
Proof. exact BuildHistory.history_reload. Qed.
Print Assumptions C11_history_reload.

(* save, parse, load: same requirements, same names in the same order, same descriptions, same enabled flags *)
Theorem C11_reload_same :
  forall name_pre desc_pre : bytes,
  marker_ok name_pre ->
  marker_ok desc_pre ->
  forall (loaded : list bytes) (fuel : nat) (reqs : list bytes) (sfs : list sfilter),
  sfs <> [] ->
  kreqs reqs ->
  NoDup reqs ->
  Forall (sf_ok name_pre desc_pre reqs fuel) sfs ->
  Forall (lines_ok name_pre desc_pre) sfs ->
  1 <= fuel ->
  exists (text : bytes) (ns : list node) (lfs : list lfilter),
    render_set gen_tables loaded fuel name_pre desc_pre
      {| bs_requires := reqs; bs_filters := map sf_bf sfs |} = BOk text /\
    parse gen_tables text = Accept ns /\
    from_parser_result name_pre desc_pre ns = (reqs, lfs) /\
    Forall2
      (fun (x : sfilter) (f : lfilter) =>
       lf_name f = sf_name x /\ lf_desc f = desc_of x /\ lf_enabled f = negb (sf_dis x)) sfs
      lfs.
Proof. exact LoadFacts.reload_same. Qed.
Print Assumptions C11_reload_same.

(* every commented script laid out as FiltersSet.tosieve does parses to its commands with each comment attached to the command it precedes *)
Theorem C11_comments_attached :
  forall sepw : bytes -> bytes,
  (forall name : bytes, all_space (sepw name)) ->
  forall (T : tables) (tops : list (bytes * (list bytes * gcmd))) 
    (items : list xitem) (ns : list node) (L' : list bytes) (f : nat),
  TotalFacts.twf_tables T = true ->
  wf_tops T [] None (map snd tops) ns L' ->
  Forall2 (top_canon sepw) tops items ->
  Forall
    (fun x : bytes * (list bytes * gcmd) => all_space (fst x) /\ Forall hash_ok (fst (snd x)))
    tops -> tops <> [] -> tops_depth tops <= f -> parse T (set_text f items) = Accept ns.
Proof. exact PrintTree.set_parses. Qed.
Print Assumptions C11_comments_attached.

(* non-vacuity: the C06 example definition, once enabled and once disabled with a description and a non-ASCII name *)
Theorem C11_example_reload :
  exists (n n' : node) (text : bytes) (ns : list node) (lfs : list lfilter),
    good n (std_fcmd ex_conds ex_acts true) (fexts ex_conds ex_acts) false /\
    good n' (wrapped (std_fcmd ex_conds ex_acts true)) (fexts ex_conds ex_acts) true /\
    render_set gen_tables [] 8 ex_np ex_dp
      {|
        bs_requires := ex_reqs;
        bs_filters :=
          [{|
             bf_name := bs "my filter"; bf_content := n; bf_enabled := true; bf_desc := None
           |};
           {|
             bf_name := bs "caf" ++ [195%N; 169%N] ++ bs " #2";
             bf_content := n';
             bf_enabled := false;
             bf_desc := Some (bs "about ""it""")
           |}]
      |} = BOk text /\
    parse gen_tables text = Accept ns /\
    from_parser_result ex_np ex_dp ns = (ex_reqs, lfs) /\
    map (fun f : lfilter => (lf_name f, lf_desc f, lf_enabled f)) lfs =
    [(bs "my filter", [], true);
     (bs "caf" ++ [195%N; 169%N] ++ bs " #2", bs "about ""it""", false)].
Proof. exact LoadFacts.ex_reload. Qed.
Print Assumptions C11_example_reload.

(* the marker line is one hash-comment token that ends before the line feed *)
Theorem C11_comment_is_one_token :
  forall p x rest : list N,
  match p with
  | [] => False
  | c :: _ => c = 35%N
  end ->
  contains_byte 10 (p ++ x) = false ->
  scan_hash ((p ++ x) ++ 10%N :: rest) = Some (Datatypes.length (p ++ x)).
Proof. exact TextFacts.scan_hash_line. Qed.
Print Assumptions C11_comment_is_one_token.

(* name / description recovered exactly from the stored comment *)
Theorem C11_recovered_exactly :
  forall (p : list N) (x : bytes),
  match p with
  | [] => False
  | c :: _ => is_space c = false
  end ->
  last_nonspace x = true -> occurs p x = false -> recover p (stored_comment p x) = Some x.
Proof. exact TextFacts.recover_stored. Qed.
Print Assumptions C11_recovered_exactly.

Example C11_recover_example :
  recover (bs "# Filter: ") (stored_comment (bs "# Filter: ") (bs "caf" ++ [195%N; 169%N] ++ bs " #1 ""x"""))
  = Some (bs "caf" ++ [195%N; 169%N] ++ bs " #1 ""x""").
Proof. vm_compute. reflexivity. Qed.

(* the hypotheses are needed: a name that ends in a blank loses it, a name containing the marker loses it *)
Example C11_trailing_blank_lost :
  recover (bs "# Filter: ") (stored_comment (bs "# Filter: ") (bs "x ")) = Some (bs "x").
Proof. vm_compute. reflexivity. Qed.
Example C11_marker_inside_lost :
  recover (bs "#F ") (stored_comment (bs "#F ") (bs "a #F b")) = Some (bs "a b").
Proof. vm_compute. reflexivity. Qed.
