(* C10 — no script command before authentication; no credentials before TLS.

   Model: ms/Client.v (every public operation; [auth_required] = the authentication_required
   decorator; connect/starttls/authenticate; ghost event GAuthOk emitted exactly where
   `authenticated` is set after an AUTHENTICATE exchange that ended with OK), ms/Transport.v (the
   write log tagged with connection generation and TLS flag).  Proofs: ms/AuthFacts.v.
   Generated obligation: gen/Static.v is the inventory of managesieve.Client methods produced by
   tools/gen_static.py from the working tree on every run; C10_static re-checks it.
   Not carried by the model: the TLS handshake itself (an oracle outcome of the peer). *)
From Coq Require Import String.
From Coq Require Import List NArith Bool.
From SV Require Import Bytes Client Transport Session Server AuthFacts Static.
Import ListNotations.

(* a script-management call on an unauthenticated client raises Error and writes nothing *)
Theorem C10_refused :
  forall fuel o st, c_auth st = false -> is_script_op o = true -> run_op fuel o st = Fail ExAuthReq st.
Proof. exact AuthFacts.guarded_refuses. Qed.
Print Assumptions C10_refused.

(* Full statement, all histories, all peers, all segmentations: in the write log of any sequence
   of public operations from a fresh client, every script-management command written on
   connection c is preceded by "AUTHENTICATE ended with OK" on the same connection c, with no
   new connection in between. *)
Theorem C10_trace_safe :
  forall (S : Type) (react : S -> bytes -> S * bytes) (on_connect on_tls : S -> option (S * bytes))
         (seg : nat -> bytes -> list bytes) (fuel : nat) (ops : list op) (w0 : world S),
    w_log S w0 = [] ->
    forall after c tls d before,
      w_log S (snd (run_ops S react on_connect on_tls seg fuel ops c_init w0))
      = after ++ WSend c tls d :: before ->
      is_script_send d = true ->
      exists l1 l2, before = l1 ++ WMark c GAuthOk :: l2 /\
                    forallb (fun e => negb (is_wconnect e)) l1 = true.
Proof. exact AuthFacts.trace_safe_explicit. Qed.
Print Assumptions C10_trace_safe.

(* with STARTTLS requested, every AUTHENTICATE of the call is written under TLS (a refused,
   failed or unavailable STARTTLS therefore ends the call without credentials on the wire) *)
Theorem C10_tls_first :
  forall (S : Type) (react : S -> bytes -> S * bytes) (on_connect on_tls : S -> option (S * bytes))
         (seg : nat -> bytes -> list bytes) fuel l p z m st (w : world S) new,
    w_log S (snd (interp S react on_connect on_tls seg (connect fuel l p z true m st) w)) = new ++ w_log S w ->
    forall c tls d, In (WSend c tls d) new -> is_auth_send d = true -> tls = true.
Proof. exact AuthFacts.connect_tls_first. Qed.
Print Assumptions C10_tls_first.

(* ... and nothing but the STARTTLS command itself is written in clear (covers the LOGIN
   continuation lines that carry the credentials) *)
Theorem C10_only_starttls_in_clear :
  forall (S : Type) (react : S -> bytes -> S * bytes) (on_connect on_tls : S -> option (S * bytes))
         (seg : nat -> bytes -> list bytes) fuel l p z m st (w : world S) new,
    w_log S (snd (interp S react on_connect on_tls seg (connect fuel l p z true m st) w)) = new ++ w_log S w ->
    forall c tls d, In (WSend c tls d) new -> tls = true \/ d = bs "STARTTLS" ++ CRLF.
Proof. exact AuthFacts.connect_tls_only_starttls_in_clear. Qed.
Print Assumptions C10_only_starttls_in_clear.

(* the mechanism is chosen from capabilities read after the handshake: starttls resets the
   capability table before reading the new one (definitional in the model) *)
Example C10_caps_reset :
  forall fuel st k, has_cap (bs "STARTTLS") st = true ->
    exists p, starttls fuel st k = Send (command_bytes (bs "STARTTLS") []) p.
Proof. intros. unfold starttls. rewrite H. cbn. eexists. reflexivity. Qed.

(* ---- static part, over the inventory regenerated from managesieve.py on every run ---- *)
Open Scope string_scope.
Definition script_verb_names : list string :=
  ["HAVESPACE"; "LISTSCRIPTS"; "GETSCRIPT"; "PUTSCRIPT"; "CHECKSCRIPT"; "DELETESCRIPT"; "RENAMESCRIPT"; "SETACTIVE"].
Definition smem (s : string) (l : list string) : bool := existsb (String.eqb s) l.

Definition method_ok (m : method) : bool :=
  (* a method that passes a script verb to __send_command carries the decorator *)
  (if existsb (fun v => smem v script_verb_names) (m_verbs m)
   then smem "authentication_required" (m_decorators m) else true)
  (* only __send_command touches the socket's send methods *)
  && (if m_raw_send m then String.eqb (m_name m) "__send_command" else true)
  (* a computed command name is only used by the DIGEST-MD5 exchange *)
  && (if m_nonliteral_verb m then String.eqb (m_name m) "_digest_md5_authentication" else true)
  (* authenticated := True only in __authenticate; := False only in __init__ / connect *)
  && forallb (fun v => match v with
                       | Some true => String.eqb (m_name m) "__authenticate"
                       | Some false => smem (m_name m) ["__init__"; "connect"]
                       | None => false
                       end) (m_sets_authenticated m).

Theorem C10_static : forallb method_ok client_methods = true.
Proof. vm_compute. reflexivity. Qed.

(* connect() really resets the flag (the repaired defect) *)
Theorem C10_static_connect_resets :
  existsb (fun m => String.eqb (m_name m) "connect" && smem "__authenticate" (m_calls m)
                    && existsb (fun v => match v with Some false => true | _ => false end)
                               (m_sets_authenticated m)) client_methods = true.
Proof. vm_compute. reflexivity. Qed.
