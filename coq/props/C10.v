(* C10 — statements are added when the corresponding facts file lands *)
From SV Require Import Bytes Client Transport Server.
Theorem C10_placeholder : True. Proof. exact I. Qed.
