(* C02 — parsing always terminates with a verdict: no exception, no hang.

   Model: sieve/Lexer.v + sieve/Machine.v.  [parse T text] returns Accept | Reject | Crash | OutOfFuel,
   where Crash stands for every place at which the Python code would raise something other than a
   ParseError/CommandError (attribute access on None when no command is current, value.lower() on a
   list, NotImplementedError of reassign_arguments, iteration over a Command in complete_cb ...) and
   OutOfFuel for the token loop not ending within 2 * len(text) + 2 steps (a token delivered again and
   again after lexer rewinds).  Proofs: sieve/TotalFacts.v (1900 lines).
   Theorem C02_total: for EVERY byte string and every command table satisfying the decidable structural
   condition [twf_tables] (re-checked by vm_compute on the tables regenerated from /repo on every run:
   C02_tables), the outcome is Accept or Reject — never Crash, never OutOfFuel.  The proof is an
   invariant of the parser state (stack shape, counters of every frame, bracket/expected-token
   coherence, "a stray parenthesis ends the parse at the next token") preserved by every transition
   (C02_step), plus: tokens are non-empty (C02_token_count) and a token delivered again is never
   delivered a third time (C02_no_double_rewind), hence at most 2 * tokens + 1 machine steps.
   A rejection carries a position inside the text, so the reported line is between 1 and 1 + the number
   of line feeds (C02_reject_line).  The condition on the tables is necessary (C02_condition_needed).
   Not carried by the model: the running time of CPython's regex engine on one token (the check runs
   every case under a 2 s timer and counts the lexer's yields), UnicodeDecodeError funnelled into
   ParseError by the except clause (tied by correspondence on invalid UTF-8 inputs). *)
From Coq Require Import String.
From Coq Require Import List NArith Bool Arith.
From SV Require Import Bytes Lexer Tables ArgCheck ArgSpec Machine Printer GenTables.
Import ListNotations.
Local Open Scope nat_scope.
From SV Require Import PositionFacts TotalFacts RegisterFacts.
From SV Require Import LexRules.

(* one parser step from a state satisfying the invariant never crashes and re-establishes the invariant *)
Theorem C02_step :
  forall (T : tables) (st : pstate) (t : token),
  twf_tables T = true -> Inv st -> res_inv t (process T st t).
Proof. exact TotalFacts.process_inv. Qed.
Print Assumptions C02_step.

(* every token takes at least one byte *)
Theorem C02_token_count :
  forall text : bytes, Datatypes.length (fst (lex text)) <= Datatypes.length text.
Proof. exact TotalFacts.token_count. Qed.
Print Assumptions C02_token_count.

(* a token delivered again after a lexer rewind is not rewound again *)
Theorem C02_no_double_rewind :
  forall (T : tables) (st : pstate) (t : token) (st2 : pstate),
  rw_ok t st -> process T st t <> MRewind st2.
Proof. exact TotalFacts.no_double_rewind. Qed.
Print Assumptions C02_no_double_rewind.

(* every input, every well-formed table: Accept or Reject *)
Theorem C02_total :
  forall (T : tables) (text : bytes),
  twf_tables T = true ->
  match parse T text with
  | Accept _ | Reject _ _ _ => True
  | _ => False
  end.
Proof. exact TotalFacts.parse_total. Qed.
Print Assumptions C02_total.

(* ... instantiated with the tables generated from /repo *)
Theorem C02_total_generated_tables :
  forall text : bytes,
  match parse gen_tables text with
  | Accept _ | Reject _ _ _ => True
  | _ => False
  end.
Proof. exact TotalFacts.parse_total_gen. Qed.
Print Assumptions C02_total_generated_tables.

(* the same as a disjunction *)
Theorem C02_verdict :
  forall (T : tables) (text : bytes),
  twf_tables T = true ->
  (exists r : list node, parse T text = Accept r) \/
  (exists (e : perr) (pos tlen : nat), parse T text = Reject e pos tlen).
Proof. exact TotalFacts.verdict_is_bool. Qed.
Print Assumptions C02_verdict.

(* a rejection reports a position inside the text: 1 <= line <= 1 + number of LF *)
Theorem C02_reject_line :
  forall (T : tables) (text : bytes) (e : perr) (pos tlen : nat),
  parse T text = Reject e pos tlen ->
  pos <= Datatypes.length text /\ 1 <= lineno text pos <= 1 + count_lf text.
Proof. exact TotalFacts.reject_line_in_range. Qed.
Print Assumptions C02_reject_line.

(* the structural condition holds for the tables of the working tree (re-checked on every run) *)
Theorem C02_tables : twf_tables gen_tables = true.
Proof. vm_compute. reflexivity. Qed.
Print Assumptions C02_tables.

(* ... and is preserved by registering a command that satisfies it (C20: custom commands) *)
Theorem C02_registered : forall T key d text,
  twf_tables T = true -> twf d = true ->
  match parse (register key d T) text with Accept _ | Reject _ _ _ => True | _ => False end.
Proof.
  intros T key d text HT Hd. apply parse_total. unfold twf_tables, register in *. cbn. rewrite Hd, HT. reflexivity.
Qed.
Print Assumptions C02_registered.

(* the condition is needed: a table violating it on which the model loops *)
Example C02_condition_needed :
  let d := mkCmd [120%N] CAction [] false false true None None None HNone RHasflag in
  twf d = false /\ parse [([120%N], d)] [120%N; 123%N] = OutOfFuel.
Proof. vm_compute. split; reflexivity. Qed.

(* the inputs that used to crash or hang the parser (repaired defects), on the model *)
Example C02_former_crashers :
  map (fun s => match parse gen_tables s with Accept _ => 1 | Reject _ _ _ => 2 | Crash _ => 3 | OutOfFuel => 4 end)
      [bs "require [""imap4flags""]; if hasflag {}"; bs "require;"; bs "control;"; bs "if test {}";
       bs "keep (true);"; bs "if ( anyof ( true ) ) { }"; bs "if anyof ( header ) ) )"; bs "stop ( ) ;";
       bs "if true { if true { } else [ { } } }"]
  = [2; 1; 2; 2; 2; 2; 2; 2; 2].
Proof. vm_compute. reflexivity. Qed.

(* Parser.lrules of the working tree are the regular expressions the scanners of sieve/Lexer.v were translated from *)
Example C02_lexer_rules : gen_lrules = expected_lrules.
Proof. vm_compute. reflexivity. Qed.
