(* C08 — each client call puts exactly one well-formed command on the wire.

   Model: ms/Client.v ([prepare_arg], [command_bytes] = __prepare_args/__send_command after the
   escaping repair).  Spec: ms/Server.v ([parse_command]: strict RFC 5804 section 4 parser —
   quoted strings with only the two legal escapes and no NUL/CR/LF, non-synchronising literals
   with an exact octet count, numbers, one CRLF per command).  Proofs: ms/WriterFacts.v. *)
From Coq Require Import List NArith Bool.
From SV Require Import Bytes Client Server WriterFacts.
Import ListNotations.
Open Scope N_scope.

(* Full statement: for every verb and every argument list (arbitrary byte strings — quotes,
   backslashes, CR, LF, NUL, {n} look-alikes, any length — and arbitrary numbers), the strict
   parser reads back from the bytes written exactly one command: that verb, exactly those
   argument values, and nothing is left over; bytes that follow are untouched (no argument can
   end the command early or smuggle a second one). *)
Theorem C08_one_command :
  forall verb args rest,
    verb <> [] -> Forall (fun c => is_alpha c = true) verb ->
    parse_command (command_bytes verb args ++ rest) = PCmd (upper verb) (map decode_arg args) rest.
Proof. exact WriterFacts.command_roundtrip. Qed.
Print Assumptions C08_one_command.

Theorem C08_exactly_one :
  forall verb args,
    verb <> [] -> Forall (fun c => is_alpha c = true) verb ->
    parse_command (command_bytes verb args) = PCmd (upper verb) (map decode_arg args) [].
Proof. exact WriterFacts.command_exactly_one. Qed.
Print Assumptions C08_exactly_one.

(* literal lengths are the byte length of the content, printed in decimal and read back *)
Theorem C08_literal_length : forall s r, strict_literal (literal_c2s s ++ r) = Some (Some (s, r)).
Proof. exact WriterFacts.strict_literal_roundtrip. Qed.
Print Assumptions C08_literal_length.

Theorem C08_decimal : forall n, num_of_digits (dec n) = n.
Proof. exact WriterFacts.dec_roundtrip. Qed.
Print Assumptions C08_decimal.

(* Non-vacuity: a PUTSCRIPT whose name tries to smuggle a LOGOUT and whose content looks like a literal *)
Example C08_example :
  parse_command (command_bytes (map (fun c => c) [80;85;84;83;67;82;73;80;84])
                   [AStr [97;34;13;10;76;79;71;79;85;84]; ALit [123;53;43;125;13;10]])
  = PCmd [80;85;84;83;67;82;73;80;84] [PStr [97;34;13;10;76;79;71;79;85;84]; PStr [123;53;43;125;13;10]] [].
Proof. vm_compute. reflexivity. Qed.
