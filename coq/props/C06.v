(* C06 — every script the filter factory generates is valid and self-sufficient.

   What is proved here is the part of C06 that no test can settle: caller-supplied values can never
   change the structure of the script.  Model: factory/Text.v ([fquote] = FiltersSet.__quote,
   [quote_list] = __quote_list, [quote_if_necessary]) and sieve/Lexer.v (the lexer of the parser that
   reads the script back).  Proofs: factory/TextFacts.v.  For EVERY byte string v and every text that
   follows it, the quoted form of v is exactly one string token, and a quoted list is bracket, string
   tokens separated by commas, bracket; the token's content unescapes to v.
   The per-kind assembly of __create_filter (which tags, which require) is not modelled: validity,
   strict validity and require coverage of whole generated scripts are checked on the implementation
   with the strict validator, and skeleton independence is checked by re-lexing with the model lexer.
   Values that start with a double or single quote are taken as already quoted by the factory
   (quote_if_necessary, documented behaviour pinned by the suite) and are outside the claim. *)
From Coq Require Import String.
From Coq Require Import List NArith Bool Arith.
From SV Require Import Bytes Lexer Text TextFacts.
Import ListNotations.
Local Open Scope nat_scope.

(* the quoted form of ANY value lexes as exactly one string token, whatever follows *)
Theorem C06_value_is_one_string_token :
  forall (pos : nat) (v : bytes) (rest : list N),
  next_token pos (quote v ++ rest) =
  LTok {| t_kind := TString; t_val := quote v; t_pos := pos |} rest.
Proof. exact TextFacts.next_token_quote. Qed.
Print Assumptions C06_value_is_one_string_token.

(* the string scanner consumes exactly the quoted form *)
Theorem C06_string_rule_length :
  forall (v : bytes) (rest : list N),
  scan_string (quote v ++ rest) = Some (Datatypes.length (quote v)).
Proof. exact TextFacts.scan_string_quote. Qed.
Print Assumptions C06_string_rule_length.

(* unescaping the token's content gives back the value: nothing added, nothing lost *)
Theorem C06_content_is_the_value :
  forall v : bytes, unescape_q (escape_q v) = v.
Proof. exact TextFacts.unescape_escape. Qed.
Print Assumptions C06_content_is_the_value.

(* a quoted list of ANY values: bracket, quoted items separated by commas, bracket; then the lexer continues with what follows *)
Theorem C06_list_token_structure :
  forall (vs : list bytes) (pos : nat) (rest : list N),
  vs <> [] ->
  next_n (2 * Datatypes.length vs + 1) pos (quote_list vs ++ rest) =
  Some
    ((TLeftBracket, [91%N]) :: commas (map fquote vs) ++ [(TRightBracket, [93%N])],
     pos + Datatypes.length (quote_list vs), rest).
Proof. exact TextFacts.next_n_quote_list. Qed.
Print Assumptions C06_list_token_structure.

(* a hostile value stays inside its string literal (computed on the model lexer) *)
Example C06_injection_attempt :
  next_n 5 0 (quote_list [bs "a""] { discard; } #"; bs "b\"] ++ bs " { keep; }") =
  Some ([(TLeftBracket, [91%N]); (TString, quote (bs "a""] { discard; } #")); (TComma, [44%N]);
         (TString, quote (bs "b\")); (TRightBracket, [93%N])],
        length (quote_list [bs "a""] { discard; } #"; bs "b\"]), bs " { keep; }").
Proof. vm_compute. reflexivity. Qed.
