(* C06 — every script the filter factory generates is valid and self-sufficient.

   Model: factory/Build.v follows FiltersSet.__create_filter, __build_condition, __add_tag, require,
   check_if_arg_is_extension, __gen_require_command, disablefilter's wrapper and FiltersSet.tosieve statement by
   statement on top of the models of Command.check_next_arg (sieve/ArgCheck.v) and Command.tosieve
   (sieve/Printer.v); it is run against factory.py on every check (edit histories with generated definitions and
   a malformed stream: return values, exception classes, rendered text, requires).
   Proved (factory/BuildFacts.v, factory/BuildSet.v over sieve/PrintTree.v, CompleteTree.v, RenderFacts.v):
     (a) values: the quoted form of EVERY byte string is exactly one string token whatever follows, its content
         unescapes to the value, a quoted list is bracket / string tokens separated by commas / bracket
         (factory/TextFacts.v) -- a caller-supplied value can never change the token structure;
     (b) every documented condition form [dcond] (header fallback with :is/:contains/:matches and the :not forms,
         one name or a list; exists/notexists; size; envelope; address; body :raw/:text; currentdate with match
         types and with :value + relational operator; true; false) and every documented action form [dact]
         whose definition has the shape ArgSpec describes (fileinto with :copy/:create/:flags, redirect with
         :copy, reject, discard, stop, vacation with every subset of its tags): __create_filter does not raise,
         the command it builds stands for a command of the grammar of CompleteTree (canonical form, with the
         list separators the factory's trees print with) that is legal wherever the extensions it needs are
         loaded (C06_condition_built, C06_condition_legal, C06_action_built, C06_action_legal);
     (c) a whole filter -- any non-empty list of such conditions, any list of such actions, anyof or allof --
         is `if anyof/allof (...) { ... }` in that sense, and the requirements recorded while it is built name
         EVERY extension it uses (C06_filter_built, C06_requires_cover);
     (d) a whole set: for any non-empty list of such filters, some wrapped in `if false { ... }` by disablefilter,
         with requirements that cover them, the text FiltersSet.tosieve writes -- require line, blank line, the
         marker comments, the filters -- is ACCEPTED by the parser and parses to the require command followed by
         the filters in order, each an `if` carrying its marker lines, `if false` exactly for the disabled ones
         (C06_set_accepted).  Unbounded over values, list lengths, numbers of conditions/actions/filters;
     (e) histories (factory/BuildHistory.v): every state reached from the empty set by addfilter / updatefilter with
         documented definitions and replacefilter (with a tree the set built) / removefilter / enablefilter /
         disablefilter / movefilter satisfies an invariant (representable structure, every tree good, requirements
         without duplicates that cover every tree ever built) under which no documented operation raises and
         the rendered text is accepted (C06_history_runs, C06_history_accepted).
   Hypotheses on values (each shown necessary by a generated case or a known finding): strings do not start with
   a quote character (outside the claim), are valid UTF-8, lists are not empty, a header name given as one string
   is not a condition keyword nor "not" + a condition keyword (a header called "notes" is fine since the fix
   recorded in known_findings.json: the proof forced the hypothesis and the real code failed on it), a string argument of an action does not start with ':'; marker lines contain no line feed.
   Not proved: keep/setflag/addflag/removeflag (definitions outside wf_def: known findings of C01/C03), tag orders
   other than the documented one (covered by the differential run and the strict validator). *)
From Coq Require Import String.
From Coq Require Import List NArith Bool Arith.
From SV Require Import Bytes Lexer Text TextFacts.
Import ListNotations.
Local Open Scope nat_scope.
From SV Require Import Tables ArgCheck ArgSpec Machine Printer CompleteFacts CompleteTree RenderFacts PrintTree GenTables Ops Build BuildFacts BuildSet Load LoadFacts BuildHistory FactoryConsts ConstFacts.

(* the model's tag -> extension map for action arguments IS the dict of check_if_arg_is_extension read from factory.py on this run (tools/gen_factory.py) *)
Theorem C06_tag_extension_map :
  guarded gen_arg_exts
    (fun m : list (bytes * bytes) =>
     forall (v : fv) (reqs : list bytes),
     arg_extension v reqs =
     match v with
     | FS s => match assoc_get s m with
               | Some e => require e reqs
               | None => reqs
               end
     | _ => reqs
     end).
Proof. exact ConstFacts.arg_extension_is_the_map. Qed.
Print Assumptions C06_tag_extension_map.

(* the header fallback is taken exactly for names outside the condition keywords read from __create_filter on this run *)
Theorem C06_dispatch_keywords :
  guarded gen_dispatch
    (fun l : list bytes =>
     forall s : bytes, snd (cond_kind (FS s)) = KHeader <-> mem (effective_name s) l = false).
Proof. exact ConstFacts.dispatch_is_the_keywords. Qed.
Print Assumptions C06_dispatch_keywords.

(* what a leading `not` negates is the tuple read from the source *)
Theorem C06_negatable_names :
  guarded gen_negatable (fun l : list bytes => forall s : bytes, negatable s = mem s l).
Proof. exact ConstFacts.negatable_is_the_tuple. Qed.
Print Assumptions C06_negatable_names.

(* every documented condition form: the test __create_filter builds stands for [ctest d]; negation flag and requirements as stated *)
Theorem C06_condition_built :
  forall (qin : bytes -> bytes) (qlist : list bytes -> bytes),
  (forall s : bytes, vok s -> qin s = quote s) ->
  (forall l : list bytes, qlist l = 91%N :: join [44%N] (map quote l) ++ [93%N]) ->
  forall (d : dcond) (loaded reqs : list bytes),
  cond_ok d ->
  exists f : frame,
    build_test qin qlist gen_tables loaded (ctuple d) reqs = BOk (f, cneg d, creqs d reqs) /\
    canon_test fsep (ctest qin d) (done f).
Proof. exact BuildFacts.build_cond. Qed.
Print Assumptions C06_condition_built.

(* ... and that test is legal wherever its extensions are loaded *)
Theorem C06_condition_legal :
  forall qin : bytes -> bytes,
  (forall s : bytes, vok s -> qin s = quote s) ->
  forall (d : dcond) (L : list bytes),
  cond_ok d ->
  (forall e : bytes, In e (cexts d) -> mem e L = true) ->
  exists n : node, wf_test gen_tables L (ctest qin d) n.
Proof. exact BuildFacts.cond_wf. Qed.
Print Assumptions C06_condition_legal.

(* every documented action form: the command built stands for [acmd a] *)
Theorem C06_action_built :
  forall qin : bytes -> bytes,
  (forall s : bytes, vok s -> qin s = quote s) ->
  forall (a : dact) (loaded reqs : list bytes),
  act_ok a ->
  act_plain a ->
  exists n : node,
    build_action qin gen_tables loaded (atuple a) reqs = BOk (n, areqs a reqs) /\
    canon_cmd fsep (acmd qin a) n.
Proof. exact BuildFacts.build_act. Qed.
Print Assumptions C06_action_built.

(* ... and is legal wherever its extensions are loaded *)
Theorem C06_action_legal :
  forall qin : bytes -> bytes,
  (forall s : bytes, vok s -> qin s = quote s) ->
  forall (a : dact) (L : list bytes) (prev : option bytes),
  act_ok a ->
  (forall e : bytes, In e (aexts a) -> mem e L = true) ->
  exists n : node, wf_cmd gen_tables L prev (acmd qin a) n L.
Proof. exact BuildFacts.act_wf. Qed.
Print Assumptions C06_action_legal.

(* a whole filter built by __create_filter with the factory's own quoting functions *)
Theorem C06_filter_built :
  forall (loaded : list bytes) (conds : list dcond) (acts : list dact) 
    (anyof : bool) (reqs : list bytes),
  conds <> [] ->
  Forall cond_ok conds ->
  Forall act_ok acts ->
  Forall act_plain acts ->
  exists n : node,
    create_filter quote_if_necessary quote_list gen_tables loaded 
      (map ctuple conds) (map atuple acts) (mt_name anyof) reqs =
    BOk (n, freqs conds acts reqs) /\
    good n (std_fcmd conds acts anyof) (fexts conds acts) false.
Proof. exact BuildSet.factory_filter_good. Qed.
Print Assumptions C06_filter_built.

(* the requirements recorded name every extension the filter uses *)
Theorem C06_requires_cover :
  forall (conds : list dcond) (acts : list dact) (reqs : list bytes) (e : bytes),
  In e (fexts conds acts) -> mem e (freqs conds acts reqs) = true.
Proof. exact BuildSet.freqs_covers. Qed.
Print Assumptions C06_requires_cover.

(* ... and nothing recorded earlier is lost *)
Theorem C06_requires_grow :
  forall (conds : list dcond) (acts : list dact) (reqs : list bytes),
  sub reqs (freqs conds acts reqs).
Proof. exact BuildSet.freqs_grows. Qed.
Print Assumptions C06_requires_grow.

(* disablefilter's `if false { ... }` around a good filter is good *)
Theorem C06_disabled_wrapper :
  forall (loaded : list bytes) (n : node) (g : gcmd) (exts : list bytes) (dis : bool),
  good n g exts dis ->
  exists n' : node,
    wrap_disabled gen_tables loaded n = BOk n' /\ good n' (wrapped g) exts true.
Proof. exact BuildSet.wrap_good. Qed.
Print Assumptions C06_disabled_wrapper.

(* the text of a whole set is accepted and parses to the filters in order with their marker lines *)
Theorem C06_set_accepted :
  forall (name_pre desc_pre : bytes) (loaded : list bytes) (fuel : nat) 
    (reqs : list bytes) (sfs : list sfilter),
  sfs <> [] ->
  kreqs reqs ->
  Forall (sf_ok name_pre desc_pre reqs fuel) sfs ->
  1 <= fuel ->
  exists (text : bytes) (ns nps : list node),
    render_set gen_tables loaded fuel name_pre desc_pre
      {| bs_requires := reqs; bs_filters := map sf_bf sfs |} = BOk text /\
    parse gen_tables text = Accept ns /\
    Forall2 (parsed_as name_pre desc_pre) sfs nps /\
    match reqs with
    | [] => ns = nps
    | _ :: _ => ns = req_pnode reqs :: nps
    end /\
    wf_tops gen_tables (loaded_after reqs) (prev_after reqs)
      (map (fun x : sfilter => (sf_cms name_pre desc_pre x, sf_g x)) sfs) nps
      (loaded_after reqs).
Proof. exact BuildSet.factory_set_accepted. Qed.
Print Assumptions C06_set_accepted.

(* histories: from every set reached by the editing operations (addfilter/updatefilter with documented definitions; replace/remove/enable/disable/move) the next documented operation does not raise *)
Theorem C06_history_runs :
  forall (loaded : list bytes) (st : bstate) (o : bop),
  reach loaded st ->
  bop_ok (b_next st) o ->
  exists st' : bstate, bapply loaded o st = BOk st' /\ reach loaded st'.
Proof. exact BuildHistory.history_runs. Qed.
Print Assumptions C06_history_runs.

(* ... and the text of every reachable non-empty set is accepted by the parser (and loads back as the same set: C11) *)
Theorem C06_history_accepted :
  forall (loaded : list bytes) (st : bstate) (name_pre desc_pre : bytes) (fuel : nat),
  reach loaded st ->
  b_set st <> [] ->
  5 <= fuel ->
  marker_ok name_pre ->
  marker_ok desc_pre ->
  names_ok name_pre desc_pre (b_set st) ->
  exists (text : bytes) (ns : list node) (lfs : list lfilter),
    b_render gen_tables loaded fuel name_pre desc_pre st = BOk text /\
    parse gen_tables text = Accept ns /\
    from_parser_result name_pre desc_pre ns = (b_reqs st, lfs) /\
    map (fun f : lfilter => (lf_name f, lf_desc f, lf_enabled f)) lfs =
    map (fun f : filter => (f_name f, desc_text (f_desc f), f_enabled f)) (b_set st).
Proof. exact BuildHistory.history_reload. Qed.
Print Assumptions C06_history_accepted.

(* non-vacuity: a definition with ten condition forms and four action forms over hostile values (quotes, backslashes, commas, brackets, script fragments, a line feed, non-ASCII) meets the hypotheses *)
Theorem C06_example_hypotheses :
  Forall cond_ok ex_conds /\ Forall act_ok ex_acts /\ Forall act_plain ex_acts.
Proof. exact BuildSet.ex_ok. Qed.
Print Assumptions C06_example_hypotheses.

(* ... and, evaluated on the model: added, disabled, rendered, parsed -- require, then the disabled filter with its marker line *)
Theorem C06_example_pipeline :
  match
    b_addfilter gen_tables [] (bs "my filter") (map ctuple ex_conds) 
      (map atuple ex_acts) (bs "anyof") b_empty
  with
  | BOk (RNone, st) =>
      match
        b_render gen_tables [] 8 (bs "# Filter: ") (bs "# Description: ")
          (snd (b_step (FDisable (bs "my filter")) st))
      with
      | BOk text =>
          match parse gen_tables text with
          | Accept [rq] => False
          | Accept [rq; f] =>
              d_name (node_def rq) = bs "require" /\
              node_comments f = [bs "# Filter: my filter"] /\ is_if_false f = true
          | Accept (rq :: f :: _ :: _) => False
          | _ => False
          end
      | _ => False
      end
  | _ => False
  end.
Proof. exact BuildSet.ex_pipeline. Qed.
Print Assumptions C06_example_pipeline.

(* the quoted form of ANY value lexes as exactly one string token, whatever follows *)
Theorem C06_value_is_one_string_token :
  forall (pos : nat) (v : bytes) (rest : list N),
  next_token pos (quote v ++ rest) =
  LTok {| t_kind := TString; t_val := quote v; t_pos := pos |} rest.
Proof. exact TextFacts.next_token_quote. Qed.
Print Assumptions C06_value_is_one_string_token.

(* the string scanner consumes exactly the quoted form *)
Theorem C06_string_rule_length :
  forall (v : bytes) (rest : list N),
  scan_string (quote v ++ rest) = Some (Datatypes.length (quote v)).
Proof. exact TextFacts.scan_string_quote. Qed.
Print Assumptions C06_string_rule_length.

(* unescaping the token's content gives back the value: nothing added, nothing lost *)
Theorem C06_content_is_the_value :
  forall v : bytes, unescape_q (escape_q v) = v.
Proof. exact TextFacts.unescape_escape. Qed.
Print Assumptions C06_content_is_the_value.

(* a quoted list of ANY values: bracket, quoted items separated by commas, bracket; then the lexer continues with what follows *)
Theorem C06_list_token_structure :
  forall (vs : list bytes) (pos : nat) (rest : list N),
  vs <> [] ->
  next_n (2 * Datatypes.length vs + 1) pos (quote_list vs ++ rest) =
  Some
    ((TLeftBracket, [91%N]) :: commas (map fquote vs) ++ [(TRightBracket, [93%N])],
     pos + Datatypes.length (quote_list vs), rest).
Proof. exact TextFacts.next_n_quote_list. Qed.
Print Assumptions C06_list_token_structure.

(* a hostile value stays inside its string literal (computed on the model lexer) *)
Example C06_injection_attempt :
  next_n 5 0 (quote_list [bs "a""] { discard; } #"; bs "b\"] ++ bs " { keep; }") =
  Some ([(TLeftBracket, [91%N]); (TString, quote (bs "a""] { discard; } #")); (TComma, [44%N]);
         (TString, quote (bs "b\")); (TRightBracket, [93%N])],
        length (quote_list [bs "a""] { discard; } #"; bs "b\"]), bs " { keep; }").
Proof. vm_compute. reflexivity. Qed.
