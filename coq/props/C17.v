(* C17 — script names and bodies come back exactly as the server holds them.

   Model: ms/Client.v ([listscripts]/[parse_listing], [getscript]) after the two decoding
   repairs: read_response inserts every literal as a quoted string (quote_literals), so the
   assembled listing is [listing_resp es] and the assembled script is [quote body ++ ...]
   whichever encoding the server chose.  Proofs: ms/DecodeFacts.v (pure decoding), and
   C05/C09 for the reading.  The assembling step itself (read_response with ql = true producing
   exactly listing_resp / quote body) is exercised by the correspondence check, not proved. *)
From Coq Require Import List NArith Bool.
From SV Require Import Bytes Client DecodeFacts.
Import ListNotations.

(* names: any bytes but CR/LF — {5}, OK, "x" ACTIVE, quotes and backslashes come back verbatim *)
Theorem C17_listscripts :
  forall es1 n es2,
    Forall (fun e => name_ok (fst e)) (es1 ++ (n, true) :: es2) ->
    all_inactive es1 -> all_inactive es2 ->
    parse_listing (splitlines (listing_resp (es1 ++ (n, true) :: es2))) None []
    = (Some n, map fst es1 ++ map fst es2).
Proof. exact DecodeFacts.listscripts_exact. Qed.
Print Assumptions C17_listscripts.

Theorem C17_listscripts_no_active :
  forall es, Forall (fun e => name_ok (fst e)) es -> all_inactive es ->
             parse_listing (splitlines (listing_resp es)) None [] = (None, map fst es).
Proof. exact DecodeFacts.listscripts_exact_none. Qed.
Print Assumptions C17_listscripts_no_active.

(* bodies: ANY octets; the value returned is the lines of the body joined by LF *)
Theorem C17_getscript_value :
  forall body r,
    match scan_quoted (quote body ++ r) with
    | Some (b, _) => join [10] (splitlines (unescape_q b))
    | None => []
    end = join [10] (splitlines body).
Proof. exact DecodeFacts.getscript_value. Qed.
Print Assumptions C17_getscript_value.

(* every line intact, line endings normalised, at most trailing blank lines differ *)
Theorem C17_lines_preserved :
  forall body,
    drop_trailing_empty (splitlines (join [10] (splitlines body)))
    = drop_trailing_empty (splitlines body).
Proof. exact DecodeFacts.lines_preserved. Qed.
Print Assumptions C17_lines_preserved.

Theorem C17_quote_roundtrip : forall l r, scan_quoted (quote l ++ r) = Some (escape_q l, r).
Proof. exact DecodeFacts.scan_quoted_quote. Qed.
Theorem C17_unescape : forall l, unescape_q (escape_q l) = l.
Proof. exact DecodeFacts.unescape_escape. Qed.
Print Assumptions C17_quote_roundtrip.
Print Assumptions C17_unescape.
