(* C17 — script names and bodies come back exactly as the server holds them.

   Model: ms/Client.v ([listscripts]/[parse_listing], [getscript]) after the two decoding
   repairs: read_response inserts every literal as a quoted string (quote_literals), so the
   assembled listing is [listing_resp es] and the assembled script is [quote body ++ ...]
   whichever encoding the server chose.  Proofs: ms/DecodeFacts.v (pure decoding), ms/DataFacts.v
   (the assembling step: read_response with ql = true produces exactly listing_resp / quote body for
   every mix of quoted strings and literals), ms/SessionData.v (both operations end to end against the
   reference server), and C05/C09 for the reading of segments and status replies. *)
From Coq Require Import String List NArith Bool.
From SV Require Import Bytes Client Transport Server StatusFacts DecodeFacts DataFacts SessionFacts SessionData.
Import ListNotations.

(* names: any bytes but CR/LF — {5}, OK, "x" ACTIVE, quotes and backslashes come back verbatim *)
Theorem C17_listscripts :
  forall es1 n es2,
    Forall (fun e => name_ok (fst e)) (es1 ++ (n, true) :: es2) ->
    all_inactive es1 -> all_inactive es2 ->
    parse_listing (splitlines (listing_resp (es1 ++ (n, true) :: es2))) None []
    = (Some n, map fst es1 ++ map fst es2).
Proof. exact DecodeFacts.listscripts_exact. Qed.
Print Assumptions C17_listscripts.

Theorem C17_listscripts_no_active :
  forall es, Forall (fun e => name_ok (fst e)) es -> all_inactive es ->
             parse_listing (splitlines (listing_resp es)) None [] = (None, map fst es).
Proof. exact DecodeFacts.listscripts_exact_none. Qed.
Print Assumptions C17_listscripts_no_active.

(* bodies: ANY octets; the value returned is the lines of the body joined by LF *)
Theorem C17_getscript_value :
  forall body r,
    match scan_quoted (quote body ++ r) with
    | Some (b, _) => join [10] (splitlines (unescape_q b))
    | None => []
    end = join [10] (splitlines body).
Proof. exact DecodeFacts.getscript_value. Qed.
Print Assumptions C17_getscript_value.

(* every line intact, line endings normalised, at most trailing blank lines differ *)
Theorem C17_lines_preserved :
  forall body,
    drop_trailing_empty (splitlines (join [10] (splitlines body)))
    = drop_trailing_empty (splitlines body).
Proof. exact DecodeFacts.lines_preserved. Qed.
Print Assumptions C17_lines_preserved.

Theorem C17_quote_roundtrip : forall l r, scan_quoted (quote l ++ r) = Some (escape_q l, r).
Proof. exact DecodeFacts.scan_quoted_quote. Qed.
Theorem C17_unescape : forall l, unescape_q (escape_q l) = l.
Proof. exact DecodeFacts.unescape_escape. Qed.
Print Assumptions C17_quote_roundtrip.
Print Assumptions C17_unescape.

(* ---- end to end against the reference server, whatever encodings it chooses *)

(* the assembling step *)
Theorem C17_assemble_listing :
  forall (P : Type) (react : P -> bytes -> P * bytes) (oc ot : P -> option (P * bytes))
         es r f resp cpt st k (w : sworld P) rest,
    Forall (fun x => name_ok (fst (fst x))) es -> reply_ok r ->
    s_stream P w = listing_stream es ++ render_reply r ++ rest ->
    interp_s P react oc ot (read_response (S (length es + f)) None true resp cpt st k) w =
    match r_status r with
    | StOK => interp_s P react oc ot (k st (Some (bs "OK")) (data_of r) (resp ++ listing_resp (map fst es))) (s_set P rest w)
    | StNO => interp_s P react oc ot (k (set_err (code_of r) (text_of r) st) (Some (bs "NO")) (data_of r)
                                        (resp ++ listing_resp (map fst es))) (s_set P rest w)
    | StBYE => (OFail ExBye st, s_set P (after_line r ++ rest) w)
    end.
Proof. exact DataFacts.read_response_listing. Qed.
Print Assumptions C17_assemble_listing.

(* LISTSCRIPTS: exactly the names of the store, the active one apart *)
Theorem C17_listscripts_end_to_end :
  forall f st (w : sworld sstate),
    c_auth st = true -> s_stream sstate w = [] -> conforming (s_peer sstate w) -> names_ok (s_peer sstate w) ->
    let s := s_peer sstate w in
    let es := listing_entries (s_store s) (s_active s) in
    fst (interp_s sstate srv_react srv_connect srv_tls (listscripts (S (length (s_store s) + f)) st finish) w) =
    ODone (VListing (last_active es) (map fst (filter (fun e => negb (snd e)) es))) st.
Proof.
  intros f st w Ha Hs Hc Hn s es.
  destruct (SessionData.listscripts_against_server f st w Ha Hs Hc Hn) as (s3 & R & _).
  fold s in R. fold es in R. rewrite R. reflexivity.
Qed.
Print Assumptions C17_listscripts_end_to_end.

(* GETSCRIPT: exactly the lines of the stored script *)
Theorem C17_getscript_end_to_end :
  forall f name content st (w : sworld sstate),
    c_auth st = true -> s_stream sstate w = [] -> conforming (s_peer sstate w) ->
    assoc_get name (s_store (s_peer sstate w)) = Some content ->
    fst (interp_s sstate srv_react srv_connect srv_tls (getscript (S (S (S f))) name st finish) w) =
    ODone (VBytes (join [10%N] (splitlines content))) st.
Proof.
  intros f name content st w Ha Hs Hc Hg.
  destruct (SessionData.getscript_against_server f name content st w Ha Hs Hc Hg) as (s3 & R & _).
  rewrite R. reflexivity.
Qed.
Print Assumptions C17_getscript_end_to_end.
