(* C20 — registered custom commands are parsed and printed according to their definition.

   The model (ArgCheck / Machine / Printer) is parametric in the command tables, so a registered
   command is just one more table entry ([register], the model of commands.add_commands).
   Proved (sieve/ArgCheckFacts.v, sieve/RegisterFacts.v), for EVERY definition of the documented
   shape ([wf_def]: optional tag slots — with or without a typed parameter, value set, valid_for —
   followed by at least one required positional) and every table:
     - the parser's argument interpreter accepts exactly the uses the definition allows and records
       the arguments under the defined names (C20_argcheck_generic);
     - the command is found under its name in any letter case, other names are unaffected, names
       that are not registered remain unknown (C20_lookup_registered, C20_lookup_other, C20_unregistered_unknown), and its extension is demanded
       (C20_extension_gate);
     - registering a well-formed definition keeps the tables well-formed, so C07's invariant
       applies to scripts using it (C20_register_wf).
     - serialisation: the round-trip theorem of C04 is stated for any tables satisfying two decidable conditions;
       registering a definition that satisfies their per-definition parts ([def_ok]: argument names distinct,
       no slot taking both numbers and strings, the name an identifier; [twf]) keeps them
       (C20_register_keeps_conditions), hence every printable script of the grammar over the extended tables is
       printed to a text that is accepted, parses to a tree with the same content and prints to the same text
       again (C20_registered_roundtrip); example with a command registered on top of the generated tables.
   The registration path of the implementation (commands.add_commands) is compared with [register] by
   definitions registered at run time (correspondence). *)
From Coq Require Import String.
From Coq Require Import List NArith Bool Arith.
From SV Require Import Bytes Lexer Tables ArgCheck ArgSpec Machine Printer GenTables.
Import ListNotations.
Local Open Scope nat_scope.
From SV Require Import ArgCheckFacts GateFacts RegisterFacts PositionFacts TotalFacts CompleteFacts CompleteTree RenderFacts PrintTree CanonFacts CanonTree RegisterTree.

(* generic in the definition: complete / incomplete / rejected exactly as [legal] says, values under the defined names *)
Theorem C20_argcheck_generic :
  forall (d : cmddef) (a : attach) (loaded : list bytes) (args : list argument),
  wf_def d = true ->
  fixed_arity d = true ->
  Forall (fun x : argument => arg_shape_ok x = true) args -> corr_stmt d a loaded args.
Proof. exact ArgCheckFacts.argcheck_correct_gen. Qed.
Print Assumptions C20_argcheck_generic.

(* the side condition is necessary *)
Theorem C20_fixed_arity_needed :
  forall (d : cmddef) (loaded : list bytes),
  wf_def d = true -> fixed_arity d = false -> ~ corr_stmt d AtTop loaded [].
Proof. exact ArgCheckFacts.fixed_arity_necessary. Qed.
Print Assumptions C20_fixed_arity_needed.

(* a registered command is found, in any letter case *)
Theorem C20_lookup_registered :
  forall (T : tables) (key : bytes) (d : cmddef) (name : bytes),
  lower name = key -> lookup_cmd (register key d T) (lower name) = Some d.
Proof. exact RegisterFacts.lookup_registered. Qed.
Print Assumptions C20_lookup_registered.

(* other names are unaffected by a registration *)
Theorem C20_lookup_other :
  forall (T : tables) (key : bytes) (d : cmddef) (k : bytes),
  k <> key -> lookup_cmd (register key d T) k = lookup_cmd T k.
Proof. exact RegisterFacts.lookup_other. Qed.
Print Assumptions C20_lookup_other.

(* unregistered names remain unknown commands *)
Theorem C20_unregistered_unknown :
  forall (T : tables) (key : bytes) (d : cmddef) (loaded : list bytes) (name : bytes),
  lower name <> key ->
  lookup_cmd T (lower name) = None ->
  get_command_instance (register key d T) loaded name = inr (EUnknownCommand name).
Proof. exact RegisterFacts.unregistered_unknown. Qed.
Print Assumptions C20_unregistered_unknown.

(* a registered command without extension is instantiated *)
Theorem C20_no_extension :
  forall (T : tables) (key : bytes) (d : cmddef) (loaded : list bytes) (name : bytes),
  lower name = key ->
  d_extension d = None -> get_command_instance (register key d T) loaded name = inl d.
Proof. exact RegisterFacts.registered_no_extension. Qed.
Print Assumptions C20_no_extension.

(* a registered command with an extension is refused with extension-not-loaded until it is required *)
Theorem C20_extension_gate :
  forall (T : tables) (key : bytes) (d : cmddef) (loaded : list bytes) 
    (name : bytes) (c : N) (e : list N),
  lower name = key ->
  d_extension d = Some (c :: e) ->
  get_command_instance (register key d T) loaded name =
  (if mem (c :: e) loaded then inl d else inr (EExtNotLoaded (c :: e))).
Proof. exact RegisterFacts.registered_extension_gate. Qed.
Print Assumptions C20_extension_gate.

(* registration preserves table well-formedness (C07's invariant applies) *)
Theorem C20_register_wf :
  forall (T : tables) (key : bytes) (d : cmddef),
  wf_tables T = true -> def_wf d = true -> wf_tables (register key d T) = true.
Proof. exact RegisterFacts.register_wf. Qed.
Print Assumptions C20_register_wf.

(* registering a definition that is [def_ok] under its lower-cased name keeps the table conditions of the round-trip theorem *)
Theorem C20_register_keeps_conditions :
  forall (T : tables) (key : bytes) (d : cmddef),
  tbl_ok T = true ->
  key = lower (d_name d) -> def_ok d = true -> tbl_ok (register key d T) = true.
Proof. exact RegisterTree.register_tbl_ok. Qed.
Print Assumptions C20_register_keeps_conditions.

(* scripts using registered commands: printed text accepted, same content, same text again *)
Theorem C20_registered_roundtrip :
  forall (T0 : tables) (key : bytes) (d : cmddef) (cs : list gcmd) 
    (ns : list node) (L' : list bytes) (f : nat),
  tbl_ok T0 = true ->
  twf_tables T0 = true ->
  key = lower (d_name d) ->
  def_ok d = true ->
  twf d = true ->
  wf_cmds (register key d T0) [] None cs ns L' ->
  Forall cmd_pr cs ->
  cs <> [] ->
  fold_right (fun (x : gcmd) (m : nat) => Nat.max (dc x) m) 0 cs <= f ->
  exists ns' : list node,
    parse (register key d T0) (tosieve_all f ns) = Accept ns' /\
    Forall2 nsim ns' ns /\ tosieve_all f ns' = tosieve_all f ns.
Proof. exact RegisterTree.registered_print_parse. Qed.
Print Assumptions C20_registered_roundtrip.

(* non-vacuity: a definition with a tag group, a tag with a numeric parameter and a string/list positional meets the conditions *)
Theorem C20_example_definition :
  def_ok ex_def = true /\ twf ex_def = true /\ wf_def ex_def = true.
Proof. exact RegisterTree.ex_def_ok. Qed.
Print Assumptions C20_example_definition.

(* ... and, evaluated: parsed in mixed case with tags out of order, printed in definition order, re-parsed, printed again *)
Theorem C20_example_roundtrip :
  match parse ex_T (bs "MyTag :level 3 :SLOW [""a,b"", ""c\""d""]; mytag ""x"";") with
  | Accept ns =>
      tosieve_all 3 ns =
      bs "mytag :SLOW :level 3 [""a,b"", ""c\""d""];" ++ [10%N] ++ bs "mytag ""x"";" ++ [10%N] /\
      match parse ex_T (tosieve_all 3 ns) with
      | Accept ns' => tosieve_all 3 ns' = tosieve_all 3 ns
      | _ => False
      end
  | _ => False
  end.
Proof. exact RegisterTree.ex_registered_roundtrip. Qed.
Print Assumptions C20_example_roundtrip.

(* end to end for a registered action (instantiate T := register key d T0, lookup by C20_no_extension): every use the definition allows is accepted and recorded under the defined names *)
Theorem C20_registered_action_parsed :
  forall (T : tables) (text name : bytes) (d : cmddef) (args : list argument)
    (am em : list (bytes * aval)),
  twf_tables T = true ->
  snd (lex text) = None ->
  map strip_pos (fst (lex text)) =
  mk TIdentifier name :: flat_map arg_toks args ++ [mk TSemicolon [59%N]] ->
  get_command_instance T [] name = inl d ->
  d_type d = CAction ->
  d_complete d = HNone ->
  d_must_follow d = None ->
  wf_def d = true ->
  fixed_arity d = true ->
  Forall arg_ok args ->
  legal d [] args = LComplete am em -> parse T text = Accept [Node d am em [] []].
Proof. exact CompleteFacts.parse_single_action. Qed.
Print Assumptions C20_registered_action_parsed.
