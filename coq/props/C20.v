(* C20 — statements are added when the corresponding facts file lands *)
From SV Require Import Bytes Lexer Tables ArgCheck Machine Printer GenTables.
Theorem C20_placeholder : True. Proof. exact I. Qed.
