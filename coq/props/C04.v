(* C04 — serialising a parsed script yields an equivalent script (print/parse round trip).

   Proved here (sieve/LexerFacts.v over sieve/Lexer.v and sieve/Printer.v): the part of C04 that is about
   values — "string and list values survive unchanged whatever characters they contain".
     (a) every string token the lexer delivers is an exact string token (its text alone is matched
         completely by the string rule) — so is every value the parser stores from one;
     (b) an exact string token is printed as it is by the (repaired) list-item printer and is lexed back as
         the same single token, whatever follows it, also after the blank the printer writes;
     (c) a printed list of exact string tokens is lexed back as '[' item (',' item)* ']', whatever the items
         contain and whatever follows.
   Tree level (sieve/RenderFacts.v, sieve/PrintTree.v), for every script derivable in the grammar wf_cmds of
   CompleteTree whose tree is in CANONICAL FORM [canon_cmd] — command names spelled as in their definitions,
   arguments written in definition order with each optional slot at most once, values that are quoted
   strings, multi-line (`text:`) strings, numbers, tags or non-empty lists of quoted strings.  A multi-line
   string ends with its own line feed, which the layout carries into the white space before the next token
   ([carry_of], [args_carry], [tcarry]) exactly as Command.tosieve does:
     (d) the lexer inverts rendering: well-formed tokens written with any white space between them (none where
         two tokens cannot merge) are lexed back as exactly those tokens (C04_lex_render);
     (e) the text the model of Command.tosieve prints for such a tree IS the layout of the script's tokens
         (one command per line, four spaces per level, ", " in lists) (C04_tosieve_layout);
     (f) hence it is accepted and parses to EXACTLY the tree that was printed, and printing that tree again
         gives the same text (C04_print_parse_roundtrip, C04_print_fixed_point) — unbounded over tables,
         scripts, nesting depth, values.
     (g) every legal argument list has a canonical reordering with the same meaning (sieve/CanonFacts.v:
         C04_legal_canonical -- the arguments read off the maps in definition order are legal again and give
         maps with the same value under every key), hence every script of the grammar has a canonical twin
         whose tree has the same content and the SAME printed text (sieve/CanonTree.v), and so for EVERY
         printable script of the grammar, whatever the order of its arguments and with repeated tags: the
         printed text of its tree is accepted, parses to a tree with the same content [nsim] (same
         definitions, same value under every key, same nesting and order), and printing that tree gives the
         same text (C04_print_parse_general).  Table conditions [tbl_ok] (names consistent and identifiers,
         argument names distinct, no slot taking both numbers and strings) are re-checked by computation on
         the tables regenerated from /repo.
   Not proved: the commands outside wf_def (known findings); a multi-line string inside a string LIST
   (the lexer accepts it there, the grammar of CompleteTree does not generate it).  The printer model is tied to commands.py by comparing the printed text of every accepted
   input, and the round trip itself (print, re-parse, compare trees as maps, print again, compare text) is
   evaluated on the implementation over enumerations, generated
   scripts, layouts, mutants, repeated tags and a quoting-edge value generator. *)
From Coq Require Import String.
From Coq Require Import List NArith Bool Arith.
From SV Require Import Bytes Lexer Tables ArgCheck ArgSpec Machine Printer GenTables.
Import ListNotations.
Local Open Scope nat_scope.
From SV Require Import TotalFacts LexerFacts CompleteFacts CompleteTree CompleteExamples RenderFacts PrintTree CanonFacts CanonTree PrintExamples.
From SV Require Import LexRules.

(* every string token delivered by the lexer is an exact string token *)
Theorem C04_lexed_strings_exact :
  forall (pos : nat) (l : bytes) (t : token) (rest : bytes),
  next_token pos l = LTok t rest -> t_kind t = TString -> exact_string (t_val t).
Proof. exact LexerFacts.lexed_strings_exact. Qed.
Print Assumptions C04_lexed_strings_exact.

(* the list-item printer leaves a string token alone, whatever it contains *)
Theorem C04_item_printed_unchanged :
  forall s : bytes, exact_string s -> print_item s = s.
Proof. exact LexerFacts.print_item_exact. Qed.
Print Assumptions C04_item_printed_unchanged.

(* a printed string token is lexed back as the same single token, whatever follows *)
Theorem C04_string_lexes_back :
  forall (pos : nat) (s : bytes) (rest : list N),
  exact_string s ->
  next_token pos (s ++ rest) = LTok {| t_kind := TString; t_val := s; t_pos := pos |} rest.
Proof. exact LexerFacts.next_token_exact. Qed.
Print Assumptions C04_string_lexes_back.

(* ... also after the blank the printer writes before a value *)
Theorem C04_string_lexes_back_after_blank :
  forall (pos : nat) (s : bytes) (rest : list N),
  exact_string s ->
  next_token pos (32%N :: s ++ rest) =
  LTok {| t_kind := TString; t_val := s; t_pos := S pos |} rest.
Proof. exact LexerFacts.next_token_exact_sp. Qed.
Print Assumptions C04_string_lexes_back_after_blank.

(* a printed list is lexed back as bracket, the same items separated by commas, bracket *)
Theorem C04_list_lexes_back :
  forall (items : list bytes) (pos : nat) (rest : list N),
  items <> [] ->
  Forall exact_string items ->
  next_n (2 * Datatypes.length items + 1) pos (print_items items ++ rest) =
  Some ((TLeftBracket, [91%N]) :: commas items ++ [(TRightBracket, [93%N])], rest).
Proof. exact LexerFacts.printed_list_lexes_back. Qed.
Print Assumptions C04_list_lexes_back.

(* the lexer inverts rendering, for every token kind and every white space *)
Theorem C04_lex_render :
  forall (l : list ltok) (wend : bytes),
  lchain l wend ->
  all_space wend ->
  snd (lex (lrender l ++ wend)) = None /\
  map strip_pos (fst (lex (lrender l ++ wend))) = ltoks l.
Proof. exact RenderFacts.lex_lrender. Qed.
Print Assumptions C04_lex_render.

(* the tosieve layout of a printable script is lexed back as the tokens of the script *)
Theorem C04_layout_lexes :
  forall sepw : bytes -> bytes,
  (forall name : bytes, all_space (sepw name)) ->
  forall cs : list gcmd,
  Forall cmd_pr cs ->
  snd (lex (script_text sepw cs)) = None /\
  map strip_pos (fst (lex (script_text sepw cs))) = flat_map toks_cmd cs.
Proof. exact PrintTree.layout_lexes. Qed.
Print Assumptions C04_layout_lexes.

(* ... and parses to its tree *)
Theorem C04_layout_parses :
  forall sepw : bytes -> bytes,
  (forall name : bytes, all_space (sepw name)) ->
  forall (T : tables) (cs : list gcmd) (ns : list node) (L' : list bytes),
  twf_tables T = true ->
  wf_cmds T [] None cs ns L' -> Forall cmd_pr cs -> parse T (script_text sepw cs) = Accept ns.
Proof. exact PrintTree.layout_parses. Qed.
Print Assumptions C04_layout_parses.

(* the model of Command.tosieve prints exactly that layout for a tree in canonical form *)
Theorem C04_tosieve_layout :
  forall sepw : bytes -> bytes,
  (forall name : bytes, all_space (sepw name)) ->
  forall (cs : list gcmd) (ns : list node) (f : nat),
  Forall2 (canon_cmd sepw) cs ns ->
  cs <> [] ->
  fold_right (fun (x : gcmd) (m : nat) => Nat.max (dc x) m) 0 cs <= f ->
  tosieve_all f ns = script_text sepw cs.
Proof. exact PrintTree.tosieve_layout. Qed.
Print Assumptions C04_tosieve_layout.

(* tree level: parse (print tree) = tree *)
Theorem C04_print_parse_roundtrip :
  forall sepw : bytes -> bytes,
  (forall name : bytes, all_space (sepw name)) ->
  forall (T : tables) (cs : list gcmd) (ns : list node) (L' : list bytes) (f : nat),
  twf_tables T = true ->
  wf_cmds T [] None cs ns L' ->
  Forall2 (canon_cmd sepw) cs ns ->
  cs <> [] ->
  fold_right (fun (x : gcmd) (m : nat) => Nat.max (dc x) m) 0 cs <= f ->
  parse T (tosieve_all f ns) = Accept ns.
Proof. exact PrintTree.print_parse_roundtrip. Qed.
Print Assumptions C04_print_parse_roundtrip.

(* printing the re-parsed tree reproduces the text *)
Theorem C04_print_fixed_point :
  forall sepw : bytes -> bytes,
  (forall name : bytes, all_space (sepw name)) ->
  forall (T : tables) (cs : list gcmd) (ns : list node) (L' : list bytes) (f : nat),
  twf_tables T = true ->
  wf_cmds T [] None cs ns L' ->
  Forall2 (canon_cmd sepw) cs ns ->
  cs <> [] ->
  fold_right (fun (x : gcmd) (m : nat) => Nat.max (dc x) m) 0 cs <= f ->
  match parse T (tosieve_all f ns) with
  | Accept ns' => tosieve_all f ns' = tosieve_all f ns
  | _ => False
  end.
Proof. exact PrintTree.print_fixed_point. Qed.
Print Assumptions C04_print_fixed_point.

(* the canonical reordering of a legal argument list: legal again, same content, and it is what the maps say in definition order *)
Theorem C04_legal_canonical :
  forall (d : cmddef) (L : list bytes) (args : list argument) (am em : list (bytes * aval)),
  wf_def d = true ->
  def_ok d = true ->
  Forall argP args ->
  legal d L args = LComplete am em ->
  exists (cargs : list argument) (am' em' : list (bytes * aval)),
    legal d L cargs = LComplete am' em' /\
    meq am' am /\
    meq em' em /\ slots_args [32%N] d am em (d_args d) cargs /\ Forall argP cargs.
Proof. exact CanonFacts.legal_canonical. Qed.
Print Assumptions C04_legal_canonical.

(* every well-formed printable script has a canonical twin: same content, same printed text *)
Theorem C04_canonical_twin :
  forall T : tables,
  tbl_ok T = true ->
  forall (L : list bytes) (prev : option bytes) (cs : list gcmd) (ns : list node)
    (L' : list bytes), wf_cmds T L prev cs ns L' -> Qcs T L prev cs ns L'.
Proof. exact CanonTree.canon_of_cmds. Qed.
Print Assumptions C04_canonical_twin.

(* tree level, whole grammar, any argument order: parse (print tree) has the same content as tree and prints to the same text *)
Theorem C04_print_parse_general :
  forall T : tables,
  tbl_ok T = true ->
  twf_tables T = true ->
  forall (cs : list gcmd) (ns : list node) (L' : list bytes) (f : nat),
  wf_cmds T [] None cs ns L' ->
  Forall cmd_pr cs ->
  cs <> [] ->
  fold_right (fun (x : gcmd) (m : nat) => Nat.max (dc x) m) 0 cs <= f ->
  exists ns' : list node,
    parse T (tosieve_all f ns) = Accept ns' /\
    Forall2 nsim ns' ns /\ tosieve_all f ns' = tosieve_all f ns.
Proof. exact CanonTree.print_parse_general. Qed.
Print Assumptions C04_print_parse_general.

(* non-vacuity: a script with upper-case names, tags out of order and a repeated tag *)
Theorem C04_example_general :
  forall (ns : list node) (L' : list bytes),
  wf_cmds gen_tables [] None ex2_script ns L' ->
  exists ns' : list node,
    parse gen_tables (tosieve_all 5 ns) = Accept ns' /\
    Forall2 nsim ns' ns /\ tosieve_all 5 ns' = tosieve_all 5 ns.
Proof. exact PrintExamples.ex2_roundtrip. Qed.
Print Assumptions C04_example_general.

(* non-vacuity: a script whose value is a `text:` block (the line feed after the block is carried into the layout) *)
Theorem C04_example_multiline :
  forall (ns : list node) (L' : list bytes),
  wf_cmds gen_tables [] None ex_ml_script ns L' ->
  exists ns' : list node,
    parse gen_tables (tosieve_all 3 ns) = Accept ns' /\
    Forall2 nsim ns' ns /\ tosieve_all 3 ns' = tosieve_all 3 ns.
Proof. exact PrintExamples.ex_ml_roundtrip. Qed.
Print Assumptions C04_example_multiline.

(* non-vacuity on the tables generated from /repo: the tree of the example script (require, if/elsif/else, anyof, not, nested blocks, tags with parameters, numbers, lists) is canonical *)
Theorem C04_example_canonical :
  Forall2 (canon_cmd std_sep) ex_script ex_nodes.
Proof. exact PrintExamples.ex_canon. Qed.
Print Assumptions C04_example_canonical.

(* ... and the theorem gives its round trip *)
Theorem C04_example_roundtrip :
  parse gen_tables (tosieve_all 5 ex_nodes) = Accept ex_nodes.
Proof. exact PrintExamples.ex_roundtrip. Qed.
Print Assumptions C04_example_roundtrip.

(* non-vacuity: hostile contents are exact string tokens; and the model round trip on a concrete script *)
Example C04_exact_examples :
  Forall exact_string [bs """a\""b"""; bs """back\\slash"""; bs """[x], """; bs """two" ++ [10%N] ++ bs "lines"""; bs """"""].
Proof. repeat constructor; vm_compute; reflexivity. Qed.

Example C04_model_roundtrip :
  let src := bs "require [""fileinto"", ""a\""b""]; if anyof (header :contains [""x,y"", ""]""] ""\\"", not exists ""z"") { fileinto ""[a]""; }" in
  match parse gen_tables src with
  | Accept r =>
      let out := tosieve_all 10 r in
      match parse gen_tables out with
      | Accept r2 => tosieve_all 10 r2 = out
      | _ => False
      end
  | _ => False
  end.
Proof. vm_compute. reflexivity. Qed.

(* Parser.lrules of the working tree are the regular expressions the scanners of sieve/Lexer.v were translated from *)
Example C04_lexer_rules : gen_lrules = expected_lrules.
Proof. vm_compute. reflexivity. Qed.
