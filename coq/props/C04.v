(* C04 — serialising a parsed script yields an equivalent script (print/parse round trip).

   Proved here (sieve/LexerFacts.v over sieve/Lexer.v and sieve/Printer.v): the part of C04 that is about
   values — "string and list values survive unchanged whatever characters they contain".
     (a) every string token the lexer delivers is an exact string token (its text alone is matched
         completely by the string rule) — so is every value the parser stores from one;
     (b) an exact string token is printed as it is by the (repaired) list-item printer and is lexed back as
         the same single token, whatever follows it, also after the blank the printer writes;
     (c) a printed list of exact string tokens is lexed back as '[' item (',' item)* ']', whatever the items
         contain and whatever follows.
   Not proved: the tree-level statement (tosieve of an accepted tree re-parses to an equal tree and printing
   is a fixed point).  The printer model (sieve/Printer.v: definition-order traversal, tag + parameter,
   test lists, indentation, the newline after a multi-line string) is tied to commands.py by comparing the
   printed text of every accepted input, and the round trip itself (print, re-parse, compare trees as maps,
   print again, compare text) is evaluated on the implementation over enumerations, generated scripts,
   layouts, mutants and a quoting-edge value generator. *)
From Coq Require Import String.
From Coq Require Import List NArith Bool Arith.
From SV Require Import Bytes Lexer Tables ArgCheck ArgSpec Machine Printer GenTables.
Import ListNotations.
Local Open Scope nat_scope.
From SV Require Import LexerFacts.

(* every string token delivered by the lexer is an exact string token *)
Theorem C04_lexed_strings_exact :
  forall (pos : nat) (l : bytes) (t : token) (rest : bytes),
  next_token pos l = LTok t rest -> t_kind t = TString -> exact_string (t_val t).
Proof. exact LexerFacts.lexed_strings_exact. Qed.
Print Assumptions C04_lexed_strings_exact.

(* the list-item printer leaves a string token alone, whatever it contains *)
Theorem C04_item_printed_unchanged :
  forall s : bytes, exact_string s -> print_item s = s.
Proof. exact LexerFacts.print_item_exact. Qed.
Print Assumptions C04_item_printed_unchanged.

(* a printed string token is lexed back as the same single token, whatever follows *)
Theorem C04_string_lexes_back :
  forall (pos : nat) (s : bytes) (rest : list N),
  exact_string s ->
  next_token pos (s ++ rest) = LTok {| t_kind := TString; t_val := s; t_pos := pos |} rest.
Proof. exact LexerFacts.next_token_exact. Qed.
Print Assumptions C04_string_lexes_back.

(* ... also after the blank the printer writes before a value *)
Theorem C04_string_lexes_back_after_blank :
  forall (pos : nat) (s : bytes) (rest : list N),
  exact_string s ->
  next_token pos (32%N :: s ++ rest) =
  LTok {| t_kind := TString; t_val := s; t_pos := S pos |} rest.
Proof. exact LexerFacts.next_token_exact_sp. Qed.
Print Assumptions C04_string_lexes_back_after_blank.

(* a printed list is lexed back as bracket, the same items separated by commas, bracket *)
Theorem C04_list_lexes_back :
  forall (items : list bytes) (pos : nat) (rest : list N),
  items <> [] ->
  Forall exact_string items ->
  next_n (2 * Datatypes.length items + 1) pos (print_items items ++ rest) =
  Some ((TLeftBracket, [91%N]) :: commas items ++ [(TRightBracket, [93%N])], rest).
Proof. exact LexerFacts.printed_list_lexes_back. Qed.
Print Assumptions C04_list_lexes_back.

(* non-vacuity: hostile contents are exact string tokens; and the model round trip on a concrete script *)
Example C04_exact_examples :
  Forall exact_string [bs """a\""b"""; bs """back\\slash"""; bs """[x], """; bs """two" ++ [10%N] ++ bs "lines"""; bs """"""].
Proof. repeat constructor; vm_compute; reflexivity. Qed.

Example C04_model_roundtrip :
  let src := bs "require [""fileinto"", ""a\""b""]; if anyof (header :contains [""x,y"", ""]""] ""\\"", not exists ""z"") { fileinto ""[a]""; }" in
  match parse gen_tables src with
  | Accept r =>
      let out := tosieve_all 10 r in
      match parse gen_tables out with
      | Accept r2 => tosieve_all 10 r2 = out
      | _ => False
      end
  | _ => False
  end.
Proof. vm_compute. reflexivity. Qed.
