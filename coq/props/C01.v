(* C01 — the parser accepts exactly the valid scripts of its supported language.

   Model: sieve/Lexer.v, sieve/ArgCheck.v, sieve/Machine.v over gen/GenTables.v (regenerated from
   /repo on every run).  Specification of "legal, correctly typed and correctly ordered
   arguments": sieve/ArgSpec.v [legal] (optional tag groups in any order, each tag possibly
   followed by a typed parameter, then the required positionals in order).
   Proved (sieve/ArgCheckFacts.v, sieve/MachineFacts.v):
     - the table interpreter implements that specification for every well-formed definition
       (C01_argcheck_correct, C01_accepts_iff_legal), including the values recorded;
     - structural soundness of acceptance: an accepted script has balanced brackets, no pending
       command, no pending expectation (C01_accept_final_state); a script is rejected as soon as
       a token does not fit (the machine is a fold over tokens that stops at the first failure).
     - completeness for whole scripts (sieve/CompleteTree.v): every sequence of commands derivable in the
       grammar [wf_cmds] -- `name args ;` with legal, complete arguments; `require` extending the loaded
       extensions for what follows; controls with one test and a block; tests with arguments, one-test
       tests (not) and parenthesised test lists (anyof / allof), nested to any depth; blocks nested to
       any depth; elsif / else only after the commands they must follow -- is accepted, with any layout
       (C01_script_complete, C01_parse_script, C01_layout_insensitive);
     - for ALL inputs: comments, white space and line endings do not influence the verdict
       (C01_comment_insensitive, sieve/CommentFacts.v);
     - parse_total (props/C02.v): every other outcome is a SieveParseError, never a crash or a hang.
     - the rejection side (sieve/RejectFacts.v): after EVERY prefix of a script of the grammar -- complete
       commands and `if <test> {` / `else {` openers nested to any depth (wf_prefix; C01_prefix_ready) -- each
       class of offending token named by the property stops the parse at that token, whatever follows: an
       unknown command or one whose extension is not loaded, a test in command position, a token that cannot
       start a command, '}' with no block open, anything but the name of a test after `if` (an action as a
       test, an unknown name, a string), an argument list the specification refuses (wrong type, wrong order,
       unknown tag, surplus argument, bad value of a tag's parameter: legal = LReject) at a token of one of
       the arguments, '{' after a command that takes no block, a command name where ';' is missing; `elsif` / `else` after a
       command they may not follow (at the closing brace); malformed string lists in the arguments of an action,
       an empty test list, the end of the text with a block open or a command unfinished;
   The converse (soundness of acceptance with respect to the RFC 5228 generic grammar) is NOT proved in
   general: the rejection classes above and the structural theorem C01_accept_final_state are, and the executable oracle
   harness/sieve_spec.py (generic grammar + frozen signatures) is compared with the implementation on the
   exhaustive token enumeration, the structure cases and the generated scripts by the check, and the model
   is compared with the implementation on the same inputs. *)
From Coq Require Import String.
From Coq Require Import List NArith Bool Arith.
From SV Require Import Bytes Lexer Tables ArgCheck ArgSpec Machine Printer GenTables.
Import ListNotations.
Local Open Scope nat_scope.
From SV Require Import ArgCheckFacts GateFacts PositionFacts TotalFacts CompleteFacts CompleteTree CompleteExamples CommentFacts RejectFacts RejectExamples.
From SV Require Import LexRules.

(* feeding an argument sequence to check_next_arg: complete / incomplete / rejected exactly as the specification says, with the same recorded values *)
Theorem C01_argcheck_correct :
  forall (d : cmddef) (loaded : list bytes) (args : list argument),
  wf_def d = true ->
  fixed_arity d = true ->
  Forall (fun a : argument => arg_shape_ok a = true) args ->
  match legal d loaded args with
  | LComplete am em =>
      exists f : frame,
        feed (new_frame d AtTop) args loaded = FOk f /\
        iscomplete f None = true /\ f_args f = am /\ f_extra f = em
  | LIncomplete am em =>
      exists f : frame,
        feed (new_frame d AtTop) args loaded = FOk f /\
        iscomplete f None = false /\ f_args f = am /\ f_extra f = em
  | LReject e => feed (new_frame d AtTop) args loaded = FStop e
  end.
Proof. exact ArgCheckFacts.argcheck_correct. Qed.
Print Assumptions C01_argcheck_correct.

(* acceptance of an argument list iff it is legal *)
Theorem C01_accepts_iff_legal :
  forall (d : cmddef) (loaded : list bytes) (args : list argument),
  wf_def d = true ->
  fixed_arity d = true ->
  Forall (fun a : argument => arg_shape_ok a = true) args ->
  (exists f : frame, feed (new_frame d AtTop) args loaded = FOk f /\ iscomplete f None = true) <->
  (exists am em : list (bytes * aval), legal d loaded args = LComplete am em).
Proof. exact ArgCheckFacts.accepts_iff_legal. Qed.
Print Assumptions C01_accepts_iff_legal.

(* no AttributeError inside the interpreter *)
Theorem C01_argcheck_never_crashes :
  forall (d : cmddef) (a : attach) (loaded : list bytes) (args : list argument),
  wf_def d = true ->
  fixed_arity d = true ->
  Forall (fun x : argument => arg_shape_ok x = true) args ->
  feed (new_frame d a) args loaded <> FCrash.
Proof. exact ArgCheckFacts.feed_never_crashes. Qed.
Print Assumptions C01_argcheck_never_crashes.

(* instantiated with every well-formed command of the tables generated from /repo *)
Theorem C01_generated_tables :
  forall (key : bytes) (d : cmddef) (loaded : list bytes) (args : list argument),
  lookup_cmd gen_tables key = Some d ->
  wf_def d = true ->
  Forall (fun a : argument => arg_shape_ok a = true) args -> corr_stmt d AtTop loaded args.
Proof. exact ArgCheckFacts.gen_tables_argcheck_correct. Qed.
Print Assumptions C01_generated_tables.

(* completeness for commands without tests and blocks: `name args ;` with legal, complete arguments is accepted (and the node carries exactly the specified maps) *)
Theorem C01_action_complete :
  forall (T : tables) (st : pstate) (name : bytes) (d : cmddef) (args : list argument)
    (am em : list (bytes * aval)),
  can_start st ->
  get_command_instance T (p_loaded st) name = inl d ->
  d_type d = CAction ->
  twf d = true ->
  d_complete d = HNone ->
  d_must_follow d = None ->
  wf_def d = true ->
  fixed_arity d = true ->
  Forall arg_ok args ->
  legal d (p_loaded st) args = LComplete am em ->
  exists cl : list bytes,
    steps T st (mk TIdentifier name :: flat_map arg_toks args ++ [mk TSemicolon [59%N]]) =
    Some
      {|
        p_stack := [];
        p_cstate := CNone;
        p_curlist := cl;
        p_expected := None;
        p_brackets := p_brackets st;
        p_loaded := p_loaded st;
        p_hash := [];
        p_result := p_result st ++ [Node d am em [] (p_hash st)]
      |}.
Proof. exact CompleteFacts.action_complete. Qed.
Print Assumptions C01_action_complete.

(* ... on texts, for every layout that lexes to these tokens (blanks, line endings) *)
Theorem C01_action_on_text :
  forall (T : tables) (text name : bytes) (d : cmddef) (args : list argument)
    (am em : list (bytes * aval)),
  twf_tables T = true ->
  snd (lex text) = None ->
  map strip_pos (fst (lex text)) =
  mk TIdentifier name :: flat_map arg_toks args ++ [mk TSemicolon [59%N]] ->
  get_command_instance T [] name = inl d ->
  d_type d = CAction ->
  d_complete d = HNone ->
  d_must_follow d = None ->
  wf_def d = true ->
  fixed_arity d = true ->
  Forall arg_ok args ->
  legal d [] args = LComplete am em -> parse T text = Accept [Node d am em [] []].
Proof. exact CompleteFacts.parse_single_action. Qed.
Print Assumptions C01_action_on_text.

(* every well-formed test (arguments, not, anyof/allof with nesting) drives the machine to the point where the test is left, with exactly its node *)
Theorem C01_run_test :
  forall (T : tables) (L : list bytes),
  twf_tables T = true -> forall (t : gtest) (n : node), wf_test T L t n -> Pst T L t n.
Proof. exact CompleteTree.run_test. Qed.
Print Assumptions C01_run_test.

(* every well-formed command sequence, at top level or inside a block, is consumed and emits exactly its nodes *)
Theorem C01_run_cmds :
  forall T : tables,
  twf_tables T = true ->
  forall (L : list bytes) (prev : option bytes) (cs : list gcmd) (ns : list node)
    (L' : list bytes), wf_cmds T L prev cs ns L' -> Pcmds T L prev cs ns L'.
Proof. exact CompleteTree.run_cmds. Qed.
Print Assumptions C01_run_cmds.

(* whole scripts: accepted from the initial state, ending with an empty stack, nothing expected, balanced brackets *)
Theorem C01_script_complete :
  forall (T : tables) (cs : list gcmd) (ns : list node) (L' : list bytes),
  twf_tables T = true ->
  wf_cmds T [] None cs ns L' ->
  exists st' : pstate,
    steps T p_init (flat_map toks_cmd cs) = Some st' /\
    p_stack st' = [] /\
    p_expected st' = None /\ p_brackets st' = [] /\ p_result st' = ns /\ p_loaded st' = L'.
Proof. exact CompleteTree.script_complete. Qed.
Print Assumptions C01_script_complete.

(* on texts: any text that lexes to the tokens of a well-formed script parses to exactly its tree *)
Theorem C01_parse_script :
  forall (T : tables) (text : bytes) (cs : list gcmd) (ns : list node) (L' : list bytes),
  twf_tables T = true ->
  snd (lex text) = None ->
  map strip_pos (fst (lex text)) = flat_map toks_cmd cs ->
  wf_cmds T [] None cs ns L' -> parse T text = Accept ns.
Proof. exact CompleteTree.parse_script. Qed.
Print Assumptions C01_parse_script.

(* two texts that lex to the same tokens (blanks, line endings, positions) get the same verdict, tree and error category *)
Theorem C01_layout_insensitive :
  forall (T : tables) (text1 text2 : bytes),
  twf_tables T = true ->
  map strip_pos (fst (lex text1)) = map strip_pos (fst (lex text2)) ->
  snd (lex text1) = None <-> snd (lex text2) = None ->
  same_outcome (parse T text1) (parse T text2).
Proof. exact CompleteFacts.layout_insensitive. Qed.
Print Assumptions C01_layout_insensitive.

(* for ALL texts: removing / adding / changing hash and bracket comments anywhere (and white space, positions) changes neither the verdict nor the error category nor the tree, except for the comments recorded on top-level commands *)
Theorem C01_comment_insensitive :
  forall (T : tables) (text1 text2 : bytes),
  twf_tables T = true ->
  map strip_pos (decomment (fst (lex text1))) = map strip_pos (decomment (fst (lex text2))) ->
  snd (lex text1) = None <-> snd (lex text2) = None ->
  outcome_eqc (parse T text1) (parse T text2).
Proof. exact CommentFacts.comment_insensitive. Qed.
Print Assumptions C01_comment_insensitive.

(* every transition of the machine commutes with forgetting the pending and the recorded comments *)
Theorem C01_transitions_ignore_comments :
  forall (T : tables) (t : token),
  t_kind t <> THashComment -> commutes (fun st : pstate => process T st t).
Proof. exact CommentFacts.process_commutes. Qed.
Print Assumptions C01_transitions_ignore_comments.

(* non-vacuity on the tables generated from /repo: a script with require, if/elsif/else, anyof, not, nested blocks, tags, numbers and lists is derivable, and its tree is what parse returns *)
Theorem C01_script_example :
  exists (L' : list bytes) (ns : list node),
    wf_cmds gen_tables [] None ex_script ns L' /\ parse gen_tables ex_text = Accept ns.
Proof. exact CompleteExamples.ex_wf. Qed.
Print Assumptions C01_script_example.

(* after every prefix of a script of the grammar (complete commands, block openers, any depth) the machine stands between commands with the extensions required so far *)
Theorem C01_prefix_ready :
  forall T : tables,
  twf_tables T = true ->
  forall (pre : list token) (L : list bytes) (prev : option bytes) (k : nat),
  wf_prefix T pre L prev k ->
  exists st : pstate,
    steps T p_init pre = Some st /\
    ready st /\
    p_loaded st = L /\
    prev_name (place_of st) = prev /\
    Datatypes.length (p_brackets st) = k /\
    Forall (fun b : bracket => b = BRCBracket) (p_brackets st).
Proof. exact RejectFacts.prefix_ready. Qed.
Print Assumptions C01_prefix_ready.

(* tokens the machine takes, then one it refuses: rejected with that error at that token, whatever follows *)
Theorem C01_reject_after_prefix :
  forall (T : tables) (text : bytes) (pre : list token) (t : token) 
    (rest : list token) (st : pstate) (e : perr),
  fst (lex text) = pre ++ t :: rest ->
  steps T p_init (map strip_pos pre) = Some st ->
  stops (process T st t) e -> parse T text = Reject e (t_pos t) (Datatypes.length (t_val t)).
Proof. exact RejectFacts.reject_after_prefix. Qed.
Print Assumptions C01_reject_after_prefix.

(* an unknown command / a command whose extension is not loaded, at any depth *)
Theorem C01_unknown_command_rejected :
  forall T : tables,
  twf_tables T = true ->
  forall (text : bytes) (pre : list token) (t : token) (rest : list token) 
    (L : list bytes) (prev : option bytes) (k : nat) (e : perr),
  wf_prefix T (map strip_pos pre) L prev k ->
  fst (lex text) = pre ++ t :: rest ->
  t_kind t = TIdentifier ->
  get_command_instance T L (t_val t) = inr e ->
  parse T text = Reject e (t_pos t) (Datatypes.length (t_val t)).
Proof. exact RejectFacts.unknown_command_rejected. Qed.
Print Assumptions C01_unknown_command_rejected.

(* a test in command position *)
Theorem C01_test_as_command_rejected :
  forall T : tables,
  twf_tables T = true ->
  forall (text : bytes) (pre : list token) (t : token) (rest : list token) 
    (L : list bytes) (prev : option bytes) (k : nat) (d : cmddef),
  wf_prefix T (map strip_pos pre) L prev k ->
  fst (lex text) = pre ++ t :: rest ->
  t_kind t = TIdentifier ->
  get_command_instance T L (t_val t) = inl d ->
  d_type d = CTest ->
  parse T text = Reject (EFirstCommand (d_name d)) (t_pos t) (Datatypes.length (t_val t)).
Proof. exact RejectFacts.test_as_command_rejected. Qed.
Print Assumptions C01_test_as_command_rejected.

(* a string, number, tag, bracket, comma, semicolon or '{' where a command must start *)
Theorem C01_no_command_start_rejected :
  forall T : tables,
  twf_tables T = true ->
  forall (text : bytes) (pre : list token) (t : token) (rest : list token) 
    (L : list bytes) (prev : option bytes) (k : nat),
  wf_prefix T (map strip_pos pre) L prev k ->
  fst (lex text) = pre ++ t :: rest ->
  starts_nothing (t_kind t) = true ->
  parse T text = Reject EUnexpectedToken (t_pos t) (Datatypes.length (t_val t)).
Proof. exact RejectFacts.no_command_start_rejected. Qed.
Print Assumptions C01_no_command_start_rejected.

(* '}' with no block open *)
Theorem C01_stray_rcb_rejected :
  forall T : tables,
  twf_tables T = true ->
  forall (text : bytes) (pre : list token) (t : token) (rest : list token) 
    (L : list bytes) (prev : option bytes),
  wf_prefix T (map strip_pos pre) L prev 0 ->
  fst (lex text) = pre ++ t :: rest ->
  t_kind t = TRightCBracket ->
  parse T text = Reject EBracketNone (t_pos t) (Datatypes.length (t_val t)).
Proof. exact RejectFacts.stray_rcb_rejected. Qed.
Print Assumptions C01_stray_rcb_rejected.

(* after `if` / `elsif`: an unknown name, the name of an action or control (action as test), any other token *)
Theorem C01_test_position_rejected :
  forall T : tables,
  twf_tables T = true ->
  forall (text : bytes) (pre : list token) (tn t : token) (rest : list token) 
    (L : list bytes) (prev : option bytes) (k : nat) (d : cmddef),
  wf_prefix T (map strip_pos pre) L prev k ->
  fst (lex text) = pre ++ tn :: t :: rest ->
  t_kind tn = TIdentifier ->
  get_command_instance T L (t_val tn) = inl d ->
  d_type d = CControl ->
  d_accept_children d = true ->
  has_arguments d = true ->
  not_comment (t_kind t) = true ->
  match t_kind t with
  | TIdentifier =>
      match get_command_instance T L (t_val t) with
      | inl d' =>
          d_type d' <> CTest ->
          parse T text = Reject (ENotTest (d_name d')) (t_pos t) (Datatypes.length (t_val t))
      | inr e => parse T text = Reject e (t_pos t) (Datatypes.length (t_val t))
      end
  | _ => parse T text = Reject EExpected (t_pos t) (Datatypes.length (t_val t))
  end.
Proof. exact RejectFacts.test_position_rejected. Qed.
Print Assumptions C01_test_position_rejected.

(* an argument list the table interpreter refuses stops the machine at a token of one of the arguments (string lists: at the closing bracket) *)
Theorem C01_args_stop :
  forall (T : tables) (args : list argument) (st : pstate) (f : frame) 
    (rest : list frame) (e : option perr),
  at_args st f rest ->
  Forall arg_ok args ->
  feed f args (p_loaded st) = FStop e ->
  exists (pre : list token) (t : token) (more : list token) (st' : pstate) 
  (e' : perr),
    flat_map arg_toks args = pre ++ t :: more /\
    steps T st pre = Some st' /\ stops (process T st' t) e'.
Proof. exact RejectFacts.args_stop. Qed.
Print Assumptions C01_args_stop.

(* an action whose argument list the specification refuses (legal = LReject): rejected at a token of its arguments *)
Theorem C01_illegal_arguments_rejected :
  forall T : tables,
  twf_tables T = true ->
  forall (text : bytes) (pre : list token) (tn : token) (atoks rest : list token)
    (L : list bytes) (prev : option bytes) (k : nat) (d : cmddef) 
    (args : list argument) (e : option perr),
  wf_prefix T (map strip_pos pre) L prev k ->
  fst (lex text) = pre ++ tn :: atoks ++ rest ->
  t_kind tn = TIdentifier ->
  get_command_instance T L (t_val tn) = inl d ->
  flat_def d = true ->
  wf_def d = true ->
  fixed_arity d = true ->
  Forall arg_ok args ->
  map strip_pos atoks = flat_map arg_toks args ->
  legal d L args = LReject e ->
  exists (t : token) (e' : perr),
    In t atoks /\ parse T text = Reject e' (t_pos t) (Datatypes.length (t_val t)).
Proof. exact RejectFacts.illegal_arguments_rejected. Qed.
Print Assumptions C01_illegal_arguments_rejected.

(* a block after a command that takes none; a command name where ';' is missing *)
Theorem C01_after_flat_name_rejected :
  forall T : tables,
  twf_tables T = true ->
  forall (text : bytes) (pre : list token) (tn t : token) (rest : list token) 
    (L : list bytes) (prev : option bytes) (k : nat) (d : cmddef),
  wf_prefix T (map strip_pos pre) L prev k ->
  fst (lex text) = pre ++ tn :: t :: rest ->
  t_kind tn = TIdentifier ->
  get_command_instance T L (t_val tn) = inl d ->
  flat_def d = true ->
  t_kind t = TLeftCBracket /\ d_non_deterministic_args d = false \/
  t_kind t = TIdentifier /\
  match get_command_instance T L (t_val t) with
  | inl d' => d_type d' <> CTest
  | inr _ => True
  end -> exists e : perr, parse T text = Reject e (t_pos t) (Datatypes.length (t_val t)).
Proof. exact RejectFacts.after_flat_name_rejected. Qed.
Print Assumptions C01_after_flat_name_rejected.

(* `elsif <test> { .. }` / `else { .. }` whose previous command is not one they may follow (or that start a block): rejected at the closing brace *)
Theorem C01_misplaced_follower_rejected :
  forall T : tables,
  twf_tables T = true ->
  forall (text : bytes) (pre : list token) (tn : token) (otoks btoks : list token) 
    (t : token) (rest : list token) (L : list bytes) (prev : option bytes) 
    (k : nat) (d : cmddef) (body : list gcmd) (ns : list node) (L' : list bytes),
  wf_prefix T (map strip_pos pre) L prev k ->
  fst (lex text) = pre ++ tn :: otoks ++ btoks ++ t :: rest ->
  t_kind tn = TIdentifier ->
  get_command_instance T L (t_val tn) = inl d ->
  d_type d = CControl ->
  d_accept_children d = true ->
  follows_name d prev = false ->
  (exists (a : argdef) (tst : gtest) (nt : node),
     d_args d = [a] /\
     is_t1 a = true /\ wf_test T L tst nt /\ map strip_pos otoks = toks_test tst ++ [tk_lcb]) \/
  d_args d = [] /\ map strip_pos otoks = [tk_lcb] ->
  wf_cmds T L None body ns L' ->
  map strip_pos btoks = flat_map toks_cmd body ->
  t_kind t = TRightCBracket ->
  parse T text = Reject EMustFollow (t_pos t) (Datatypes.length (t_val t)).
Proof. exact RejectFacts.misplaced_follower_rejected. Qed.
Print Assumptions C01_misplaced_follower_rejected.

(* legal arguments of an action leave the machine at that command (the positive counterpart of C01_args_stop) *)
Theorem C01_args_run :
  forall (T : tables) (args : list argument) (st : pstate) (f : frame) 
    (rest : list frame) (fN : frame),
  at_args st f rest ->
  Forall arg_ok args ->
  feed f args (p_loaded st) = FOk fN ->
  exists st' : pstate,
    steps T st (flat_map arg_toks args) = Some st' /\
    at_args st' fN rest /\ p_loaded st' = p_loaded st /\ p_brackets st' = p_brackets st.
Proof. exact RejectFacts.args_run. Qed.
Print Assumptions C01_args_run.

(* in the arguments of an action: an empty string list, a missing comma, a comma before the closing bracket, a list that is not closed -- rejected at the token that cannot continue the list *)
Theorem C01_malformed_string_list_rejected :
  forall T : tables,
  twf_tables T = true ->
  forall (text : bytes) (pre : list token) (tn : token) (a0toks : list token) 
    (lb : token) (ltoks : list token) (t : token) (rest : list token) 
    (L : list bytes) (prev : option bytes) (k : nat) (d : cmddef) 
    (args0 : list argument) (am em : list (bytes * aval)) (items : list bytes) 
    (tc : bool),
  wf_prefix T (map strip_pos pre) L prev k ->
  fst (lex text) = pre ++ tn :: a0toks ++ lb :: ltoks ++ t :: rest ->
  t_kind tn = TIdentifier ->
  get_command_instance T L (t_val tn) = inl d ->
  flat_def d = true ->
  wf_def d = true ->
  fixed_arity d = true ->
  Forall arg_ok args0 ->
  map strip_pos a0toks = flat_map arg_toks args0 ->
  legal d L args0 = LIncomplete am em ->
  strip_pos lb = mk TLeftBracket [91%N] ->
  map strip_pos ltoks = open_items items tc ->
  Forall (fun s : bytes => utf8_valid s = true) items ->
  (items = [] -> tc = false) ->
  not_comment (t_kind t) = true ->
  (if match items with
      | [] => true
      | _ :: _ => tc
      end
   then kind_mem (t_kind t) [TString] = false
   else kind_mem (t_kind t) [TComma; TRightBracket] = false) ->
  parse T text = Reject EExpected (t_pos t) (Datatypes.length (t_val t)).
Proof. exact RejectFacts.malformed_string_list_rejected. Qed.
Print Assumptions C01_malformed_string_list_rejected.

(* after `if anyof (` anything but the name of a test (an empty test list, a string): rejected at that token *)
Theorem C01_empty_test_list_rejected :
  forall T : tables,
  twf_tables T = true ->
  forall (text : bytes) (pre : list token) (tn tl lp t : token) (rest : list token)
    (L : list bytes) (prev : option bytes) (k : nat) (d : cmddef) 
    (a : argdef) (dl : cmddef),
  wf_prefix T (map strip_pos pre) L prev k ->
  fst (lex text) = pre ++ tn :: tl :: lp :: t :: rest ->
  t_kind tn = TIdentifier ->
  get_command_instance T L (t_val tn) = inl d ->
  d_type d = CControl ->
  d_accept_children d = true ->
  d_args d = [a] ->
  is_t1 a = true ->
  t_kind tl = TIdentifier ->
  get_command_instance T L (t_val tl) = inl dl ->
  d_type dl = CTest ->
  d_expected_first dl = Some [TLeftParen] ->
  iscomplete (new_frame dl (at_of a)) None = false ->
  t_kind lp = TLeftParen ->
  not_comment (t_kind t) = true ->
  kind_mem (t_kind t) [TIdentifier] = false ->
  parse T text = Reject EExpected (t_pos t) (Datatypes.length (t_val t)).
Proof. exact RejectFacts.empty_test_list_rejected. Qed.
Print Assumptions C01_empty_test_list_rejected.

(* the text ends while blocks are open: rejected at the end of the text *)
Theorem C01_unclosed_block_rejected :
  forall T : tables,
  twf_tables T = true ->
  forall (text : bytes) (L : list bytes) (prev : option bytes) (k : nat),
  wf_prefix T (map strip_pos (fst (lex text))) L prev (S k) ->
  snd (lex text) = None ->
  exists ll : nat, parse T text = Reject EEndExpected (Datatypes.length text) ll.
Proof. exact RejectFacts.unclosed_block_rejected. Qed.
Print Assumptions C01_unclosed_block_rejected.

(* the text ends inside a command (missing semicolon): rejected at the end of the text *)
Theorem C01_unfinished_command_rejected :
  forall T : tables,
  twf_tables T = true ->
  forall (text : bytes) (pre : list token) (tn : token) (a0toks : list token) 
    (L : list bytes) (prev : option bytes) (k : nat) (d : cmddef) 
    (args0 : list argument) (fN : attach -> frame),
  wf_prefix T (map strip_pos pre) L prev k ->
  fst (lex text) = pre ++ tn :: a0toks ->
  snd (lex text) = None ->
  t_kind tn = TIdentifier ->
  get_command_instance T L (t_val tn) = inl d ->
  flat_def d = true ->
  Forall arg_ok args0 ->
  map strip_pos a0toks = flat_map arg_toks args0 ->
  (forall at_ : attach, feed (new_frame d at_) args0 L = FOk (fN at_)) ->
  exists (e : perr) (ll : nat),
    (e = EEndExpected \/ e = EEndUnfinished) /\
    parse T text = Reject e (Datatypes.length text) ll.
Proof. exact RejectFacts.unfinished_command_rejected. Qed.
Print Assumptions C01_unfinished_command_rejected.

(* bytes that are no token after a prefix of the grammar: rejected at the place where no lexer rule matches *)
Theorem C01_lexical_error_rejected :
  forall T : tables,
  twf_tables T = true ->
  forall (text : bytes) (L : list bytes) (prev : option bytes) (k p : nat),
  wf_prefix T (map strip_pos (fst (lex text))) L prev k ->
  snd (lex text) = Some p -> exists ll : nat, parse T text = Reject EUnknownToken p ll.
Proof. exact RejectFacts.lexical_error_rejected. Qed.
Print Assumptions C01_lexical_error_rejected.

(* after `if <test>` anything but '{' (a missing block): rejected at that token *)
Theorem C01_missing_block_rejected :
  forall T : tables,
  twf_tables T = true ->
  forall (text : bytes) (pre : list token) (tn : token) (ttoks : list token) 
    (t : token) (rest : list token) (L : list bytes) (prev : option bytes) 
    (k : nat) (d : cmddef) (a : argdef) (tst : gtest) (nt : node),
  wf_prefix T (map strip_pos pre) L prev k ->
  fst (lex text) = pre ++ tn :: ttoks ++ t :: rest ->
  t_kind tn = TIdentifier ->
  get_command_instance T L (t_val tn) = inl d ->
  d_type d = CControl ->
  d_accept_children d = true ->
  d_args d = [a] ->
  is_t1 a = true ->
  wf_test T L tst nt ->
  kind_of tst = Kcc ->
  map strip_pos ttoks = toks_test tst ->
  not_comment (t_kind t) = true ->
  kind_mem (t_kind t) [TLeftCBracket] = false ->
  parse T text = Reject EExpected (t_pos t) (Datatypes.length (t_val t)).
Proof. exact RejectFacts.missing_block_rejected. Qed.
Print Assumptions C01_missing_block_rejected.

(* non-vacuity: `if size :over 100K stop;` (and ex_lexical_error: `%` inside a block) *)
Theorem C01_missing_block_example :
  parse gen_tables (bs (px_text ++ "if size :over 100K stop; }")) = Reject EExpected 65 4.
Proof. exact RejectExamples.ex_missing_block. Qed.
Print Assumptions C01_missing_block_example.

(* the first test of a test list and the test of `not`: an unknown name, the name of an action or control, any other token -- rejected at that token *)
Theorem C01_inner_test_rejected :
  forall T : tables,
  twf_tables T = true ->
  forall (text : bytes) (pre : list token) (tn tl : token) (more : list token) 
    (t : token) (rest : list token) (L : list bytes) (prev : option bytes) 
    (k : nat) (d : cmddef) (a : argdef) (dl : cmddef),
  wf_prefix T (map strip_pos pre) L prev k ->
  fst (lex text) = pre ++ tn :: tl :: more ++ t :: rest ->
  t_kind tn = TIdentifier ->
  get_command_instance T L (t_val tn) = inl d ->
  d_type d = CControl ->
  d_accept_children d = true ->
  d_args d = [a] ->
  is_t1 a = true ->
  t_kind tl = TIdentifier ->
  get_command_instance T L (t_val tl) = inl dl ->
  d_type dl = CTest ->
  iscomplete (new_frame dl (at_of a)) None = false ->
  d_expected_first dl = Some [TLeftParen] /\
  (exists lp : token, more = [lp] /\ t_kind lp = TLeftParen) \/
  d_expected_first dl = Some [TIdentifier] /\ more = [] ->
  not_comment (t_kind t) = true ->
  match t_kind t with
  | TIdentifier =>
      match get_command_instance T L (t_val t) with
      | inl d' =>
          d_type d' <> CTest ->
          parse T text = Reject (ENotTest (d_name d')) (t_pos t) (Datatypes.length (t_val t))
      | inr e => parse T text = Reject e (t_pos t) (Datatypes.length (t_val t))
      end
  | _ => parse T text = Reject EExpected (t_pos t) (Datatypes.length (t_val t))
  end.
Proof. exact RejectFacts.inner_test_rejected. Qed.
Print Assumptions C01_inner_test_rejected.

(* non-vacuity: `if anyof (foo, true)` (with ex_action_after_not, ex_string_after_not) *)
Theorem C01_inner_test_examples :
  parse gen_tables (bs (px_text ++ "if anyof (foo, true) { } }")) =
  Reject (EUnknownCommand (bs "foo")) 56 3.
Proof. exact RejectExamples.ex_unknown_in_test_list. Qed.
Print Assumptions C01_inner_test_examples.

(* later positions of a test list (after any number of complete tests of the grammar): a missing comma, a comma before ')', an unknown name or an action after a comma -- rejected at that token *)
Theorem C01_test_list_later_rejected :
  forall T : tables,
  twf_tables T = true ->
  forall (text : bytes) (pre : list token) (tn tl lp : token) (ttoks cm : list token)
    (t : token) (rest : list token) (L : list bytes) (prev : option bytes) 
    (k : nat) (d : cmddef) (a : argdef) (dl : cmddef) (al : argdef) 
    (ts : list gtest) (ns : list node),
  wf_prefix T (map strip_pos pre) L prev k ->
  fst (lex text) = pre ++ tn :: tl :: lp :: ttoks ++ cm ++ t :: rest ->
  t_kind tn = TIdentifier ->
  get_command_instance T L (t_val tn) = inl d ->
  d_type d = CControl ->
  d_accept_children d = true ->
  d_args d = [a] ->
  is_t1 a = true ->
  t_kind tl = TIdentifier ->
  get_command_instance T L (t_val tl) = inl dl ->
  d_type dl = CTest ->
  d_args dl = [al] ->
  is_tl al = true ->
  d_expected_first dl = Some [TLeftParen] ->
  t_kind lp = TLeftParen ->
  ts <> [] ->
  Forall2 (wf_test T L) ts ns ->
  map strip_pos ttoks = toks_tests ts ->
  cm = [] \/ (exists c : token, cm = [c] /\ strip_pos c = mk TComma [44%N]) ->
  not_comment (t_kind t) = true ->
  match cm with
  | [] =>
      kind_mem (t_kind t) [TComma; TRightParen] = false ->
      parse T text = Reject EExpected (t_pos t) (Datatypes.length (t_val t))
  | _ :: _ =>
      match t_kind t with
      | TIdentifier =>
          match get_command_instance T L (t_val t) with
          | inl d' =>
              d_type d' <> CTest ->
              parse T text =
              Reject (ENotTest (d_name d')) (t_pos t) (Datatypes.length (t_val t))
          | inr e => parse T text = Reject e (t_pos t) (Datatypes.length (t_val t))
          end
      | _ => parse T text = Reject EExpected (t_pos t) (Datatypes.length (t_val t))
      end
  end.
Proof. exact RejectFacts.test_list_later_rejected. Qed.
Print Assumptions C01_test_list_later_rejected.

(* non-vacuity: `if anyof (true true)` (with ex_unknown_after_comma, ex_comma_before_paren) *)
Theorem C01_test_list_later_examples :
  parse gen_tables (bs (px_text ++ "if anyof (true true) { } }")) = Reject EExpected 61 4.
Proof. exact RejectExamples.ex_missing_comma_in_test_list. Qed.
Print Assumptions C01_test_list_later_examples.

(* malformed string lists (empty, missing comma, trailing comma, not closed) in the arguments of a test that still needs arguments *)
Theorem C01_malformed_string_list_in_test_rejected :
  forall T : tables,
  twf_tables T = true ->
  forall (text : bytes) (pre : list token) (tn tl : token) (a0toks : list token) 
    (lb : token) (ltoks : list token) (t : token) (rest : list token) 
    (L : list bytes) (prev : option bytes) (k : nat) (d : cmddef) 
    (a : argdef) (dl : cmddef) (args0 : list argument) (fN : frame) 
    (items : list bytes) (tc : bool),
  wf_prefix T (map strip_pos pre) L prev k ->
  fst (lex text) = pre ++ tn :: tl :: a0toks ++ lb :: ltoks ++ t :: rest ->
  t_kind tn = TIdentifier ->
  get_command_instance T L (t_val tn) = inl d ->
  d_type d = CControl ->
  d_accept_children d = true ->
  d_args d = [a] ->
  is_t1 a = true ->
  t_kind tl = TIdentifier ->
  get_command_instance T L (t_val tl) = inl dl ->
  d_type dl = CTest ->
  d_expected_first dl = None ->
  iscomplete (new_frame dl (at_of a)) None = false ->
  Forall arg_ok args0 ->
  map strip_pos a0toks = flat_map arg_toks args0 ->
  feed (new_frame dl (at_of a)) args0 L = FOk fN ->
  iscomplete fN None = false ->
  strip_pos lb = mk TLeftBracket [91%N] ->
  map strip_pos ltoks = open_items items tc ->
  Forall (fun s : bytes => utf8_valid s = true) items ->
  (items = [] -> tc = false) ->
  not_comment (t_kind t) = true ->
  (if match items with
      | [] => true
      | _ :: _ => tc
      end
   then kind_mem (t_kind t) [TString] = false
   else kind_mem (t_kind t) [TComma; TRightBracket] = false) ->
  parse T text = Reject EExpected (t_pos t) (Datatypes.length (t_val t)).
Proof. exact RejectFacts.malformed_string_list_in_test_rejected. Qed.
Print Assumptions C01_malformed_string_list_in_test_rejected.

(* non-vacuity: `if header ["a" "b"] "x" { }` rejected at the second string *)
Theorem C01_malformed_list_in_test_example :
  parse gen_tables (bs (px_text ++ "if header [""a"" ""b""] ""x"" { } }")) =
  Reject EExpected 61 3.
Proof. exact RejectExamples.ex_malformed_list_in_test. Qed.
Print Assumptions C01_malformed_list_in_test_example.

(* in the arguments of a test that still needs arguments: a tag it does not take, a tag whose extension is not loaded, a value of the wrong type -- rejected at that token *)
Theorem C01_test_argument_rejected :
  forall T : tables,
  twf_tables T = true ->
  forall (text : bytes) (pre : list token) (tn tl : token) (a0toks : list token) 
    (t : token) (rest : list token) (L : list bytes) (prev : option bytes) 
    (k : nat) (d : cmddef) (a : argdef) (dl : cmddef) (args0 : list argument) 
    (fN : frame) (ty : atype),
  wf_prefix T (map strip_pos pre) L prev k ->
  fst (lex text) = pre ++ tn :: tl :: a0toks ++ t :: rest ->
  t_kind tn = TIdentifier ->
  get_command_instance T L (t_val tn) = inl d ->
  d_type d = CControl ->
  d_accept_children d = true ->
  d_args d = [a] ->
  is_t1 a = true ->
  t_kind tl = TIdentifier ->
  get_command_instance T L (t_val tl) = inl dl ->
  d_type dl = CTest ->
  d_expected_first dl = None ->
  iscomplete (new_frame dl (at_of a)) None = false ->
  Forall arg_ok args0 ->
  map strip_pos a0toks = flat_map arg_toks args0 ->
  feed (new_frame dl (at_of a)) args0 L = FOk fN ->
  iscomplete fN None = false ->
  (t_kind t = TString \/ t_kind t = TMultiline) /\
  ty = TyString /\ utf8_valid (t_val t) = true \/
  t_kind t = TNumber /\ ty = TyNumber \/ t_kind t = TTag /\ ty = TyTag ->
  match check_next_arg fN ty (VStr (t_val t)) true true L with
  | CnaFalse => parse T text = Reject EUnexpectedToken (t_pos t) (Datatypes.length (t_val t))
  | CnaErr e => parse T text = Reject e (t_pos t) (Datatypes.length (t_val t))
  | _ => True
  end.
Proof. exact RejectFacts.test_argument_rejected. Qed.
Print Assumptions C01_test_argument_rejected.

(* non-vacuity: `if header :bogus ..` and (ex_tag_extension_in_test) `if header :regex ..` without require *)
Theorem C01_test_argument_examples :
  exists e : perr,
    parse gen_tables (bs (px_text ++ "if header :bogus ""a"" ""b"" { } }")) = Reject e 56 6.
Proof. exact RejectExamples.ex_unknown_tag_in_test. Qed.
Print Assumptions C01_test_argument_examples.

(* non-vacuity: `require ["fileinto" "envelope"];` rejected at the second string (with ex_empty_list, ex_trailing_comma, ex_empty_test_list, ex_unclosed_block, ex_unfinished_command) *)
Theorem C01_malformed_list_examples :
  parse gen_tables (bs "require [""fileinto"" ""envelope""];") = Reject EExpected 20 10.
Proof. exact RejectExamples.ex_missing_comma. Qed.
Print Assumptions C01_malformed_list_examples.

(* non-vacuity: `stop; else { stop; } keep;` rejected with 'must follow' at the closing brace, from the theorem *)
Theorem C01_misplaced_else_example :
  parse gen_tables (bs "stop; else { stop; } keep;") = Reject EMustFollow 19 1.
Proof. exact RejectExamples.ex_misplaced_else. Qed.
Print Assumptions C01_misplaced_else_example.

(* non-vacuity on the generated tables (one of twenty-nine examples in sieve/RejectExamples.v: prefix `require ["fileinto"]; if size :over 100K {`) *)
Theorem C01_reject_examples :
  let text := bs (px_text ++ "foo ""x""; }") in
  parse gen_tables text = Reject (EUnknownCommand (bs "foo")) 46 3 /\
  error_pos text (parse gen_tables text) = Some (3, 4, 3).
Proof. exact RejectExamples.ex_unknown. Qed.
Print Assumptions C01_reject_examples.

(* an accepted script ends with an empty command stack, balanced brackets and nothing expected *)
Theorem C01_accept_final_state :
  forall (T : tables) (text : bytes) (r : list node),
  parse T text = Accept r ->
  exists st : pstate,
    r = p_result st /\
    reachable T st /\ p_stack st = [] /\ p_brackets st = [] /\ p_expected st = None.
Proof. exact GateFacts.parse_accept_reachable. Qed.
Print Assumptions C01_accept_final_state.

(* which commands of the current tables the interpreter theorem covers (re-checked on every run) *)
Example C01_wf_commands :
  map fst (filter (fun kd => wf_def (snd kd)) gen_tables) =
  [bs "address"; bs "body"; bs "currentdate"; bs "date"; bs "discard"; bs "else"; bs "envelope";
   bs "exists"; bs "false"; bs "fileinto"; bs "header"; bs "redirect"; bs "reject"; bs "require";
   bs "set"; bs "size"; bs "stop"; bs "true"; bs "vacation"].
Proof. vm_compute. reflexivity. Qed.

(* the others: structural commands (test arguments are fed by the machine) and the known findings
   keep (optional-only) and setflag/addflag/removeflag/hasflag (optional positional) *)
Example C01_other_commands :
  map fst (filter (fun kd => negb (wf_def (snd kd))) gen_tables) =
  [bs "addflag"; bs "allof"; bs "anyof"; bs "elsif"; bs "hasflag"; bs "if"; bs "keep"; bs "not";
   bs "removeflag"; bs "setflag"].
Proof. vm_compute. reflexivity. Qed.

(* verdicts of the model on concrete scripts of each class the property names *)
Example C01_verdicts :
  map (verdict gen_tables)
      [bs "require [""fileinto"", ""envelope""]; if anyof (header :contains ""a"" ""b"", not exists [""x"",""y""]) { fileinto ""z""; } elsif true { stop; } else { keep; }";
       bs "IF TRUE { KEEP; }";
       bs "keep";                         (* missing semicolon *)
       bs "if true { keep; ";             (* unbalanced *)
       bs "frob;";                        (* unknown command *)
       bs "true;";                        (* test as command *)
       bs "if keep { }";                  (* action as test *)
       bs "stop { }";                     (* block after an action *)
       bs "else { }";                     (* else not after if *)
       bs "redirect :bogus ""a"";";       (* illegal tag *)
       bs "redirect 10;";                 (* ill-typed *)
       bs "redirect ""a"" ""b"";";        (* surplus *)
       bs "if header :comparator ""i;nope"" :is ""a"" ""b"" { }";   (* bad value for a tag's parameter *)
       bs "if anyof () { }";              (* empty test list *)
       bs "redirect [];";                 (* empty string list *)
       bs "fileinto ""x"";"]              (* extension not required *)
  = [true; true; false; false; false; false; false; false; false; false; false; false; false; false; false; false].
Proof. vm_compute. reflexivity. Qed.

(* Parser.lrules of the working tree are the regular expressions the scanners of sieve/Lexer.v were translated from *)
Example C01_lexer_rules : gen_lrules = expected_lrules.
Proof. vm_compute. reflexivity. Qed.
