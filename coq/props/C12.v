(* C12 — filter-set editing operations behave like an ordered, uniquely named list.

   Model: factory/Ops.v — addfilter, updatefilter, replacefilter, removefilter, enablefilter,
   disablefilter, movefilter, getfilter, is_filter_disabled of sievelib.factory.FiltersSet, with
   filter contents abstracted to "a plain command (identified by a number)" or "the if-false wrapper
   around contents", which is all these operations inspect.  Reference: [spec_step] over a list of
   entries (name, content id, enabled, description).  Proofs: factory/OpsFacts.v.
   The model is tied to factory.py by the correspondence check (every operation's return value /
   exception and the whole observable state after every step, on exhaustive and random operation
   sequences); the reference list is compared with the implementation directly as well.
   On real command trees (factory/Build.v, BuildHistory.v): the enabled flag and the `if false` wrapper of the
   rendered script agree in every reachable state (C12_rendering_agrees_with_flags). *)
From Coq Require Import List NArith Bool Arith.
From SV Require Import Bytes Ops OpsFacts.
Import ListNotations.
Local Open Scope nat_scope.
From SV Require Import Lexer Tables ArgCheck Machine Printer GenTables Text Build BuildFacts BuildSet Load LoadFacts BuildHistory.

(* on real command trees (factory/Build.v): for every set reached by the editing operations from documented definitions, the rendered script parses, and a filter is wrapped in `if false` in what the parser reads back exactly when its enabled flag is off *)
Theorem C12_rendering_agrees_with_flags :
  forall (loaded : list bytes) (st : bstate) (name_pre desc_pre : bytes) (fuel : nat),
  reach loaded st ->
  b_set st <> [] ->
  (5 <= fuel)%nat ->
  marker_ok name_pre ->
  marker_ok desc_pre ->
  names_ok name_pre desc_pre (b_set st) ->
  exists (text : bytes) (ns : list node) (lfs : list lfilter),
    b_render gen_tables loaded fuel name_pre desc_pre st = BOk text /\
    parse gen_tables text = Accept ns /\
    snd (from_parser_result name_pre desc_pre ns) = lfs /\
    map (fun f : lfilter => negb (is_if_false (lf_content f))) lfs = map f_enabled (b_set st).
Proof. exact BuildHistory.history_flags_agree. Qed.
Print Assumptions C12_rendering_agrees_with_flags.

(* a concrete set represents the reference list sp exactly when it is the image of sp: enabled filters hold their plain content, disabled ones hold it wrapped once in if-false, flags agree *)
Theorem C12_representation :
  forall (s : fset) (sp : spec), abs s = Some sp <-> s = map conc sp.
Proof. exact OpsFacts.abs_iff. Qed.
Print Assumptions C12_representation.

(* every operation on a representable set returns what the reference returns and yields the representation of the reference result *)
Theorem C12_step_refines :
  forall (sp : list entry) (o : fop),
  step (map conc sp) o = (fst (spec_step sp o), map conc (snd (spec_step sp o))).
Proof. exact OpsFacts.step_refines. Qed.
Print Assumptions C12_step_refines.

(* all histories from the empty set (no length bound): every return value agrees and the final set represents the reference list *)
Theorem C12_history_refines :
  forall ops : list fop,
  fst (run_trace [] ops) = fst (spec_trace [] ops) /\
  abs (snd (run_trace [] ops)) = Some (snd (spec_trace [] ops)).
Proof. exact OpsFacts.history_refines. Qed.
Print Assumptions C12_history_refines.

(* in every representable state: is_filter_disabled = not enabled (True for unknown names), getfilter returns the filter's own plain content whether or not it is disabled, and enabled = not wrapped for every filter *)
Theorem C12_observers :
  forall (sp : list entry) (n : bytes),
  op_is_disabled n (map conc sp) =
  RBool match s_find n sp with
        | Some e => negb (e_enabled e)
        | None => true
        end /\
  op_get n (map conc sp) =
  match s_find n sp with
  | Some e => RContent (Plain (e_id e))
  | None => RNone
  end /\
  Forall (fun f : filter => f_enabled f = negb (isdisabled (f_content f))) (map conc sp).
Proof. exact OpsFacts.observers_agree. Qed.
Print Assumptions C12_observers.

(* names stay unique under every operation *)
Theorem C12_names_unique :
  forall (sp : spec) (o : fop), NoDup (names sp) -> NoDup (names (snd (spec_step sp o))).
Proof. exact OpsFacts.spec_step_nodup. Qed.
Print Assumptions C12_names_unique.

(* ... hence in every reachable state *)
Theorem C12_history_names_unique :
  forall ops : list fop, NoDup (names (snd (spec_trace [] ops))).
Proof. exact OpsFacts.history_nodup. Qed.
Print Assumptions C12_history_names_unique.

(* update / replace / enable / disable rewrite exactly the first entry of that name, at its position; everything else is untouched *)
Theorem C12_update_in_place :
  forall (n : bytes) (g : entry -> entry) (sp : spec) (k : nat) (e : entry),
  s_index n sp = Some k ->
  s_find n sp = Some e ->
  s_update n g sp = firstn k sp ++ g e :: skipn (S k) sp /\ nth_error sp k = Some e.
Proof. exact OpsFacts.s_update_in_place. Qed.
Print Assumptions C12_update_in_place.

(* moving up swaps the filter with its predecessor, nothing else moves *)
Theorem C12_move_up :
  forall (n : bytes) (sp : spec) (k : nat),
  s_index n sp = Some (S k) ->
  exists (l1 : list entry) (x y : entry) (l2 : list entry),
    sp = l1 ++ x :: y :: l2 /\
    length l1 = k /\ e_name y = n /\ s_move_up n sp = l1 ++ y :: x :: l2.
Proof. exact OpsFacts.s_move_up_swap. Qed.
Print Assumptions C12_move_up.

(* moving down swaps the filter with its successor, nothing else moves *)
Theorem C12_move_down :
  forall (n : bytes) (sp : spec) (k : nat),
  s_index n sp = Some k ->
  S k <> length sp ->
  exists (l1 : list entry) (x y : entry) (l2 : list entry),
    sp = l1 ++ x :: y :: l2 /\
    length l1 = k /\ e_name x = n /\ s_move_down n sp = l1 ++ y :: x :: l2.
Proof. exact OpsFacts.s_move_down_swap. Qed.
Print Assumptions C12_move_down.

(* operations on unknown names return False and change nothing *)
Theorem C12_unknown_names :
  forall (sp : spec) (o : fop) (n : bytes),
  s_exists n sp = false ->
  match o with
  | FAdd _ _ => False
  | FUpdate a _ _ | FReplace a _ _ _ => a = n
  | FRemove m | FEnable m | FDisable m | FMove m _ => m = n
  end -> spec_step sp o = (RBool false, sp).
Proof. exact OpsFacts.unknown_name_noop. Qed.
Print Assumptions C12_unknown_names.

(* the repaired defect stays repaired in the model: disabling twice then enabling once gives an enabled,
   unwrapped filter (F4 of DESIGN.md 1.1) *)
Example C12_disable_twice_enable :
  let a := [97%N] in
  let s := snd (run_trace [] [FAdd a 1; FDisable a; FDisable a; FEnable a]) in
  s = [mkF a (Plain 1) true None] /\ op_is_disabled a s = RBool false /\ op_get a s = RContent (Plain 1).
Proof. vm_compute. repeat split. Qed.

(* non-vacuity: collisions, repeats and boundary moves in one history *)
Example C12_history_example :
  let a := [97%N] in let b := [98%N] in
  let ops := [FAdd a 1; FAdd b 2; FAdd a 3; FDisable a; FDisable a; FUpdate a a 4; FMove a true; FMove b true;
              FEnable a; FEnable a; FReplace b 5 (Some a) None; FRemove b; FRemove b] in
  fst (run_trace [] ops) =
    [RNone; RNone; RAlreadyExists; RBool true; RBool true; RBool true; RBool false; RBool true;
     RBool true; RBool false; RAlreadyExists; RBool true; RBool false]
  /\ abs (snd (run_trace [] ops)) = Some [mkE a 4 true None].
Proof. vm_compute. split; reflexivity. Qed.
