(* C12 — statements are added when the corresponding facts file lands *)
From SV Require Import Bytes Ops.
Theorem C12_placeholder : True. Proof. exact I. Qed.
