(* C09 — statements are added when the corresponding facts file lands *)
From SV Require Import Bytes Client Transport Server.
Theorem C09_placeholder : True. Proof. exact I. Qed.
