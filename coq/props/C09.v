(* C09 — operation results mirror the server's status reply.

   Model: ms/Client.v ([read_line], [parse_status_text], [read_response], [simple_cmd] =
   __read_line/__parse_status_text/__read_response/__send_command after the status-text
   repair).  Spec: the RFC 5804 reply grammar of ms/Server.v ([reply], [render_reply]: status
   atom, optional response code, optional text as quoted string or literal).
   Proofs: ms/StatusFacts.v. *)
From Coq Require Import String.
From Coq Require Import List NArith Bool.
From SV Require Import Bytes Client Transport Server StatusFacts.
Import ListNotations.

(* Full statement for every command with a single status reply (HAVESPACE, PUTSCRIPT,
   CHECKSCRIPT, DELETESCRIPT, SETACTIVE, native RENAMESCRIPT): for every peer, every reply r of
   the reply grammar whose response code is a single line with balanced quotes (reply_ok),
   whatever follows it on the stream (extra):
     OK  -> True, client fields unchanged;
     NO  -> False, errcode = the reply's response code ("" if absent), errmsg = its text ("" if absent),
            for quoted and literal texts, any octets;
     BYE -> Error;
   and for OK/NO exactly the reply is consumed: what follows it is left for the next call. *)
Theorem C09_mirror :
  forall (P : Type) (react : P -> bytes -> P * bytes) (oc ot : P -> option (P * bytes))
         (r : reply) (f : nat) (verb : bytes) (args : list arg) (st : cstate) (w : sworld P)
         (p' : P) (extra : bytes),
    reply_ok r -> s_stream P w = [] ->
    react (s_peer P w) (command_bytes verb args) = (p', render_reply r ++ extra) ->
    let res := interp_s P react oc ot (simple_cmd (S f) verb args st finish) w in
    fst res = mirror r st
    /\ (r_status r <> StBYE ->
        snd res = mkSW P p' extra (S (s_n P w)) (s_conn P w) (Transport.s_tls P w)
                       (WSend (s_conn P w) (Transport.s_tls P w) (command_bytes verb args) :: s_log P w)).
Proof. exact StatusFacts.simple_cmd_mirror. Qed.
Print Assumptions C09_mirror.

Example C09_mirror_meaning :
  forall r st, mirror r st =
               match r_status r with
               | StOK => ODone (VBool true) st
               | StNO => ODone (VBool false) (set_err (code_of r) (text_of r) st)
               | StBYE => OFail ExBye st
               end.
Proof. intros r st. unfold mirror. destruct (r_status r); reflexivity. Qed.

(* The general form: the final status reply of ANY operation (listing, script download, every
   step of the emulated rename, connect) is read by read_response; whatever continuation k the
   operation supplies, it is resumed with the right status and client fields and with exactly
   the reply consumed. *)
Theorem C09_read_response :
  forall (P : Type) (react : P -> bytes -> P * bytes) (oc ot : P -> option (P * bytes))
         (r : reply) (f : nat) (nbl : option nat) (ql : bool) (resp : bytes) (cpt : nat) (st : cstate)
         (k : cstate -> option bytes -> option bytes -> bytes -> prog) (w : sworld P) (rest : bytes),
    reply_ok r -> s_stream P w = render_reply r ++ rest ->
    interp_s P react oc ot (read_response (S f) nbl ql resp cpt st k) w =
    match r_status r with
    | StOK => interp_s P react oc ot (k st (Some (bs "OK")) (data_of r) resp) (s_set P rest w)
    | StNO => interp_s P react oc ot (k (set_err (code_of r) (text_of r) st) (Some (bs "NO")) (data_of r) resp)
                       (s_set P rest w)
    | StBYE => (OFail ExBye st, s_set P (after_line r ++ rest) w)
    end.
Proof. exact StatusFacts.read_response_reply. Qed.
Print Assumptions C09_read_response.
