(* Lexer.v — executable model of sievelib.parser.Lexer with Parser.lrules (definitions only).

   One scanner per rule, tried in the order of the alternation; the whitespace rule is
   tried first.  Each scanner returns the length of the match at the head of its input.
   Exact regex semantics reproduced (bytes patterns, flags = MULTILINE only):
     \s = 9..13,32   \w = [A-Za-z0-9_]   . = any byte but LF   $ = end of input or before LF
     [^...] and [\s\S] match LF. *)
From Coq Require Import List NArith Bool.
From SV Require Import Bytes.
Import ListNotations.
Open Scope N_scope.

Inductive tkind :=
| TLeftBracket | TRightBracket | TLeftParen | TRightParen | TLeftCBracket | TRightCBracket
| TSemicolon | TComma | THashComment | TBracketComment | TMultiline | TString
| TIdentifier | TTag | TNumber.

Definition tkind_eqb (a b : tkind) : bool :=
  match a, b with
  | TLeftBracket, TLeftBracket | TRightBracket, TRightBracket | TLeftParen, TLeftParen
  | TRightParen, TRightParen | TLeftCBracket, TLeftCBracket | TRightCBracket, TRightCBracket
  | TSemicolon, TSemicolon | TComma, TComma | THashComment, THashComment
  | TBracketComment, TBracketComment | TMultiline, TMultiline | TString, TString
  | TIdentifier, TIdentifier | TTag, TTag | TNumber, TNumber => true
  | _, _ => false
  end.

Record token := mkTok { t_kind : tkind; t_val : bytes; t_pos : nat }.

Definition is_ident_start (c : N) : bool := is_alpha c || (c =? 95).

(* "#.*$" : the hash and everything up to (not including) the next LF *)
Definition scan_hash (l : bytes) : option nat :=
  match l with
  | 35 :: t => Some (S (length (take_while (fun c => negb (c =? 10)) t)))
  | _ => None
  end.

(* "/\*[\s\S]*?\*/" : up to the first star-slash *)
Fixpoint find_star_slash (l : bytes) : option nat :=
  match l with
  | [] => None
  | a :: t =>
      match t with
      | b :: _ => if (a =? 42) && (b =? 47) then Some 2%nat
                  else match find_star_slash t with Some n => Some (S n) | None => None end
      | [] => None
      end
  end.
Definition scan_bracket_comment (l : bytes) : option nat :=
  match l with
  | 47 :: 42 :: t => match find_star_slash t with Some n => Some (2 + n)%nat | None => None end
  | _ => None
  end.

(* after a run of CR/LF: "\.\r?$" *)
Definition dot_end (l : bytes) : option nat :=
  match l with
  | 46 :: t =>
      match t with
      | [] => Some 1%nat
      | 10 :: _ => Some 1%nat
      | 13 :: t' => match t' with
                    | [] => Some 2%nat
                    | 10 :: _ => Some 2%nat
                    | _ => None
                    end
      | _ => None
      end
  | _ => None
  end.

(* "text:[\s\S]*?[\r\n]+\.\r?$" after the five bytes "text:": scanning left to right, the
   match ends at the first "." that directly follows a CR or LF and is followed by an
   optional CR and then end of input or LF.  [prev_eol] says whether the previous byte was
   CR/LF (false right after "text:"). *)
Fixpoint scan_ml_body (prev_eol : bool) (l : bytes) : option nat :=
  match l with
  | [] => None
  | c :: t =>
      match (if prev_eol then dot_end l else None) with
      | Some n => Some n
      | None =>
          match scan_ml_body ((c =? 13) || (c =? 10)) t with
          | Some n => Some (S n)
          | None => None
          end
      end
  end.
Definition scan_multiline (l : bytes) : option nat :=
  match l with
  | 116 :: 101 :: 120 :: 116 :: 58 :: t =>
      match scan_ml_body false t with Some n => Some (5 + n)%nat | None => None end
  | _ => None
  end.

(* DQ ( [^DQ BSL] | BSL . )* DQ  — "." does not match LF *)
Fixpoint scan_string_body (l : bytes) : option nat :=
  match l with
  | [] => None
  | c :: t =>
      if c =? 34 then Some 1%nat
      else if c =? 92 then
             match t with
             | d :: t' => if d =? 10 then None
                          else match scan_string_body t' with Some n => Some (2 + n)%nat | None => None end
             | [] => None
             end
           else match scan_string_body t with Some n => Some (S n) | None => None end
  end.
Definition scan_string (l : bytes) : option nat :=
  match l with
  | 34 :: t => match scan_string_body t with Some n => Some (S n) | None => None end
  | _ => None
  end.

Definition scan_identifier (l : bytes) : option nat :=
  match l with
  | c :: t => if is_ident_start c then Some (S (length (take_while is_word t))) else None
  | [] => None
  end.

Definition scan_tag (l : bytes) : option nat :=
  match l with
  | 58 :: t => match scan_identifier t with Some n => Some (S n) | None => None end
  | _ => None
  end.

Definition is_quant (c : N) : bool :=
  (c =? 75) || (c =? 77) || (c =? 71) || (c =? 107) || (c =? 109) || (c =? 103).

Definition scan_number (l : bytes) : option nat :=
  let ds := take_while is_digit l in
  match ds with
  | [] => None
  | _ => match drop_while is_digit l with
         | q :: _ => if is_quant q then Some (S (length ds)) else Some (length ds)
         | [] => Some (length ds)
         end
  end.

Definition scan_single (c : N) (k : tkind) (l : bytes) : option (tkind * nat) :=
  match l with
  | x :: _ => if x =? c then Some (k, 1%nat) else None
  | [] => None
  end.

Definition orelse {A} (a : option A) (b : option A) : option A :=
  match a with Some _ => a | None => b end.

Definition with_kind (k : tkind) (o : option nat) : option (tkind * nat) :=
  match o with Some n => Some (k, n) | None => None end.

(* the ordered alternation of Parser.lrules *)
Definition scan_rules (l : bytes) : option (tkind * nat) :=
  orelse (scan_single 91 TLeftBracket l)
  (orelse (scan_single 93 TRightBracket l)
  (orelse (scan_single 40 TLeftParen l)
  (orelse (scan_single 41 TRightParen l)
  (orelse (scan_single 123 TLeftCBracket l)
  (orelse (scan_single 125 TRightCBracket l)
  (orelse (scan_single 59 TSemicolon l)
  (orelse (scan_single 44 TComma l)
  (orelse (with_kind THashComment (scan_hash l))
  (orelse (with_kind TBracketComment (scan_bracket_comment l))
  (orelse (with_kind TMultiline (scan_multiline l))
  (orelse (with_kind TString (scan_string l))
  (orelse (with_kind TIdentifier (scan_identifier l))
  (orelse (with_kind TTag (scan_tag l))
          (with_kind TNumber (scan_number l))))))))))))))).

Inductive lexstep :=
| LEnd                       (* only whitespace left *)
| LTok (t : token) (rest : bytes) (* rest starts right after the token *)
| LErr (pos : nat).          (* no rule matches at pos *)

(* one iteration of Lexer.scan from byte offset [pos] where [l] is text[pos:] *)
Definition next_token (pos : nat) (l : bytes) : lexstep :=
  let ws := take_while is_space l in
  let l1 := drop_while is_space l in
  let p1 := (pos + length ws)%nat in
  match l1 with
  | [] => LEnd
  | _ =>
      match scan_rules l1 with
      | Some (k, n) => LTok (mkTok k (firstn n l1) p1) (skipn n l1)
      | None => LErr p1
      end
  end.

(* the whole token stream (fuel = number of bytes + 1 is always enough: every token is non-empty) *)
Fixpoint lex_all (fuel : nat) (pos : nat) (l : bytes) : list token * option nat :=
  match fuel with
  | O => ([], Some pos)
  | S f =>
      match next_token pos l with
      | LEnd => ([], None)
      | LErr p => ([], Some p)
      | LTok t rest =>
          let '(ts, e) := lex_all f (t_pos t + length (t_val t))%nat rest in
          (t :: ts, e)
      end
  end.

Definition lex (l : bytes) : list token * option nat := lex_all (S (length l)) 0 l.

(* Lexer.curlineno / curcolno at byte offset pos *)
Definition count_lf (l : bytes) : nat := length (filter (fun c => c =? 10) l).
Definition lineno (text : bytes) (pos : nat) : nat := S (count_lf (firstn pos text)).
(* pos - text.rfind(LF, 0, pos): number of bytes after the last LF of text[:pos], plus one *)
Fixpoint since_lf (l : bytes) (acc : nat) : nat :=
  match l with
  | [] => acc
  | c :: t => if c =? 10 then since_lf t 0 else since_lf t (S acc)
  end.
Definition colno (text : bytes) (pos : nat) : nat := S (since_lf (firstn pos text) 0).

(* strict UTF-8 well-formedness (Unicode Table 3-7), as CPython's decoder *)
Definition in_rng (lo hi c : N) : bool := (lo <=? c) && (c <=? hi).
Fixpoint utf8_valid (l : bytes) : bool :=
  match l with
  | [] => true
  | a :: t =>
      if a <? 128 then utf8_valid t
      else if in_rng 194 223 a then
        match t with b :: t1 => in_rng 128 191 b && utf8_valid t1 | _ => false end
      else if a =? 224 then
        match t with b :: c :: t2 => in_rng 160 191 b && in_rng 128 191 c && utf8_valid t2 | _ => false end
      else if in_rng 225 236 a || in_rng 238 239 a then
        match t with b :: c :: t2 => in_rng 128 191 b && in_rng 128 191 c && utf8_valid t2 | _ => false end
      else if a =? 237 then
        match t with b :: c :: t2 => in_rng 128 159 b && in_rng 128 191 c && utf8_valid t2 | _ => false end
      else if a =? 240 then
        match t with b :: c :: d :: t3 => in_rng 144 191 b && in_rng 128 191 c && in_rng 128 191 d && utf8_valid t3 | _ => false end
      else if in_rng 241 243 a then
        match t with b :: c :: d :: t3 => in_rng 128 191 b && in_rng 128 191 c && in_rng 128 191 d && utf8_valid t3 | _ => false end
      else if a =? 244 then
        match t with b :: c :: d :: t3 => in_rng 128 143 b && in_rng 128 191 c && in_rng 128 191 d && utf8_valid t3 | _ => false end
      else false
  end.
