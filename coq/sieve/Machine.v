(* Machine.v — executable model of sievelib.parser.Parser (definitions only).

   The parse tree with parent pointers is a stack of in-progress commands ([frame]s, head =
   __curcommand, [] = None).  Python attaches a command to its parent when it is created and
   then mutates it; the model attaches it when it is left ([leave]), which is observationally
   the same because nothing reads an in-progress command through its parent (see DESIGN.md 3.3;
   the placeholder stored for a test argument keeps dict insertion order).
   Lexing is lazy as in Python: one token at a time, so a lexical error is only reported
   when the parser gets there. *)
From Coq Require Import List NArith Bool.
From SV Require Import Bytes Lexer Tables ArgCheck.
Import ListNotations.

Inductive cst := CNone | CArgs | CStrList.
Inductive bracket := BRBracket | BRParen | BRCBracket.

Definition bracket_eqb (a b : bracket) : bool :=
  match a, b with
  | BRBracket, BRBracket | BRParen, BRParen | BRCBracket, BRCBracket => true
  | _, _ => false
  end.

Definition closing_kind (b : bracket) : tkind :=
  match b with BRBracket => TRightBracket | BRParen => TRightParen | BRCBracket => TRightCBracket end.

Record pstate := mkP {
  p_stack : list frame;
  p_cstate : cst;
  p_curlist : list bytes;
  p_expected : option (list tkind);
  p_brackets : list bracket;        (* head = most recently opened *)
  p_loaded : list bytes;            (* RequireCommand.loaded_extensions *)
  p_hash : list bytes;              (* Parser.hash_comments *)
  p_result : list node              (* Parser.result *)
}.

Definition p_init : pstate := mkP [] CNone [] None [] [] [] [].

Definition with_stack s (st : pstate) := mkP s (p_cstate st) (p_curlist st) (p_expected st) (p_brackets st) (p_loaded st) (p_hash st) (p_result st).
Definition with_cstate c (st : pstate) := mkP (p_stack st) c (p_curlist st) (p_expected st) (p_brackets st) (p_loaded st) (p_hash st) (p_result st).
Definition with_curlist l (st : pstate) := mkP (p_stack st) (p_cstate st) l (p_expected st) (p_brackets st) (p_loaded st) (p_hash st) (p_result st).
Definition with_expected e (st : pstate) := mkP (p_stack st) (p_cstate st) (p_curlist st) e (p_brackets st) (p_loaded st) (p_hash st) (p_result st).
Definition with_brackets b (st : pstate) := mkP (p_stack st) (p_cstate st) (p_curlist st) (p_expected st) b (p_loaded st) (p_hash st) (p_result st).
Definition with_loaded l (st : pstate) := mkP (p_stack st) (p_cstate st) (p_curlist st) (p_expected st) (p_brackets st) l (p_hash st) (p_result st).
Definition with_hash h (st : pstate) := mkP (p_stack st) (p_cstate st) (p_curlist st) (p_expected st) (p_brackets st) (p_loaded st) h (p_result st).
Definition with_result r (st : pstate) := mkP (p_stack st) (p_cstate st) (p_curlist st) (p_expected st) (p_brackets st) (p_loaded st) (p_hash st) r.

(* results of the boolean-returning parser methods *)
Inductive mres :=
| MTrue (st : pstate)
| MRewind (st : pstate)     (* True, and the lexer was rewound: the same token comes again *)
| MFalse (st : pstate)
| MErr (e : perr)
| MCrash.

Definition is_test (f : frame) : bool := match d_type (f_def f) with CTest => true | _ => false end.
Definition is_control (f : frame) : bool := match d_type (f_def f) with CControl => true | _ => false end.
Definition is_action (f : frame) : bool := match d_type (f_def f) with CAction => true | _ => false end.

Definition placeholder : aval := VTests [].

(* attach the command being left to its parent frame *)
Definition attach_into (child : frame) (parent : frame) : frame :=
  let n := frame_node child [] in
  match f_attach child with
  | AtTop => parent
  | AtChild => mkFrame (f_def parent) (f_args parent) (f_extra parent) (f_children parent ++ [n])
                       (f_nextargpos parent) (f_rargs parent) (f_curarg parent) (f_attach parent)
  | AtTest slot => set_arg parent slot (VTest n)
  | AtTestList slot => append_test parent slot n
  end.

Fixpoint last_opt {A} (l : list A) : option A :=
  match l with [] => None | [x] => Some x | _ :: t => last_opt t end.

Definition pop_bracket (st : pstate) (b : bracket) : pstate + perr :=
  match p_brackets st with
  | [] => inr EBracketNone
  | x :: t => if bracket_eqb x b then inl (with_brackets t st) else inr EBracketMismatch
  end.

(* the upward walk at the end of Parser.__up *)
Fixpoint up_loop (p : frame) (rest : list frame) (expected : option (list tkind))
  : list frame * option (list tkind) :=
  if is_test p && iscomplete p None then
    match rest with
    | [] => ([], expected)
    | gp :: rest' => up_loop (attach_into p gp) rest' expected
    end
  else if is_test p && d_variable_args_nb (f_def p) then (p :: rest, Some [TComma; TRightParen])
       else (p :: rest, expected).

(* Parser.__up *)
Definition up (st : pstate) : mres :=
  match p_stack st with
  | [] => MCrash
  | cur :: rest =>
      let prev := match rest with
                  | [] => last_opt (p_result st)
                  | parent :: _ => last_opt (f_children parent)
                  end in
      let follows_ok :=
          match d_must_follow (f_def cur) with
          | None => true
          | Some mf => match prev with
                       | None => false
                       | Some n => mem (d_name (node_def n)) mf
                       end
          end in
      if negb follows_ok then MErr EMustFollow
      else
        match rest with
        | [] =>
            MTrue (with_stack [] (with_hash [] (with_result (p_result st ++ [frame_node cur (p_hash st)]) st)))
        | parent :: rest' =>
            let '(stack', exp') := up_loop (attach_into cur parent) rest' (p_expected st) in
            MTrue (with_stack stack' (with_expected exp' st))
        end
  end.

(* the loop of Parser.__check_command_completion: leave [cur] and walk up *)
Fixpoint cc_loop (cur : frame) (rest : list frame) (st : pstate) : mres :=
  match rest with
  | [] => MTrue (with_stack [cur] st)
  | parent :: rest' =>
      let p1 := attach_into cur parent in
      if is_control p1 || is_test p1 then
        if iscomplete p1 None then
          if is_control p1 then MTrue (with_stack (p1 :: rest') (with_expected (Some [TLeftCBracket]) st))
          else cc_loop p1 rest' st
        else
          match check_next_arg p1 TyTest placeholder false true (p_loaded st) with
          | CnaFalse => MFalse (with_stack (p1 :: rest') st)
          | CnaErr e => MErr e
          | CnaCrash => MCrash
          | CnaOk p2 _ =>
              if negb (iscomplete p2 None) then
                MTrue (with_stack (p2 :: rest')
                                  (if d_variable_args_nb (f_def p2)
                                   then with_expected (Some [TComma; TRightParen]) st else st))
              else cc_loop p2 rest' st
          end
      else cc_loop p1 rest' st
  end.

(* Parser.__check_command_completion *)
Definition check_completion (st : pstate) (testsemicolon : bool) : mres :=
  match p_stack st with
  | [] => MCrash
  | cur :: rest =>
      if negb (iscomplete cur None) then MTrue st
      else if is_action cur || (is_control cur && negb (d_accept_children (f_def cur))) then
             MTrue (if testsemicolon then with_expected (Some [TSemicolon]) st else st)
           else cc_loop cur rest st
  end.

(* commands.get_command_instance (checkexists = True) *)
Definition get_command_instance (T : tables) (loaded : list bytes) (name : bytes) : cmddef + perr :=
  match lookup_cmd T (lower name) with
  | None => inr (EUnknownCommand name)
  | Some d =>
      match d_extension d with
      | Some ext =>
          match ext with
          | [] => inl d
          | _ => if mem ext loaded then inl d else inr (EExtNotLoaded ext)
          end
      | None => inl d
      end
  end.

Definition replace_top (f : frame) (st : pstate) : pstate :=
  match p_stack st with
  | [] => st
  | _ :: rest => with_stack (f :: rest) st
  end.

Definition lift_cna (r : cna) (st : pstate) (k : pstate -> mres) : mres :=
  match r with
  | CnaOk f _ => k (replace_top f st)
  | CnaFalse => MFalse st
  | CnaErr e => MErr e
  | CnaCrash => MCrash
  end.

(* Parser.__stringlist *)
Definition m_stringlist (st : pstate) (t : token) : mres :=
  match p_stack st with
  | [] => MCrash
  | cur :: _ =>
      match t_kind t with
      | TString =>
          if negb (utf8_valid (t_val t)) then MErr EInvalidUtf8
          else MTrue (with_expected (Some [TComma; TRightBracket]) (with_curlist (p_curlist st ++ [t_val t]) st))
      | TComma => MTrue (with_expected (Some [TString]) st)
      | TRightBracket =>
          match pop_bracket st BRBracket with
          | inr e => MErr e
          | inl st1 =>
              lift_cna (check_next_arg cur TyStringList (VList (p_curlist st1)) true true (p_loaded st1)) st1
                       (fun st2 => check_completion (with_cstate CArgs st2) true)
          end
      | _ => MFalse st
      end
  end.

(* Parser.__argument *)
Definition m_argument (st : pstate) (t : token) : mres :=
  match p_stack st with
  | [] => MCrash
  | cur :: _ =>
      match t_kind t with
      | TMultiline | TString =>
          if negb (utf8_valid (t_val t)) then MErr EInvalidUtf8
          else lift_cna (check_next_arg cur TyString (VStr (t_val t)) true true (p_loaded st)) st MTrue
      | TNumber => lift_cna (check_next_arg cur TyNumber (VStr (t_val t)) true true (p_loaded st)) st MTrue
      | TTag => lift_cna (check_next_arg cur TyTag (VStr (t_val t)) true true (p_loaded st)) st MTrue
      | TLeftBracket =>
          MTrue (with_expected (Some [TString])
                   (with_curlist [] (with_cstate CStrList (with_brackets (BRBracket :: p_brackets st) st))))
      | TLeftCBracket | TComma =>
          if d_non_deterministic_args (f_def cur) then
            match reassign_arguments cur with
            | None => MCrash
            | Some cur' =>
                let st' := replace_top cur' st in
                if negb (iscomplete cur' None) then MFalse st' else MRewind st'
            end
          else MFalse st
      | _ => MFalse st
      end
  end.

(* Parser.__arguments *)
Definition m_arguments (T : tables) (st : pstate) (t : token) : mres :=
  match t_kind t with
  | TIdentifier =>
      match p_stack st with
      | [] => MCrash
      | cur :: _ =>
          match get_command_instance T (p_loaded st) (t_val t) with
          | inr e => MErr e
          | inl d =>
              match d_type d with
              | CTest =>
                  match check_next_arg cur TyTest placeholder true true (p_loaded st) with
                  | CnaFalse => MFalse st
                  | CnaErr e => MErr e
                  | CnaCrash => MCrash
                  | CnaOk cur' slot =>
                      let at_ := match slot with
                                 | Some ca => match a_type ca with
                                              | [TyTestList] => AtTestList (a_name ca)
                                              | _ => AtTest (a_name ca)
                                              end
                                 | None => AtTop
                                 end in
                      let st1 := with_expected (d_expected_first d) (replace_top cur' st) in
                      check_completion (with_stack (new_frame d at_ :: p_stack st1) st1) false
                  end
              | _ => MErr (ENotTest (d_name d))
              end
          end
      end
  | TLeftParen =>
      MTrue (with_expected (Some [TIdentifier]) (with_brackets (BRParen :: p_brackets st) st))
  | TComma => MTrue (with_expected (Some [TIdentifier]) st)
  | TRightParen =>
      match pop_bracket st BRParen with
      | inr e => MErr e
      | inl st1 => up st1
      end
  | _ =>
      match m_argument st t with
      | MTrue st1 => check_completion st1 false
      | MRewind st1 =>
          match check_completion st1 false with
          | MTrue st2 => MRewind st2
          | r => r
          end
      | r => r
      end
  end.

(* RequireCommand.complete_cb *)
Definition capabilities_key : bytes := [99;97;112;97;98;105;108;105;116;105;101;115].

Fixpoint load_exts (exts : list bytes) (loaded : list bytes) : list bytes :=
  match exts with
  | [] => loaded
  | e :: t => let e' := strip_dq e in
              load_exts t (if mem e' loaded then loaded else loaded ++ [e'])
  end.

Definition complete_cb (st : pstate) : mres :=
  match p_stack st with
  | [] => MCrash
  | cur :: _ =>
      match d_complete (f_def cur) with
      | HNone => MTrue st
      | HRequire =>
          match assoc_get capabilities_key (f_args cur) with
          | None => MTrue st
          | Some (VList l) => MTrue (with_loaded (load_exts l (p_loaded st)) st)
          | Some (VStr s) => MTrue (with_loaded (load_exts [s] (p_loaded st)) st)
          | Some _ => MCrash
          end
      end
  end.

(* a tag of the current command still waits for its parameter *)
Definition pending_param (f : frame) : bool :=
  match f_curarg f with
  | Some ca => match a_extra ca with Some _ => true | None => false end
  | None => false
  end.

(* Parser.__command *)
Definition m_command (T : tables) (st : pstate) (t : token) : mres :=
  match p_cstate st with
  | CNone =>
      match t_kind t with
      | TRightCBracket =>
          match pop_bracket st BRCBracket with
          | inr e => MErr e
          | inl st1 =>
              match up st1 with
              | MTrue st2 => MTrue (with_cstate CNone st2)
              | r => r
              end
          end
      | TIdentifier =>
          match get_command_instance T (p_loaded st) (t_val t) with
          | inr e => MErr e
          | inl d =>
              match d_type d with
              | CTest => MErr (EFirstCommand (d_name d))
              | _ =>
                  let st1 := match d_type d with
                             | CControl => if d_accept_children d && has_arguments d
                                           then with_expected (Some [TIdentifier]) st else st
                             | _ => st
                             end in
                  match p_stack st with
                  | [] => MTrue (with_cstate CArgs (with_stack [new_frame d AtTop] st1))
                  | cur :: _ =>
                      if d_accept_children (f_def cur)
                      then MTrue (with_cstate CArgs (with_stack (new_frame d AtChild :: p_stack st) st1))
                      else MErr EUnexpectedAfter
                  end
              end
          end
      | _ => MFalse st
      end
  | cs =>
      let r := match cs with
               | CStrList => m_stringlist st t
               | _ => m_arguments T st t
               end in
      match r with
      | MFalse st1 =>
          match t_kind t with
          | TLeftCBracket =>
              match p_stack st1 with
              | [] => MCrash
              | cur :: _ =>
                  if is_control cur && d_accept_children (f_def cur) && iscomplete cur None
                  then MTrue (with_cstate CNone (with_brackets (BRCBracket :: p_brackets st1) st1))
                  else MFalse st1
              end
          | TSemicolon =>
              match p_stack st1 with
              | [] => MCrash
              | cur :: _ =>
                  if is_test cur || d_accept_children (f_def cur) then MFalse st1
                  else if pending_param cur then MErr EMissingParam
                  else
                    match check_completion (with_cstate CNone st1) false with
                    | MTrue st2 =>
                        match complete_cb st2 with
                        | MTrue st3 => up st3
                        | r' => r'
                        end
                    | MRewind st2 => MCrash
                    | r' => r'
                    end
              end
          | _ => MFalse st1
          end
      | _ => r
      end
  end.

Fixpoint kind_mem (k : tkind) (l : list tkind) : bool :=
  match l with [] => false | x :: t => tkind_eqb k x || kind_mem k t end.

(* the body of the token loop of Parser.parse *)
Definition process (T : tables) (st : pstate) (t : token) : mres :=
  match t_kind t with
  | THashComment => MTrue (with_hash (p_hash st ++ [strip_ws (t_val t)]) st)
  | TBracketComment => MTrue st
  | k =>
      match p_expected st with
      | Some l =>
          if kind_mem k l then m_command T (with_expected None st) t else MErr EExpected
      | None => m_command T st t
      end
  end.

Inductive outcome :=
| Accept (result : list node)
| Reject (e : perr) (pos : nat) (tlen : nat)   (* lexer.pos and len(tvalue) when the error was raised *)
| Crash (pos : nat)
| OutOfFuel.

Definition finish (st : pstate) (endpos lastlen : nat) : outcome :=
  let exp := match p_brackets st with
             | b :: _ => Some [closing_kind b]
             | [] => p_expected st
             end in
  match exp with
  | Some _ => Reject EEndExpected endpos lastlen
  | None =>
      match p_stack st with
      | _ :: _ => Reject EEndUnfinished endpos lastlen
      | [] => Accept (p_result st)
      end
  end.

(* [pending] = a token delivered again after a lexer rewind *)
Fixpoint run_loop (fuel : nat) (T : tables) (pos : nat) (rest : bytes) (lastlen : nat)
         (pending : option (token * bytes)) (st : pstate) : outcome :=
  match fuel with
  | O => OutOfFuel
  | S f =>
      let step (t : token) (after : bytes) :=
          match process T st t with
          | MTrue st' => run_loop f T (t_pos t + length (t_val t)) after (length (t_val t)) None st'
          | MRewind st' => run_loop f T (t_pos t) rest (length (t_val t)) (Some (t, after)) st'
          | MFalse _ => Reject EUnexpectedToken (t_pos t) (length (t_val t))
          | MErr e => Reject e (t_pos t) (length (t_val t))
          | MCrash => Crash (t_pos t)
          end in
      match pending with
      | Some (t, after) => step t after
      | None =>
          match next_token pos rest with
          | LEnd => finish st (pos + length rest) lastlen
          | LErr p => Reject EUnknownToken p lastlen
          | LTok t after => step t after
          end
      end
  end.

Definition parse (T : tables) (text : bytes) : outcome :=
  run_loop (2 * length text + 2) T 0 text 0 None p_init.

Definition verdict (T : tables) (text : bytes) : bool :=
  match parse T text with Accept _ => true | _ => false end.

(* Parser.error_pos for a rejection *)
Definition error_pos (text : bytes) (o : outcome) : option (nat * nat * nat) :=
  match o with
  | Reject _ pos tlen => Some (lineno text pos, colno text pos, tlen)
  | _ => None
  end.
