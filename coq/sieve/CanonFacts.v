(* CanonFacts.v — every legal argument list has a canonical reordering with the same meaning (C04 for scripts
   whose arguments are not written in definition order).

   If [legal d L args = LComplete am em] (ArgSpec: optional tag groups in any order, possibly repeated, then the
   required positionals) then the arguments read off the maps [am] / [em] in DEFINITION order -- which is what
   Command.tosieve prints -- are again legal and give maps with the same content (same value for every key;
   only the insertion order differs).  Hence the printed form of any accepted command re-parses to an
   equivalent command, and printing that one gives the same text. *)
From Coq Require Import List NArith Bool Arith Lia.
From SV Require Import lib.Bytes sieve.Lexer sieve.Tables sieve.ArgCheck sieve.ArgSpec sieve.Machine sieve.Printer
  sieve.ArgCheckFacts sieve.GateFacts sieve.TotalFacts sieve.LexerFacts sieve.CompleteFacts sieve.CompleteTree
  sieve.RenderFacts sieve.PrintTree.
Import ListNotations.
Local Close Scope N_scope.

(* ---------------------------------------------------------------- association lists as maps *)

Definition meq {V : Type} (a b : list (bytes * V)) : Prop := forall k, assoc_get k a = assoc_get k b.

Definition keys {V : Type} (m : list (bytes * V)) : list bytes := map fst m.

Lemma beq_false_neq : forall a b, beq a b = false <-> a <> b.
Proof.
  intros a b. split.
  - intros H E. subst. rewrite beq_refl in H. discriminate.
  - intro H. destruct (beq a b) eqn:E; [apply beq_eq in E; contradiction|reflexivity].
Qed.

Lemma get_set_same : forall (V : Type) k (v : V) m, assoc_get k (assoc_set k v m) = Some v.
Proof.
  induction m as [|[k' v'] t IH]; cbn; [rewrite beq_refl; reflexivity|].
  destruct (beq k k') eqn:E; cbn; rewrite E; [reflexivity|exact IH].
Qed.

Lemma get_set_other : forall (V : Type) k k' (v : V) m, k <> k' -> assoc_get k (assoc_set k' v m) = assoc_get k m.
Proof.
  intros V k k' v m Hne. induction m as [|[k2 v2] t IH]; cbn.
  - apply beq_false_neq in Hne. rewrite Hne. reflexivity.
  - destruct (beq k' k2) eqn:E; cbn.
    + apply beq_eq in E. subst k2. apply beq_false_neq in Hne. rewrite Hne. reflexivity.
    + destruct (beq k k2); [reflexivity|exact IH].
Qed.

Lemma get_none_notin : forall (V : Type) k (m : list (bytes * V)), ~ In k (keys m) -> assoc_get k m = None.
Proof.
  induction m as [|[k' v'] t IH]; intro H; cbn; [reflexivity|].
  destruct (beq k k') eqn:E; [apply beq_eq in E; subst; exfalso; apply H; left; reflexivity|].
  apply IH. intro X. apply H. right. exact X.
Qed.

Lemma get_some_in : forall (V : Type) k (m : list (bytes * V)) v, assoc_get k m = Some v -> In k (keys m).
Proof.
  induction m as [|[k' v'] t IH]; intros v H; cbn in *; [discriminate|].
  destruct (beq k k') eqn:E; [apply beq_eq in E; subst; left; reflexivity|right; eapply IH; eauto].
Qed.

Lemma keys_set : forall (V : Type) k (v : V) m x, In x (keys (assoc_set k v m)) -> x = k \/ In x (keys m).
Proof.
  induction m as [|[k' v'] t IH]; intros x H; cbn in *.
  - destruct H as [<-|[]]. left. reflexivity.
  - destruct (beq k k') eqn:E; cbn in H.
    + destruct H as [<-|H]; [right; left; reflexivity|right; right; exact H].
    + destruct H as [<-|H]; [right; left; reflexivity|]. destruct (IH x H); [left; assumption|right; right; assumption].
Qed.

Lemma keys_del : forall (V : Type) k (m : list (bytes * V)) x, In x (keys (assoc_del k m)) -> In x (keys m).
Proof.
  induction m as [|[k' v'] t IH]; intros x H; cbn in *; [exact H|].
  destruct (beq k k'); cbn in H; [right; exact H|]. destruct H as [<-|H]; [left; reflexivity|right; apply IH; exact H].
Qed.

Lemma nodup_set : forall (V : Type) k (v : V) m, NoDup (keys m) -> NoDup (keys (assoc_set k v m)).
Proof.
  induction m as [|[k' v'] t IH]; intro H; cbn.
  - constructor; [intros []|constructor].
  - inversion H as [|x l Hx Hl]; subst. destruct (beq k k') eqn:E; cbn.
    + constructor; assumption.
    + constructor; [|apply IH; exact Hl]. intro X. destruct (keys_set _ _ _ _ _ X) as [->|X'].
      * rewrite beq_refl in E. discriminate.
      * contradiction.
Qed.

Lemma nodup_del : forall (V : Type) k (m : list (bytes * V)), NoDup (keys m) -> NoDup (keys (assoc_del k m)).
Proof.
  induction m as [|[k' v'] t IH]; intro H; cbn; [constructor|].
  inversion H as [|x l Hx Hl]; subst. destruct (beq k k'); [exact Hl|].
  cbn. constructor; [|apply IH; exact Hl]. intro X. apply Hx. eapply keys_del. exact X.
Qed.

Lemma get_del_same : forall (V : Type) k (m : list (bytes * V)), NoDup (keys m) -> assoc_get k (assoc_del k m) = None.
Proof.
  induction m as [|[k' v'] t IH]; intro H; cbn; [reflexivity|].
  inversion H as [|x l Hx Hl]; subst. destruct (beq k k') eqn:E.
  - apply beq_eq in E. subst. apply get_none_notin. exact Hx.
  - cbn. rewrite E. apply IH. exact Hl.
Qed.

Lemma get_del_other : forall (V : Type) k k' (m : list (bytes * V)), k <> k' -> assoc_get k (assoc_del k' m) = assoc_get k m.
Proof.
  intros V k k' m Hne. induction m as [|[k2 v2] t IH]; cbn; [reflexivity|].
  destruct (beq k' k2) eqn:E.
  - apply beq_eq in E. subst k2. apply beq_false_neq in Hne. rewrite Hne. reflexivity.
  - cbn. destruct (beq k k2); [reflexivity|exact IH].
Qed.

Lemma meq_set : forall (V : Type) k (v : V) a b, meq a b -> meq (assoc_set k v a) (assoc_set k v b).
Proof.
  intros V k v a b H x. destruct (beq x k) eqn:E.
  - apply beq_eq in E. subst. rewrite !get_set_same. reflexivity.
  - apply beq_false_neq in E. rewrite !get_set_other by exact E. apply H.
Qed.

(* printable and acceptable by the machine (strings valid UTF-8) *)
Definition argP (p : argument) : Prop := arg_pr p /\ arg_ok p.

Lemma nodup_names_inj : forall (l : list argdef), NoDup (map a_name l) ->
  forall s s', In s l -> In s' l -> a_name s = a_name s' -> s = s'.
Proof.
  induction l as [|a l IH]; intros H s s' Hs Hs' E; [destruct Hs|].
  cbn in H. inversion H as [|x xs Hx Hxs]; subst.
  destruct Hs as [<-|Hs]; destruct Hs' as [<-|Hs'].
  - reflexivity.
  - exfalso. apply Hx. rewrite E. apply in_map. exact Hs'.
  - exfalso. apply Hx. rewrite <- E. apply in_map. exact Hs.
  - apply (IH Hxs s s' Hs Hs' E).
Qed.

(* ---------------------------------------------------------------- phase 1: the optional tag groups *)

Section Canon.
  Variables (d : cmddef) (opts reqs : list argdef) (L : list bytes).
  Hypothesis Hargs : d_args d = opts ++ reqs.
  Hypothesis Hopts : forallb opt_slot_ok opts = true.
  Hypothesis Hreqs : forallb req_slot_ok reqs = true.
  Hypothesis Hnd : NoDup (map a_name (opts ++ reqs)).

  Definition ext_ok (s : argdef) : Prop :=
    match a_extension s with Some (c :: e) => mem (c :: e) L = true | _ => True end.

  (* what the maps say about one optional slot *)
  Definition slot_inv (am em : list (bytes * aval)) (s : argdef) : Prop :=
    match assoc_get (a_name s) am with
    | None => assoc_get (a_name s) em = None
    | Some (VStr v) =>
        find_opt opts v L = Some (s, SelYes) /\ ext_ok s /\ tag_ok v = true /\
        match takes_param s v with
        | None => assoc_get (a_name s) em = None
        | Some ex => exists p, assoc_get (a_name s) em = Some (snd p) /\ param_ok ex p = true /\ argP p
        end
    | Some _ => False
    end.

  Definition Inv (am em : list (bytes * aval)) : Prop :=
    NoDup (keys am) /\ NoDup (keys em) /\
    (forall k, In k (keys am) -> In k (map a_name opts)) /\
    (forall k, In k (keys em) -> In k (map a_name opts)) /\
    Forall (slot_inv am em) opts.

  Lemma Inv_nil : Inv [] [].
  Proof.
    unfold Inv. cbn. split; [constructor|]. split; [constructor|]. split; [intros k []|]. split; [intros k []|].
    apply Forall_forall. intros s _. unfold slot_inv. reflexivity.
  Qed.

  Lemma nodup_app_l : forall (A : Type) (a b : list A), NoDup (a ++ b) -> NoDup a.
  Proof.
    induction a as [|x a IH]; intros b H; [constructor|]. cbn in H. inversion H as [|y l Hy Hl]; subst.
    constructor; [intro X; apply Hy; apply in_or_app; left; exact X|apply (IH b Hl)].
  Qed.

  Lemma opt_names_nodup : NoDup (map a_name opts).
  Proof. rewrite map_app in Hnd. apply (nodup_app_l _ _ _ Hnd). Qed.

  Lemma same_name_same_slot : forall s s', In s opts -> In s' opts -> a_name s = a_name s' -> s = s'.
  Proof. apply nodup_names_inj. apply opt_names_nodup. Qed.

  (* one tag group taken by slot [s] *)
  Lemma Inv_step : forall am em s v (po : option argument),
    Inv am em -> In s opts -> find_opt opts v L = Some (s, SelYes) -> ext_ok s -> tag_ok v = true ->
    match takes_param s v, po with
    | None, None => True
    | Some ex, Some p => param_ok ex p = true /\ argP p
    | _, _ => False
    end ->
    Inv (assoc_set (a_name s) (VStr v) am)
        (match po with Some p => assoc_set (a_name s) (snd p) (assoc_del (a_name s) em) | None => assoc_del (a_name s) em end).
  Proof.
    intros am em s v po (N1 & N2 & K1 & K2 & F) Hs Hf He Ht Hp.
    assert (Hem' : NoDup (keys (match po with Some p => assoc_set (a_name s) (snd p) (assoc_del (a_name s) em) | None => assoc_del (a_name s) em end))).
    { destruct po; [apply nodup_set|]; apply nodup_del; exact N2. }
    split; [apply nodup_set; exact N1|]. split; [exact Hem'|].
    split.
    { intros k Hk. destruct (keys_set _ _ _ _ _ Hk) as [->|Hk']; [apply in_map; exact Hs|apply K1; exact Hk']. }
    split.
    { intros k Hk. destruct po as [p|].
      - destruct (keys_set _ _ _ _ _ Hk) as [->|Hk']; [apply in_map; exact Hs|apply K2; eapply keys_del; exact Hk'].
      - apply K2. eapply keys_del. exact Hk. }
    apply Forall_forall. intros s' Hs'. rewrite Forall_forall in F. specialize (F s' Hs').
    destruct (list_eq_dec N.eq_dec (a_name s') (a_name s)) as [E|E].
    - (* the slot itself *)
      assert (s' = s) by (apply same_name_same_slot; assumption). subst s'.
      unfold slot_inv. rewrite get_set_same. split; [exact Hf|]. split; [exact He|]. split; [exact Ht|].
      destruct (takes_param s v) as [ex|]; destruct po as [p|]; try contradiction.
      + exists p. rewrite get_set_same. destruct Hp. auto.
      + apply get_del_same. exact N2.
    - (* another slot: untouched *)
      unfold slot_inv in *. rewrite get_set_other by exact E.
      assert (Hem : assoc_get (a_name s') (match po with Some p => assoc_set (a_name s) (snd p) (assoc_del (a_name s) em) | None => assoc_del (a_name s) em end)
                    = assoc_get (a_name s') em).
      { destruct po; [rewrite get_set_other by exact E|]; apply get_del_other; exact E. }
      rewrite Hem. exact F.
  Qed.

  (* where phase 1 stops: what is left does not start with a tag that an optional slot takes *)
  Definition stops (rargs : list argument) : Prop :=
    match rargs with
    | (TyTag, VStr v) :: _ => find_opt opts v L = None
    | _ => True
    end.

  Lemma phase1 : forall fuel args am0 em0 am em,
    Inv am0 em0 -> Forall argP args -> length args <= fuel ->
    legal_opt fuel opts reqs args L am0 em0 = LComplete am em ->
    exists am1 em1 rargs,
      Inv am1 em1 /\ legal_req reqs rargs L am1 em1 = LComplete am em /\ stops rargs /\ Forall argP rargs.
  Proof.
    induction fuel as [|fuel IH]; intros args am0 em0 am em HI Hpr Hlen H.
    - destruct args; [|cbn in Hlen; lia]. cbn [legal_opt] in H. exists am0, em0, []. cbn. auto.
    - cbn [legal_opt] in H.
      assert (Hstop : legal_req reqs args L am0 em0 = LComplete am em -> stops args ->
                      exists am1 em1 rargs, Inv am1 em1 /\ legal_req reqs rargs L am1 em1 = LComplete am em /\ stops rargs /\ Forall argP rargs).
      { intros H' Hs. exists am0, em0, args. auto. }
      destruct args as [|[t v] args']; [apply Hstop; [exact H|exact I]|].
      destruct t; try (apply Hstop; [exact H|exact I]).
      destruct v as [v|vs|n|ns]; try (apply Hstop; [exact H|exact I]).
      destruct (find_opt opts v L) as [[s sel]|] eqn:Ef; [|apply Hstop; [exact H|exact Ef]].
      destruct (find_opt_sound _ _ _ _ _ Ef) as (Hsel & Hin).
      destruct sel as [| |e]; [|congruence|discriminate].
      inversion Hpr as [|a0 l0 Ha0' Hl0]; subst. pose proof (proj1 Ha0') as Ha0. cbn in Ha0.
      cbn [length] in Hlen.
      (* the two shapes of the extension test lead to the same continuation *)
      assert (Hcont : ext_ok s ->
                match takes_param s v with
                | None => legal_opt fuel opts reqs args' L (assoc_set (a_name s) (VStr v) am0) (assoc_del (a_name s) em0)
                | Some ex =>
                    match args' with
                    | [] => LIncomplete (assoc_set (a_name s) (VStr v) am0) (assoc_del (a_name s) em0)
                    | p :: args'' =>
                        if param_ok ex p
                        then legal_opt fuel opts reqs args'' L (assoc_set (a_name s) (VStr v) am0)
                                       (assoc_set (a_name s) (snd p) (assoc_del (a_name s) em0))
                        else LReject (Some EBadValue)
                    end
                end = LComplete am em ->
                exists am1 em1 rargs, Inv am1 em1 /\ legal_req reqs rargs L am1 em1 = LComplete am em /\ stops rargs /\ Forall argP rargs).
      { intros Hext Hk. destruct (takes_param s v) as [ex|] eqn:Etp.
        - destruct args' as [|p args'']; [discriminate|]. destruct (param_ok ex p) eqn:Epo; [|discriminate].
          inversion Hl0 as [|p0 l1 Hp0 Hl1]; subst.
          refine (IH args'' _ _ am em _ Hl1 _ Hk); [|cbn in Hlen; lia].
          apply (Inv_step am0 em0 s v (Some p) HI Hin Ef Hext Ha0). rewrite Etp. auto.
        - refine (IH args' _ _ am em _ Hl0 _ Hk); [|lia].
          apply (Inv_step am0 em0 s v None HI Hin Ef Hext Ha0). rewrite Etp. exact I. }
      unfold ext_ok in Hcont.
      destruct (a_extension s) as [[|c e]|].
      + apply Hcont; [exact I|exact H].
      + destruct (mem (c :: e) L) eqn:Em; [|discriminate]. apply Hcont; [reflexivity|exact H].
      + apply Hcont; [exact I|exact H].
  Qed.

  (* ---------------------------------------------------------------- the canonical prefix and its replay *)

  Definition ty_of (ev : aval) : atype :=
    match ev with
    | VList _ => TyStringList
    | VStr s => match s with
                | 34%N :: _ => TyString
                | 58%N :: _ => TyTag
                | c :: _ => if is_digit c then TyNumber else TyString
                | [] => TyString
                end
    | _ => TyString
    end.

  Lemma ty_of_cons : forall c t,
    ty_of (VStr (c :: t)) = if (c =? 34)%N then TyString else if (c =? 58)%N then TyTag else if is_digit c then TyNumber else TyString.
  Proof.
    intros c t. unfold ty_of. destruct c as [|p]; [reflexivity|].
    do 6 (destruct p as [p|p|]; try reflexivity).
  Qed.

  Lemma ty_of_pr : forall p, arg_pr p -> ty_of (snd p) = fst p.
  Proof.
    intros [[] [s0|items|n0|ns0]] H; cbn in H; try contradiction; cbn [fst snd]; try reflexivity.
    - destruct (tag_ok_shape s0 H) as (r & -> & _). reflexivity.
    - destruct H as [H|(_ & Hm)].
      + destruct (exact_string_shape s0 H) as (body & -> & _). reflexivity.
      + destruct (scan_multiline_some _ _ (Hm [] (or_introl eq_refl))) as (t & Hv). rewrite app_nil_r in Hv. subst s0. reflexivity.
    - destruct H as (ds & q & -> & Hne & Hd & _). destruct ds as [|c ds]; [congruence|].
      cbn [forallb] in Hd. apply andb_true_iff in Hd as [Hc _]. cbn [app]. rewrite ty_of_cons, Hc.
      destruct (digit_facts c Hc) as (_ & _ & _ & _ & _ & _ & _ & _ & _ & _ & E34 & E58 & _). rewrite E34, E58. reflexivity.
  Qed.

  Definition canon_slot (am em : list (bytes * aval)) (s : argdef) : list argument :=
    match assoc_get (a_name s) am with
    | Some (VStr v) =>
        (TyTag, VStr v) :: match takes_param s v, assoc_get (a_name s) em with
                           | Some _, Some ev => [(ty_of ev, ev)]
                           | _, _ => []
                           end
    | _ => []
    end.

  Definition canon_opts (am em : list (bytes * aval)) (os : list argdef) : list argument :=
    flat_map (canon_slot am em) os.

  (* the maps after the canonical groups of [os] have been taken, starting from (a, e) *)
  Definition replay1 (am em : list (bytes * aval)) (ae : list (bytes * aval) * list (bytes * aval)) (s : argdef) :=
    match assoc_get (a_name s) am with
    | Some (VStr v) =>
        (assoc_set (a_name s) (VStr v) (fst ae),
         match takes_param s v, assoc_get (a_name s) em with
         | Some _, Some ev => assoc_set (a_name s) ev (assoc_del (a_name s) (snd ae))
         | _, _ => assoc_del (a_name s) (snd ae)
         end)
    | _ => ae
    end.

  Lemma legal_opt_stops : forall f rargs a e, stops rargs -> legal_opt f opts reqs rargs L a e = legal_req reqs rargs L a e.
  Proof.
    intros f rargs a e H. destruct f; [reflexivity|]. cbn [legal_opt].
    destruct rargs as [|[t v] r]; [reflexivity|]. destruct t; try reflexivity. destruct v; try reflexivity.
    cbn in H. rewrite H. reflexivity.
  Qed.

  Lemma replay_run : forall am1 em1 os rargs fuel a e,
    Inv am1 em1 -> (forall s, In s os -> In s opts) -> stops rargs ->
    length (canon_opts am1 em1 os ++ rargs) <= fuel ->
    legal_opt fuel opts reqs (canon_opts am1 em1 os ++ rargs) L a e =
    legal_req reqs rargs L (fst (fold_left (replay1 am1 em1) os (a, e))) (snd (fold_left (replay1 am1 em1) os (a, e))).
  Proof.
    intros am1 em1 os. induction os as [|s os IH]; intros rargs fuel a e HI Hsub Hst Hlen.
    - cbn. apply legal_opt_stops. exact Hst.
    - destruct HI as (N1 & N2 & K1 & K2 & F). pose proof F as F'. rewrite Forall_forall in F'.
      pose proof (F' s (Hsub s (or_introl eq_refl))) as Hs. unfold slot_inv in Hs.
      unfold canon_opts in *. cbn [flat_map fold_left]. unfold canon_slot at 1.
      cbn [flat_map] in Hlen. unfold canon_slot at 1 in Hlen.
      assert (Hsub' : forall s0, In s0 os -> In s0 opts) by (intros s0 H0; apply Hsub; right; exact H0).
      assert (HI : Inv am1 em1) by (unfold Inv; auto).
      destruct (assoc_get (a_name s) am1) as [[v|vs|n0|ns0]|] eqn:Ea; try contradiction.
      + destruct Hs as (Hf & Hext & Htag & Hp).
        assert (Hstep : forall f' rest' a' e',
                  legal_opt (S f') opts reqs ((TyTag, VStr v) :: rest') L a' e' =
                  match takes_param s v with
                  | None => legal_opt f' opts reqs rest' L (assoc_set (a_name s) (VStr v) a') (assoc_del (a_name s) e')
                  | Some ex =>
                      match rest' with
                      | [] => LIncomplete (assoc_set (a_name s) (VStr v) a') (assoc_del (a_name s) e')
                      | p :: args'' =>
                          if param_ok ex p
                          then legal_opt f' opts reqs args'' L (assoc_set (a_name s) (VStr v) a')
                                         (assoc_set (a_name s) (snd p) (assoc_del (a_name s) e'))
                          else LReject (Some EBadValue)
                      end
                  end).
        { intros f' rest' a' e'. cbn [legal_opt]. rewrite Hf. unfold ext_ok in Hext.
          destruct (a_extension s) as [[|c0 e0]|]; try reflexivity. rewrite Hext. reflexivity. }
        destruct (takes_param s v) as [ex|] eqn:Etp.
        * destruct Hp as (p & Hep & Hpo & Hpr). rewrite Hep. rewrite Hep in Hlen.
          cbn [app] in *. destruct fuel as [|fuel]; [cbn [length] in Hlen; lia|]. rewrite Hstep.
          cbn [app]. rewrite (ty_of_pr p (proj1 Hpr)). replace (fst p, snd p) with p by (destruct p; reflexivity).
          rewrite Hpo.
          assert (HR : replay1 am1 em1 (a, e) s = (assoc_set (a_name s) (VStr v) a, assoc_set (a_name s) (snd p) (assoc_del (a_name s) e)))
            by (unfold replay1; rewrite Ea, Etp, Hep; reflexivity).
          rewrite HR.
          apply (IH rargs fuel _ _ HI Hsub' Hst). cbn [length] in Hlen. lia.
        * cbn [app] in *. destruct fuel as [|fuel]; [cbn [length] in Hlen; lia|]. rewrite Hstep.
          assert (HR : replay1 am1 em1 (a, e) s = (assoc_set (a_name s) (VStr v) a, assoc_del (a_name s) e))
            by (unfold replay1; rewrite Ea, Etp; reflexivity).
          rewrite HR.
          apply (IH rargs fuel _ _ HI Hsub' Hst). cbn [length] in Hlen. lia.
      + cbn [app] in *.
        assert (HR : replay1 am1 em1 (a, e) s = (a, e)) by (unfold replay1; rewrite Ea; reflexivity).
        rewrite HR. apply (IH rargs fuel a e HI Hsub' Hst Hlen).
  Qed.

  (* the replayed maps have the same content as the original phase-1 maps *)
  Definition J (am1 em1 : list (bytes * aval)) (dn : list bytes) (a e : list (bytes * aval)) : Prop :=
    (forall k, In k dn -> assoc_get k a = assoc_get k am1 /\ assoc_get k e = assoc_get k em1) /\
    (forall k, ~ In k dn -> assoc_get k a = None /\ assoc_get k e = None).

  Lemma get_del_none : forall (V : Type) k (m : list (bytes * V)), assoc_get k m = None -> assoc_del k m = m.
  Proof.
    induction m as [|[k' v'] t IH]; intro H; cbn in *; [reflexivity|].
    destruct (beq k k'); [discriminate|]. rewrite IH by exact H. reflexivity.
  Qed.

  Lemma replay_inv : forall am1 em1 os dn a e,
    Inv am1 em1 -> (forall s, In s os -> In s opts) -> NoDup (dn ++ map a_name os) ->
    J am1 em1 dn a e ->
    J am1 em1 (dn ++ map a_name os)
      (fst (fold_left (replay1 am1 em1) os (a, e))) (snd (fold_left (replay1 am1 em1) os (a, e))).
  Proof.
    intros am1 em1 os. induction os as [|s os IH]; intros dn a e HI Hsub Hnd' HJ.
    - cbn. rewrite app_nil_r. exact HJ.
    - cbn [fold_left map]. replace (dn ++ a_name s :: map a_name os) with ((dn ++ [a_name s]) ++ map a_name os)
        by (rewrite <- app_assoc; reflexivity).
      assert (Hsub' : forall s0, In s0 os -> In s0 opts) by (intros s0 H0; apply Hsub; right; exact H0).
      assert (Hnd2 : NoDup ((dn ++ [a_name s]) ++ map a_name os)) by (rewrite <- app_assoc; exact Hnd').
      assert (Hfresh : ~ In (a_name s) dn).
      { intro X. cbn [map] in Hnd'. apply NoDup_remove_2 in Hnd'. apply Hnd'. apply in_or_app. left. exact X. }
      destruct HI as (N1 & N2 & K1 & K2 & F). pose proof F as F'. rewrite Forall_forall in F'.
      pose proof (F' s (Hsub s (or_introl eq_refl))) as Hs. unfold slot_inv in Hs.
      assert (HI : Inv am1 em1) by (unfold Inv; auto).
      destruct HJ as (J1 & J2). destruct (J2 _ Hfresh) as (Ja & Je).
      assert (HJ' : J am1 em1 (dn ++ [a_name s]) (fst (replay1 am1 em1 (a, e) s)) (snd (replay1 am1 em1 (a, e) s))).
      { unfold replay1. cbn [fst snd].
        destruct (assoc_get (a_name s) am1) as [[v|vs|n0|ns0]|] eqn:Ea; try contradiction.
        - destruct Hs as (_ & _ & _ & Hp).
          set (e' := match takes_param s v, assoc_get (a_name s) em1 with
                     | Some _, Some ev => assoc_set (a_name s) ev (assoc_del (a_name s) e)
                     | _, _ => assoc_del (a_name s) e
                     end).
          assert (He's : assoc_get (a_name s) e' = assoc_get (a_name s) em1).
          { unfold e'. destruct (takes_param s v) as [ex|].
            - destruct Hp as (p & Hep & _). rewrite Hep. rewrite get_set_same. reflexivity.
            - rewrite Hp. rewrite (get_del_none _ _ _ Je). exact Je. }
          assert (He'o : forall k, k <> a_name s -> assoc_get k e' = assoc_get k e).
          { intros k Hk. unfold e'. rewrite (get_del_none _ _ _ Je).
            destruct (takes_param s v); [destruct (assoc_get (a_name s) em1)|]; try reflexivity.
            apply get_set_other. exact Hk. }
          cbn [fst snd]. split.
          + intros k Hk. apply in_app_or in Hk. destruct Hk as [Hk|[<-|[]]].
            * assert (k <> a_name s) by (intro X; subst; contradiction).
              rewrite get_set_other by assumption. rewrite He'o by assumption. apply J1. exact Hk.
            * rewrite get_set_same, Ea. split; [reflexivity|exact He's].
          + intros k Hk. assert (Hk1 : ~ In k dn) by (intro X; apply Hk; apply in_or_app; left; exact X).
            assert (Hk2 : k <> a_name s) by (intro X; apply Hk; apply in_or_app; right; left; symmetry; exact X).
            rewrite get_set_other by exact Hk2. rewrite He'o by exact Hk2. apply J2. exact Hk1.
        - cbn [fst snd]. split.
          + intros k Hk. apply in_app_or in Hk. destruct Hk as [Hk|[<-|[]]]; [apply J1; exact Hk|].
            rewrite Ea, Hs. split; assumption.
          + intros k Hk. apply J2. intro X. apply Hk. apply in_or_app. left. exact X. }
      rewrite (surjective_pairing (replay1 am1 em1 (a, e) s)).
      apply (IH (dn ++ [a_name s]) _ _ HI Hsub' Hnd2 HJ').
  Qed.

  Lemma replay_meq : forall am1 em1,
    Inv am1 em1 ->
    meq (fst (fold_left (replay1 am1 em1) opts ([], []))) am1 /\
    meq (snd (fold_left (replay1 am1 em1) opts ([], []))) em1.
  Proof.
    intros am1 em1 HI.
    assert (HJ0 : J am1 em1 [] [] []) by (split; [intros k []|intros k _; split; reflexivity]).
    pose proof (replay_inv am1 em1 opts [] [] [] HI (fun s H => H) opt_names_nodup HJ0) as (J1 & J2).
    cbn [app] in J1, J2. destruct HI as (N1 & N2 & K1 & K2 & F).
    split; intro k.
    - destruct (in_dec (list_eq_dec N.eq_dec) k (map a_name opts)) as [Hin|Hout].
      + apply (J1 k Hin).
      + rewrite (proj1 (J2 k Hout)). symmetry. apply get_none_notin. intro X. apply Hout. apply K1. exact X.
    - destruct (in_dec (list_eq_dec N.eq_dec) k (map a_name opts)) as [Hin|Hout].
      + apply (J1 k Hin).
      + rewrite (proj2 (J2 k Hout)). symmetry. apply get_none_notin. intro X. apply Hout. apply K2. exact X.
  Qed.

  (* ---------------------------------------------------------------- phase 2: the required positionals *)

  Lemma legal_req_meq : forall rs rargs a a' e e' am em,
    meq a a' -> legal_req rs rargs L a e = LComplete am em ->
    exists am', legal_req rs rargs L a' e' = LComplete am' e' /\ meq am' am /\ em = e.
  Proof.
    induction rs as [|r rs IH]; intros rargs a a' e e' am em Hm H; cbn [legal_req] in *.
    - destruct rargs; [|discriminate]. inversion H; subst. exists a'. split; [reflexivity|]. split; [|reflexivity].
      intro k. symmetry. apply Hm.
    - destruct rargs as [|x rargs]; [discriminate|].
      destruct (req_ok r x L); try discriminate.
      apply (IH rargs (assoc_set (a_name r) (snd x) a) (assoc_set (a_name r) (snd x) a') e e' am em); [apply meq_set; exact Hm|exact H].
  Qed.

  (* what phase 2 records *)
  Lemma legal_req_result : forall rs rargs a e am em,
    NoDup (map a_name rs) -> legal_req rs rargs L a e = LComplete am em ->
    (forall k, ~ In k (map a_name rs) -> assoc_get k am = assoc_get k a) /\
    Forall2 (fun r x => req_ok r x L = SelYes /\ assoc_get (a_name r) am = Some (snd x)) rs rargs.
  Proof.
    induction rs as [|r rs IH]; intros rargs a e am em Hn H; cbn [legal_req] in *.
    - destruct rargs; [|discriminate]. inversion H; subst. split; [auto|constructor].
    - destruct rargs as [|x rargs]; [discriminate|].
      destruct (req_ok r x L) eqn:Er; try discriminate.
      cbn [map] in Hn. inversion Hn as [|y ys Hy Hys]; subst.
      destruct (IH rargs (assoc_set (a_name r) (snd x) a) e am em Hys H) as (A & B).
      split.
      + intros k Hk. rewrite A by (intro X; apply Hk; right; exact X).
        apply get_set_other. intro X. apply Hk. left. symmetry. exact X.
      + constructor; [|exact B]. split; [exact Er|]. rewrite (A _ Hy). apply get_set_same.
  Qed.

  (* ---------------------------------------------------------------- the maps read in definition order *)

  (* table conditions: a tag parameter is never itself a tag; a slot that takes numbers does not also take strings
     (the serialiser appends a line feed to a non-quoted value of a string slot) *)
  Hypothesis TC1 : forall s ex, In s opts -> a_extra s = Some ex ->
    extype_has TyTag (ex_type ex) = false /\
    (extype_has TyNumber (ex_type ex) = true -> has_string_ex (ex_type ex) = false).
  Hypothesis TC2 : forall r, In r reqs -> atype_mem TyNumber (a_type r) = true -> has_string_list (a_type r) = false.
  Hypothesis TC3 : forall r, In r reqs -> atype_mem TyStringList (a_type r) = true -> atype_mem TyString (a_type r) = true.

  Lemma find_def_in : forall l s, NoDup (map a_name l) -> In s l -> find_def l (a_name s) = Some s.
  Proof.
    induction l as [|a l IH]; intros s H Hin; [destruct Hin|]. cbn [find_def].
    cbn in H. inversion H as [|x xs Hx Hxs]; subst. destruct Hin as [<-|Hin]; [rewrite beq_refl; reflexivity|].
    destruct (beq (a_name a) (a_name s)) eqn:E.
    - apply beq_eq in E. exfalso. apply Hx. rewrite E. apply in_map. exact Hin.
    - apply IH; assumption.
  Qed.

  Lemma in_opts_type : forall s, In s opts -> a_type s = [TyTag] /\ a_required s = false.
  Proof.
    intros s H. rewrite forallb_forall in Hopts. destruct (opt_slot_ok_inv s (Hopts s H)) as (A & B & _). auto.
  Qed.

  Lemma plain_opt : forall s, In s opts -> plain_name d (a_name s).
  Proof.
    intros s H. unfold plain_name. rewrite Hargs, (find_def_in (opts ++ reqs) s Hnd (in_or_app _ _ _ (or_introl H))).
    rewrite (proj1 (in_opts_type s H)). exact I.
  Qed.

  Lemma plain_req : forall r, In r reqs -> plain_name d (a_name r).
  Proof.
    intros r H. unfold plain_name. rewrite Hargs, (find_def_in (opts ++ reqs) r Hnd (in_or_app _ _ _ (or_intror H))).
    rewrite forallb_forall in Hreqs. destruct (req_slot_ok_inv r (Hreqs r H)) as (_ & Hs & _).
    destruct (a_type r) as [|[] [|y l]]; try exact I. cbn in Hs. discriminate.
  Qed.

  Lemma val_of_param : forall s ex t v,
    In s opts -> a_extra s = Some ex -> param_ok ex (t, v) = true -> argP (t, v) ->
    val_arg [32%N] d (a_name s) (has_string_ex (ex_type ex)) v (t, v).
  Proof.
    intros s ex t v Hs Hex Hpo (Hpr & _). destruct (TC1 s ex Hs Hex) as (Hnt & Hnum).
    unfold param_ok in Hpo. cbn [fst] in Hpo. apply andb_true_iff in Hpo as [Hty _].
    destruct t; destruct v as [x|l|n0|ns0]; cbn in Hpr; try contradiction.
    - congruence.
    - destruct Hpr as [Hpr|(Hk & Hm)]; [apply va_string; exact Hpr|apply va_ml; [exact Hk|exact Hm|exact Hty]].
    - destruct Hpr as (Hne & Hall). apply va_list; [reflexivity|exact Hne|exact Hall|apply plain_opt; exact Hs].
    - apply va_number; [exact Hpr|apply Hnum; exact Hty].
  Qed.

  Lemma slots_opts : forall am em am1 em1 os rest_slots rest_args,
    Inv am1 em1 -> (forall s, In s os -> In s opts) ->
    (forall s, In s os -> assoc_get (a_name s) am = assoc_get (a_name s) am1 /\
                          assoc_get (a_name s) em = assoc_get (a_name s) em1) ->
    slots_args [32%N] d am em rest_slots rest_args ->
    slots_args [32%N] d am em (os ++ rest_slots) (canon_opts am1 em1 os ++ rest_args).
  Proof.
    intros am em am1 em1 os. induction os as [|s os IH]; intros rs ra HI Hsub Hlk Hrest; [exact Hrest|].
    assert (Hsub' : forall s0, In s0 os -> In s0 opts) by (intros s0 H0; apply Hsub; right; exact H0).
    assert (Hlk' : forall s0, In s0 os -> assoc_get (a_name s0) am = assoc_get (a_name s0) am1 /\
                                         assoc_get (a_name s0) em = assoc_get (a_name s0) em1)
      by (intros s0 H0; apply Hlk; right; exact H0).
    specialize (IH rs ra HI Hsub' Hlk' Hrest).
    pose proof (Hsub s (or_introl eq_refl)) as Hs. destruct (Hlk s (or_introl eq_refl)) as (La & Le).
    destruct HI as (N1 & N2 & K1 & K2 & F). rewrite Forall_forall in F. pose proof (F s Hs) as Hi. unfold slot_inv in Hi.
    destruct (in_opts_type s Hs) as (Hty & _).
    assert (Htag : atype_mem TyTag (a_type s) = true) by (rewrite Hty; reflexivity).
    unfold canon_opts in *. cbn [flat_map app]. unfold canon_slot at 1.
    destruct (assoc_get (a_name s) am1) as [[v|vs|n0|ns0]|] eqn:Ea; try contradiction.
    - destruct Hi as (_ & _ & Htok & Hp).
      destruct (takes_param s v) as [ex|] eqn:Etp.
      + destruct Hp as ([t pv] & Hep & Hpo & Hpp). rewrite Hep. cbn [snd] in *.
        pose proof (ty_of_pr (t, pv) (proj1 Hpp)) as Hty'. cbn [fst snd] in Hty'. rewrite Hty'. cbn [app].
        apply (sa_tag_param [32%N] d am em s (os ++ rs) _ v pv ex (t, pv) Htag); try assumption.
        * rewrite Le. exact Hep.
        * apply (takes_param_extra _ _ _ Etp).
        * apply val_of_param; [exact Hs|apply (takes_param_extra _ _ _ Etp)|exact Hpo|exact Hpp].
      + cbn [app]. apply (sa_tag [32%N] d am em s (os ++ rs) _ v Htag); try assumption.
        left. rewrite Le. exact Hp.
    - cbn [app]. apply sa_absent; [exact La|exact IH].
  Qed.

  Lemma slots_reqs : forall am em rs rargs,
    (forall r, In r rs -> In r reqs) ->
    Forall2 (fun r x => req_ok r x L = SelYes /\ assoc_get (a_name r) am = Some (snd x)) rs rargs ->
    Forall argP rargs -> slots_args [32%N] d am em rs rargs.
  Proof.
    intros am em rs rargs Hsub H. induction H as [|r x rs rargs (Hok & Hget) Hr IH]; intro Hp; [constructor|].
    inversion Hp as [|x' l' Hx Hl]; subst.
    assert (Hsub' : forall r0, In r0 rs -> In r0 reqs) by (intros r0 H0; apply Hsub; right; exact H0).
    specialize (IH Hsub' Hl). pose proof (Hsub r (or_introl eq_refl)) as Hin.
    pose proof Hreqs as Hreqs'. rewrite forallb_forall in Hreqs'.
    pose proof (Hreqs' r Hin) as Hrok. destruct (req_slot_ok_inv r Hrok) as (_ & Hsimple & Hnoex & Htagonly).
    destruct x as [t v]. cbn [snd] in *.
    assert (Hvt : is_valid_type t (a_type r) = true).
    { unfold req_ok in Hok. cbn [fst] in Hok. destruct (is_valid_type t (a_type r)); [reflexivity|discriminate]. }
    destruct Hx as (Hpr & _).
    destruct (atype_mem TyTag (a_type r)) eqn:Etag.
    - (* a required slot that takes a tag *)
      assert (Hty : a_type r = [TyTag]).
      { unfold req_slot_ok in Hrok. rewrite Etag in Hrok. repeat (apply andb_true_iff in Hrok; destruct Hrok as [Hrok ?]).
        match goal with K : is_tag_only r && has_value_test r = true |- _ => apply andb_true_iff in K; destruct K as [K _] end.
        unfold is_tag_only in *. destruct (a_type r) as [|[] [|y l]]; try discriminate. reflexivity. }
      rewrite Hty in Hvt.
      destruct t; destruct v as [s0|l|n0|ns0]; cbn in Hpr; try contradiction; try (cbn in Hvt; discriminate).
      apply (sa_tag [32%N] d am em r rs rargs s0 Etag Hget Hpr); [right; exact Hnoex|exact IH].
    - apply (sa_pos [32%N] d am em r rs rargs v (t, v) Etag Hget); [|exact IH].
      destruct t; destruct v as [s0|l|n0|ns0]; cbn in Hpr; try contradiction.
      + exfalso. unfold is_valid_type in Hvt. rewrite Etag in Hvt. cbn in Hvt. discriminate.
      + destruct Hpr as [Hpr|(Hk & Hm)]; [apply va_string; exact Hpr|apply va_ml; [exact Hk|exact Hm|]].
        unfold has_string_list. unfold is_valid_type in Hvt. cbn [atype_eqb] in Hvt.
        destruct (atype_mem TyString (a_type r)) eqn:Es; [reflexivity|]. cbn [orb] in Hvt.
        change (atype_eqb TyString TyString) with true in Hvt. cbn [andb] in Hvt. rewrite (TC3 r Hin Hvt) in Es. discriminate.
      + destruct Hpr as (Hne & Hall). apply va_list; [reflexivity|exact Hne|exact Hall|apply plain_req; exact Hin].
      + apply va_number; [exact Hpr|]. apply (TC2 r Hin). unfold is_valid_type in Hvt. cbn in Hvt. rewrite orb_false_r in Hvt. exact Hvt.
  Qed.

  Lemma canon_opts_P : forall am1 em1 os, Inv am1 em1 -> (forall s, In s os -> In s opts) -> Forall argP (canon_opts am1 em1 os).
  Proof.
    intros am1 em1 os HI. induction os as [|s os IH]; intro Hsub; [constructor|].
    unfold canon_opts in *. cbn [flat_map]. apply Forall_app. split; [|apply IH; intros s0 H0; apply Hsub; right; exact H0].
    destruct HI as (_ & _ & _ & _ & F). rewrite Forall_forall in F. pose proof (F s (Hsub s (or_introl eq_refl))) as Hi.
    unfold slot_inv in Hi. unfold canon_slot.
    destruct (assoc_get (a_name s) am1) as [[v|vs|n0|ns0]|]; try constructor; try contradiction.
    - split; [exact (proj1 (proj2 (proj2 Hi)))|exact I].
    - destruct Hi as (_ & _ & _ & Hp). destruct (takes_param s v) as [ex|]; [|constructor].
      destruct Hp as (p & Hep & _ & Hpp). rewrite Hep. rewrite (ty_of_pr p (proj1 Hpp)).
      replace (fst p, snd p) with p by (destruct p; reflexivity). constructor; [exact Hpp|constructor].
  Qed.

  Lemma nodup_app_disjoint : forall (A : Type) (a b : list A) x, NoDup (a ++ b) -> In x a -> ~ In x b.
  Proof.
    induction a as [|y a IH]; intros b x H Hin; [destruct Hin|]. cbn in H. inversion H as [|z l Hz Hl]; subst.
    destruct Hin as [<-|Hin]; [intro X; apply Hz; apply in_or_app; right; exact X|apply (IH b x Hl Hin)].
  Qed.

  Lemma nodup_app_r : forall (A : Type) (a b : list A), NoDup (a ++ b) -> NoDup b.
  Proof. induction a as [|x a IH]; intros b H; [exact H|]. cbn in H. inversion H; subst. apply IH. assumption. Qed.

  (* the canonical reordering of a legal argument list: legal again, same content, and it is what the maps
     say when read in definition order *)
  Theorem legal_opt_canonical : forall args am em,
    Forall argP args -> legal_opt (length args) opts reqs args L [] [] = LComplete am em ->
    exists cargs am' em',
      legal_opt (length cargs) opts reqs cargs L [] [] = LComplete am' em' /\ meq am' am /\ meq em' em /\
      slots_args [32%N] d am em (opts ++ reqs) cargs /\ Forall argP cargs.
  Proof.
    intros args am em Hpr H.
    destruct (phase1 (length args) args [] [] am em Inv_nil Hpr (le_n _) H) as (am1 & em1 & rargs & HI & Hreq & Hst & Hrp).
    set (cargs := canon_opts am1 em1 opts ++ rargs).
    pose proof (replay_run am1 em1 opts rargs (length cargs) [] [] HI (fun s H0 => H0) Hst (le_n _)) as Hrun.
    destruct (replay_meq am1 em1 HI) as (Ma & Me).
    set (amB := fst (fold_left (replay1 am1 em1) opts ([], []))) in *.
    set (emB := snd (fold_left (replay1 am1 em1) opts ([], []))) in *.
    assert (Ma' : meq am1 amB) by (intro k; symmetry; apply Ma).
    destruct (legal_req_meq reqs rargs am1 amB em1 emB am em Ma' Hreq) as (am' & Hreq' & Mam & Eem).
    exists cargs, am', emB. fold cargs in Hrun. rewrite Hrun.
    split; [exact Hreq'|]. split; [exact Mam|]. split; [subst em; exact Me|].
    assert (Hnr : NoDup (map a_name reqs)) by (rewrite map_app in Hnd; apply (nodup_app_r _ _ _ Hnd)).
    destruct (legal_req_result reqs rargs am1 em1 am em Hnr Hreq) as (Hkeep & Hf2).
    split.
    - apply slots_opts; [exact HI|auto| |].
      + intros s Hs. split; [|subst em; reflexivity].
        apply Hkeep. rewrite map_app in Hnd. apply (nodup_app_disjoint _ _ _ _ Hnd). apply in_map. exact Hs.
      + apply slots_reqs; [auto|exact Hf2|exact Hrp].
    - apply Forall_app. split; [apply canon_opts_P; [exact HI|auto]|exact Hrp].
  Qed.
End Canon.


(* ---------------------------------------------------------------- on definitions: [legal], and the table conditions *)

Lemma slots_args_meq : forall d am em am' em' defs args,
  meq am am' -> meq em em' -> slots_args [32%N] d am em defs args -> slots_args [32%N] d am' em' defs args.
Proof.
  intros d am em am' em' defs args Ma Me H.
  induction H as [|a rest args Ha H IH|a rest args s Ht Ha Hs Hno H IH|a rest args s ev ex p Ht Ha Hs He Hex Hv H IH
                  |a rest args v p Ht Ha Hv H IH].
  - constructor.
  - apply sa_absent; [rewrite <- Ma; exact Ha|exact IH].
  - apply (sa_tag [32%N] d am' em' a rest args s Ht); [rewrite <- Ma; exact Ha|exact Hs| |exact IH].
    destruct Hno as [Hn|Hn]; [left; rewrite <- Me; exact Hn|right; exact Hn].
  - apply (sa_tag_param [32%N] d am' em' a rest args s ev ex p Ht); [rewrite <- Ma; exact Ha|exact Hs|rewrite <- Me; exact He|exact Hex|exact Hv|exact IH].
  - apply (sa_pos [32%N] d am' em' a rest args v p Ht); [rewrite <- Ma; exact Ha|exact Hv|exact IH].
Qed.

Fixpoint nodupb (l : list bytes) : bool :=
  match l with [] => true | x :: t => negb (mem x t) && nodupb t end.

Lemma mem_in : forall x l, mem x l = true <-> In x l.
Proof.
  induction l as [|y l IH]; cbn; [split; [discriminate|intros []]|].
  rewrite orb_true_iff, IH. split; intros [H|H]; auto; [left; apply beq_eq in H; auto|left; apply beq_eq; auto].
Qed.

Lemma nodupb_nodup : forall l, nodupb l = true -> NoDup l.
Proof.
  induction l as [|x l IH]; intro H; [constructor|]. cbn in H. apply andb_true_iff in H as [A B].
  constructor; [|apply IH; exact B]. intro X. apply mem_in in X. rewrite X in A. discriminate.
Qed.

(* decidable conditions on one definition (checked by computation on the tables generated from the code) *)
Definition extra_sep (a : argdef) : bool :=
  match a_extra a with
  | Some ex => negb (extype_has TyTag (ex_type ex)) && (negb (extype_has TyNumber (ex_type ex)) || negb (has_string_ex (ex_type ex)))
  | None => true
  end.

Definition type_sep (a : argdef) : bool :=
  (negb (atype_mem TyNumber (a_type a)) || negb (has_string_list (a_type a)))
  && (negb (atype_mem TyStringList (a_type a)) || atype_mem TyString (a_type a)).

Definition def_ok (d : cmddef) : bool :=
  nodupb (map a_name (d_args d)) && forallb extra_sep (d_args d) && forallb type_sep (d_args d) && ident_ok (d_name d).

Definition tbl_ok (T : tables) : bool :=
  forallb (fun kd => beq (fst kd) (lower (d_name (snd kd))) && def_ok (snd kd)) T.

Lemma lookup_cmd_in : forall T k d, lookup_cmd T k = Some d -> exists k', In (k', d) T /\ k' = k.
Proof.
  induction T as [|[k' d'] T IH]; cbn; intros k d H; [discriminate|].
  destruct (beq k' k) eqn:E; [inversion H; subst; apply beq_eq in E; subst; eauto|].
  destruct (IH _ _ H) as (k2 & A & B). eauto.
Qed.

Lemma gci_canonical_name : forall T L name d,
  tbl_ok T = true -> get_command_instance T L name = inl d ->
  get_command_instance T L (d_name d) = inl d /\ def_ok d = true.
Proof.
  intros T L name d HT H. unfold get_command_instance in *.
  destruct (lookup_cmd T (lower name)) as [d0|] eqn:El; [|discriminate].
  assert (d0 = d).
  { destruct (d_extension d0) as [[|c e]|]; try (inversion H; reflexivity). destruct (mem (c :: e) L); inversion H; reflexivity. }
  subst d0. destruct (lookup_cmd_in _ _ _ El) as (k' & Hin & ->).
  unfold tbl_ok in HT. rewrite forallb_forall in HT. specialize (HT _ Hin). cbn [fst snd] in HT.
  apply andb_true_iff in HT as [Hk Hd]. apply beq_eq in Hk. rewrite <- Hk, El. split; [exact H|exact Hd].
Qed.

(* the canonical arguments of a legal argument list, at the level of [legal] *)
Theorem legal_canonical : forall d L args am em,
  wf_def d = true -> def_ok d = true -> Forall argP args ->
  legal d L args = LComplete am em ->
  exists cargs am' em',
    legal d L cargs = LComplete am' em' /\ meq am' am /\ meq em' em /\
    slots_args [32%N] d am em (d_args d) cargs /\ Forall argP cargs.
Proof.
  intros d L args am em Hwf Hok Hpr H.
  destruct (d_args d) as [|a0 l0] eqn:Ed.
  - unfold legal in *. rewrite Ed in *. destruct args; [|discriminate]. inversion H; subst.
    exists [], [], []. split; [reflexivity|]. split; [intro; reflexivity|]. split; [intro; reflexivity|]. split; constructor.
  - assert (Hne : d_args d <> []) by (rewrite Ed; discriminate).
    destruct (wf_def_struct d Hwf Hne) as (opts & reqs & Hargs & Hopts & Hreqs & Hrne & _ & Hos & Hrs).
    unfold def_ok in Hok. repeat (apply andb_true_iff in Hok; destruct Hok as [Hok ?]).
    assert (Hnd : NoDup (map a_name (opts ++ reqs))) by (rewrite <- Hargs; apply nodupb_nodup; assumption).
    assert (TC1 : forall s ex, In s opts -> a_extra s = Some ex ->
              extype_has TyTag (ex_type ex) = false /\ (extype_has TyNumber (ex_type ex) = true -> has_string_ex (ex_type ex) = false)).
    { intros s ex Hs Hex. match goal with K : forallb extra_sep (d_args d) = true |- _ => rewrite forallb_forall in K; pose proof (K s) as Ks end.
      rewrite Hargs in Ks. specialize (Ks (in_or_app _ _ _ (or_introl Hs))). unfold extra_sep in Ks. rewrite Hex in Ks.
      apply andb_true_iff in Ks as [A B]. apply negb_true_iff in A. split; [exact A|]. intro X. rewrite X in B. cbn in B.
      apply negb_true_iff in B. exact B. }
    assert (TC2 : forall r, In r reqs -> atype_mem TyNumber (a_type r) = true -> has_string_list (a_type r) = false).
    { intros r Hr X. match goal with K : forallb type_sep (d_args d) = true |- _ => rewrite forallb_forall in K; pose proof (K r) as Kr end.
      rewrite Hargs in Kr. specialize (Kr (in_or_app _ _ _ (or_intror Hr))). unfold type_sep in Kr. apply andb_true_iff in Kr as [Kr _].
      rewrite X in Kr. cbn in Kr. apply negb_true_iff in Kr. exact Kr. }
    assert (TC3 : forall r, In r reqs -> atype_mem TyStringList (a_type r) = true -> atype_mem TyString (a_type r) = true).
    { intros r Hr X. match goal with K : forallb type_sep (d_args d) = true |- _ => rewrite forallb_forall in K; pose proof (K r) as Kr end.
      rewrite Hargs in Kr. specialize (Kr (in_or_app _ _ _ (or_intror Hr))). unfold type_sep in Kr. apply andb_true_iff in Kr as [_ Kr].
      rewrite X in Kr. cbn in Kr. exact Kr. }
    assert (Hl : forall xs, legal d L xs = legal_opt (length xs) opts reqs xs L [] []).
    { intro xs. unfold legal. rewrite Ed, Hos, Hrs. reflexivity. }
    rewrite Hl in H.
    destruct (legal_opt_canonical d opts reqs L Hargs Hopts Hreqs Hnd TC1 TC2 TC3 args am em Hpr H)
      as (cargs & am' & em' & A & B & C & D & E).
    exists cargs, am', em'. rewrite Hl. rewrite <- Ed, Hargs. auto.
Qed.

Print Assumptions legal_canonical.
