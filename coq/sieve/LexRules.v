(* The regular expressions of Parser.lrules (sievelib/parser.py), in order, from which the scanners of sieve/Lexer.v
   were translated by hand.  The translator tools/gen_tables.py reads the rules of the working tree into
   gen/GenTables.gen_lrules on every run; the obligation gen_lrules = expected_lrules (props C01-C04, C18) fails as
   soon as a rule is edited, reordered, added or removed: the hand translation is then no longer known to stand for
   the code, and the differential run is searched for an input on which lexer and model differ. *)
From Coq Require Import String.
From Coq Require Import List.
Import ListNotations.

Definition expected_lrules : list (string * string) := [
  ("left_bracket", "\[");
  ("right_bracket", "\]");
  ("left_parenthesis", "\(");
  ("right_parenthesis", "\)");
  ("left_cbracket", "{");
  ("right_cbracket", "}");
  ("semicolon", ";");
  ("comma", ",");
  ("hash_comment", "#.*$");
  ("bracket_comment", "/\*[\s\S]*?\*/");
  ("multiline", "text:[\s\S]*?[\r\n]+\.\r?$");
  ("string", """([^""\\]|\\.)*""");
  ("identifier", "[a-zA-Z_][\w]*");
  ("tag", ":[a-zA-Z_][\w]*");
  ("number", "[0-9]+[KMGkmg]?")
]%string.
