(* CanonTree.v — C04 for every script of the grammar, whatever the order of its arguments.

   Every well-formed script has a canonical twin: same commands and tests, the arguments of each command
   rewritten in definition order (CanonFacts.legal_canonical).  The twin's tree carries the same content
   (same definition, same value under every key, same nesting: [nsim]) and is printed as the SAME text.  By the
   round-trip theorem for canonical trees (PrintTree.print_parse_roundtrip), the printed text of any tree of
   the grammar is accepted, parses to a tree with the same content, and printing that tree gives the same text. *)
From Coq Require Import List NArith Bool Arith Lia.
From SV Require Import lib.Bytes sieve.Lexer sieve.Tables sieve.ArgCheck sieve.ArgSpec sieve.Machine sieve.Printer
  sieve.ArgCheckFacts sieve.GateFacts sieve.TotalFacts sieve.LexerFacts sieve.CompleteFacts sieve.CompleteTree
  sieve.RenderFacts sieve.PrintTree sieve.CanonFacts.
Import ListNotations.
Local Close Scope N_scope.

(* same content: same definitions, same value under every key of the argument maps, same nesting *)
Inductive nsim : node -> node -> Prop :=
| sim_leaf : forall d am em am' em', meq am am' -> meq em em' -> nsim (Node d am em [] []) (Node d am' em' [] [])
| sim_not : forall d k n n', nsim n n' -> nsim (Node d [(k, VTest n)] [] [] []) (Node d [(k, VTest n')] [] [] [])
| sim_list : forall d k ns ns', Forall2 nsim ns ns' ->
    nsim (Node d [(k, VTests ns)] [] [] []) (Node d [(k, VTests ns')] [] [] [])
| sim_ctl : forall d k n n' ch ch', nsim n n' -> Forall2 nsim ch ch' ->
    nsim (Node d [(k, VTest n)] [] ch []) (Node d [(k, VTest n')] [] ch' [])
| sim_else : forall d ch ch', Forall2 nsim ch ch' -> nsim (Node d [] [] ch []) (Node d [] [] ch' []).

Lemma nsim_def : forall a b, nsim a b -> node_def a = node_def b.
Proof. intros a b H. destruct H; reflexivity. Qed.

Lemma meq_sym : forall (V : Type) (a b : list (bytes * V)), meq a b -> meq b a.
Proof. intros V a b H k. symmetry. apply H. Qed.

Lemma argP_of : forall args, Forall arg_pr args -> Forall arg_ok args -> Forall argP args.
Proof.
  intros args H1 H2. apply Forall_forall. intros x Hx. rewrite Forall_forall in H1, H2. split; auto.
Qed.

Lemma argP_ok : forall args, Forall argP args -> Forall arg_ok args.
Proof. intros args H. apply Forall_forall. intros x Hx. rewrite Forall_forall in H. apply (H x Hx). Qed.

(* leaves: a command or test whose arguments are plain values *)
Lemma leaf_print : forall d am em am' em' cargs f ind,
  slots_args [32%N] d am em (d_args d) cargs -> slots_args [32%N] d am' em' (d_args d) cargs ->
  tosieve f (Node d am' em' [] []) ind = tosieve f (Node d am em [] []) ind.
Proof.
  intros d am em am' em' cargs f ind H H'. destruct f as [|f]; [reflexivity|].
  rewrite !tosieve_S. cbn [node_def node_children].
  destruct (args_layout [32%N] d am em [] [] (fun t => tosieve f t 0) (fun t => tosieve f t ind) _ _ H) as (E & _).
  destruct (args_layout [32%N] d am' em' [] [] (fun t => tosieve f t 0) (fun t => tosieve f t ind) _ _ H') as (E' & _).
  rewrite E, E'. reflexivity.
Qed.

Lemma is_t1_not_tag : forall a, is_t1 a = true -> atype_mem TyTag (a_type a) = false.
Proof. intros a H. unfold is_t1 in H. destruct (a_type a) as [|[] [|y l]]; try discriminate. reflexivity. Qed.

Lemma is_tl_type : forall a, is_tl a = true -> a_type a = [TyTestList].
Proof. intros a H. unfold is_tl in H. destruct (a_type a) as [|[] [|y l]]; try discriminate. reflexivity. Qed.

Section Lift.
  Variable T : tables.
  Hypothesis HTB : tbl_ok T = true.

  Definition same_print (n' n : node) : Prop := forall f ind, tosieve f n' ind = tosieve f n ind.

  Definition Qt (L : list bytes) (t : gtest) (n : node) : Prop :=
    test_pr t ->
    exists t' n', wf_test T L t' n' /\ canon_test std_sep t' n' /\ nsim n' n /\ dt t' = dt t /\ same_print n' n.

  Theorem canon_of_test : forall L t n, wf_test T L t n -> Qt L t n.
  Proof.
    intro L. fix IH 3. intros t n H.
    destruct H as [name d args am em Hg Hty Hnts Hef Hwf Hfa Hall Hleg|name d a t1 n1 Hg Hty Ha Ht1 Hw1|name d a ts ns Hg Hty Ha Htl Hmf Hne Hws];
      intro Hp.
    - (* a test with plain arguments *)
      inversion Hp as [nm ar Hid Hpr| |]; subst.
      destruct (gci_canonical_name T L name d HTB Hg) as (Hg' & Hdok).
      destruct (legal_canonical d L args am em Hwf Hdok (argP_of _ Hpr Hall) Hleg) as (cargs & am' & em' & A & B & C & D & E).
      pose proof (slots_args_meq d am em am' em' _ _ (meq_sym _ _ _ B) (meq_sym _ _ _ C) D) as D'.
      assert (Hidn : ident_ok (d_name d) = true).
      { unfold def_ok in Hdok. apply andb_true_iff in Hdok as [_ X]. exact X. }
      exists (GSimple (d_name d) cargs), (Node d am' em' [] []).
      split; [apply (wf_simple T L (d_name d) d cargs am' em' Hg' Hty Hnts Hef Hwf Hfa (argP_ok _ E) A)|].
      split; [apply (ct_simple std_sep d cargs am' em' Hidn Hty D')|].
      split; [apply sim_leaf; assumption|]. split; [reflexivity|].
      intros f ind. apply (leaf_print d am em am' em' cargs f ind D D').
    - (* a test that takes one test *)
      inversion Hp as [|nm t0 Hid Hp1|]; subst.
      destruct (gci_canonical_name T L name d HTB Hg) as (Hg' & Hdok).
      assert (Hidn : ident_ok (d_name d) = true).
      { unfold def_ok in Hdok. apply andb_true_iff in Hdok as [_ X]. exact X. }
      destruct (IH t1 n1 Hw1 Hp1) as (t1' & n1' & W1 & C1 & S1 & D1 & P1).
      exists (GNot (d_name d) t1'), (Node d [(a_name a, VTest n1')] [] [] []).
      split; [apply (wf_not T L (d_name d) d a t1' n1' Hg' Hty Ha Ht1 W1)|].
      split; [apply (ct_not std_sep d a t1' n1' Hidn Hty Ha (is_t1_not_tag a Ht1) C1)|].
      split; [apply sim_not; exact S1|]. split; [cbn [dt]; rewrite D1; reflexivity|].
      intros f ind. destruct f as [|f]; [reflexivity|]. rewrite !tosieve_S. cbn [node_def node_children].
      rewrite Ha. cbn [p_args node_args]. rewrite !assoc_get_one, (is_t1_not_tag a Ht1). cbn [p_value]. rewrite (P1 f ind). reflexivity.
    - (* a test that takes a list of tests *)
      inversion Hp as [| |nm l Hid Hne' Hpl]; subst.
      destruct (gci_canonical_name T L name d HTB Hg) as (Hg' & Hdok).
      assert (Hidn : ident_ok (d_name d) = true).
      { unfold def_ok in Hdok. apply andb_true_iff in Hdok as [_ X]. exact X. }
      assert (G : exists ts' ns', Forall2 (wf_test T L) ts' ns' /\ Forall2 (canon_test std_sep) ts' ns' /\ Forall2 nsim ns' ns /\
                    Forall2 (fun t' t => dt t' = dt t) ts' ts /\ Forall2 same_print ns' ns).
      { clear Hne Hne' Hp. revert Hpl. induction Hws as [|t0 n0 ts0 ns0 H0 Hr IHr]; intro Hpl.
        - exists [], []. repeat split; constructor.
        - inversion Hpl as [|x xs Hx Hxs]; subst.
          destruct (IH t0 n0 H0 Hx) as (t0' & n0' & W0 & C0 & S0 & D0 & P0).
          destruct (IHr Hxs) as (ts' & ns' & A1 & A2 & A3 & A4 & A5).
          exists (t0' :: ts'), (n0' :: ns'). repeat split; constructor; assumption. }
      destruct G as (ts' & ns' & A1 & A2 & A3 & A4 & A5).
      assert (Hne2 : ts' <> []).
      { intro X. subst ts'. inversion A4; subst. congruence. }
      exists (GList (d_name d) ts'), (Node d [(a_name a, VTests ns')] [] [] []).
      split; [apply (wf_list T L (d_name d) d a ts' ns' Hg' Hty Ha Htl Hmf Hne2 A1)|].
      split; [apply (ct_list std_sep d a ts' ns' Hidn Hty Ha (is_tl_type a Htl) Hne2 A2)|].
      split; [apply sim_list; exact A3|].
      split.
      { cbn [dt]. f_equal. clear -A4. induction A4 as [|x y xs ys Hxy Hr IHr]; [reflexivity|]. cbn [fold_right]. rewrite Hxy, IHr. reflexivity. }
      intros f ind. destruct f as [|f]; [reflexivity|]. rewrite !tosieve_S. cbn [node_def node_children].
      rewrite Ha. cbn [p_args node_args]. rewrite !assoc_get_one, (is_tl_type a Htl). cbn [atype_mem atype_eqb orb p_value].
      rewrite Ha, find_def_one, (is_tl_type a Htl).
      assert (Hpt : p_tests (fun t => tosieve f t 0) ns' = p_tests (fun t => tosieve f t 0) ns).
      { clear -A5. induction A5 as [|x y xs ys Hxy Hr IHr]; [reflexivity|]. cbn [p_tests].
        destruct Hr as [|x2 y2 xs2 ys2 H2 Hr2]; [apply Hxy|]. rewrite (Hxy f 0), IHr. reflexivity. }
      rewrite Hpt. reflexivity.
  Qed.

  Definition Qc (L : list bytes) (prev : option bytes) (c : gcmd) (n : node) (L' : list bytes) : Prop :=
    cmd_pr c ->
    exists c' n', wf_cmd T L prev c' n' L' /\ canon_cmd std_sep c' n' /\ nsim n' n /\ dc c' = dc c /\ same_print n' n.

  Definition Qcs (L : list bytes) (prev : option bytes) (cs : list gcmd) (ns : list node) (L' : list bytes) : Prop :=
    Forall cmd_pr cs ->
    exists cs' ns', wf_cmds T L prev cs' ns' L' /\ Forall2 (canon_cmd std_sep) cs' ns' /\ Forall2 nsim ns' ns /\
                    Forall2 (fun c' c => dc c' = dc c) cs' cs /\ Forall2 same_print ns' ns.

  Lemma cb_ok_meq : forall d am am' L L', meq am' am -> cb_ok d am L L' -> cb_ok d am' L L'.
  Proof. intros d am am' L L' M H. unfold cb_ok in *. rewrite (M capabilities_key). exact H. Qed.

  Lemma kids_print : forall ns' ns f i, Forall2 same_print ns' ns ->
    p_kids (fun c => tosieve f c i) ns' = p_kids (fun c => tosieve f c i) ns.
  Proof. intros ns' ns f i H. induction H as [|x y xs ys Hxy Hr IHr]; [reflexivity|]. cbn [p_kids]. rewrite (Hxy f i), IHr. reflexivity. Qed.

  Lemma fold_dc_eq : forall cs' cs, Forall2 (fun c' c => dc c' = dc c) cs' cs ->
    fold_right (fun x m => Nat.max (dc x) m) 0 cs' = fold_right (fun x m => Nat.max (dc x) m) 0 cs.
  Proof. intros cs' cs H. induction H as [|x y xs ys Hxy Hr IHr]; [reflexivity|]. cbn [fold_right]. rewrite Hxy, IHr. reflexivity. Qed.

  Theorem canon_of_cmds : forall L prev cs ns L', wf_cmds T L prev cs ns L' -> Qcs L prev cs ns L'.
  Proof.
    apply (wf_cmds_mut T Qc Qcs).
    - (* name args ; *)
      intros L prev name d args am em L' Hg Hty Hch Hwf Hfa Hall Hleg Hfol Hcb Hp.
      inversion Hp as [nm ar Hid Hpr| |]; subst.
      destruct (gci_canonical_name T L name d HTB Hg) as (Hg' & Hdok).
      destruct (legal_canonical d L args am em Hwf Hdok (argP_of _ Hpr Hall) Hleg) as (cargs & am' & em' & A & B & C & D & E).
      pose proof (slots_args_meq d am em am' em' _ _ (meq_sym _ _ _ B) (meq_sym _ _ _ C) D) as D'.
      assert (Hidn : ident_ok (d_name d) = true).
      { unfold def_ok in Hdok. apply andb_true_iff in Hdok as [_ X]. exact X. }
      exists (GAct (d_name d) cargs), (Node d am' em' [] []).
      split; [apply (wf_act T L prev (d_name d) d cargs am' em' L' Hg' Hty Hch Hwf Hfa (argP_ok _ E) A Hfol (cb_ok_meq d am am' L L' B Hcb))|].
      split; [apply (cc_act std_sep d cargs am' em' Hidn Hty Hch D')|].
      split; [apply sim_leaf; assumption|]. split; [reflexivity|].
      intros f ind. apply (leaf_print d am em am' em' cargs f ind D D').
    - (* name test { ... } *)
      intros L prev name d a t nt body ns L' Hg Hty Hch Ha Ht1 Hfol Hwt _ IHb Hp.
      inversion Hp as [|nm t0 b0 Hid Hpt Hpb|]; subst.
      destruct (gci_canonical_name T L name d HTB Hg) as (Hg' & Hdok).
      assert (Hidn : ident_ok (d_name d) = true).
      { unfold def_ok in Hdok. apply andb_true_iff in Hdok as [_ X]. exact X. }
      destruct (canon_of_test L t nt Hwt Hpt) as (t' & nt' & W1 & C1 & S1 & D1 & P1).
      destruct (IHb Hpb) as (body' & ns' & W2 & C2 & S2 & D2 & P2).
      exists (GCtl (d_name d) t' body'), (Node d [(a_name a, VTest nt')] [] ns' []).
      split; [apply (wf_ctl T L prev (d_name d) d a t' nt' body' ns' L' Hg' Hty Hch Ha Ht1 Hfol W1 W2)|].
      split; [apply (cc_ctl std_sep d a t' nt' body' ns' Hidn Hty Hch Ha (is_t1_not_tag a Ht1) C1 C2)|].
      split; [apply sim_ctl; assumption|].
      split; [cbn [dc]; rewrite D1, (fold_dc_eq _ _ D2); reflexivity|].
      intros f ind. destruct f as [|f]; [reflexivity|]. rewrite !tosieve_S. cbn [node_def node_children].
      rewrite Ha. cbn [p_args node_args]. rewrite !assoc_get_one, (is_t1_not_tag a Ht1). cbn [p_value].
      rewrite (P1 f ind), (kids_print ns' ns f (ind + 4) P2). reflexivity.
    - (* name { ... } *)
      intros L prev name d body ns L' Hg Hty Hch Ha Hfol _ IHb Hp.
      inversion Hp as [| |nm b0 Hid Hpb]; subst.
      destruct (gci_canonical_name T L name d HTB Hg) as (Hg' & Hdok).
      assert (Hidn : ident_ok (d_name d) = true).
      { unfold def_ok in Hdok. apply andb_true_iff in Hdok as [_ X]. exact X. }
      destruct (IHb Hpb) as (body' & ns' & W2 & C2 & S2 & D2 & P2).
      exists (GElse (d_name d) body'), (Node d [] [] ns' []).
      split; [apply (wf_else T L prev (d_name d) d body' ns' L' Hg' Hty Hch Ha Hfol W2)|].
      split; [apply (cc_else std_sep d body' ns' Hidn Hty Hch Ha C2)|].
      split; [apply sim_else; assumption|].
      split; [cbn [dc]; rewrite (fold_dc_eq _ _ D2); reflexivity|].
      intros f ind. destruct f as [|f]; [reflexivity|]. rewrite !tosieve_S. cbn [node_def node_children].
      rewrite Ha. cbn [p_args]. rewrite (kids_print ns' ns f (ind + 4) P2). reflexivity.
    - intros L prev _. exists [], []. split; [apply wf_nil|]. repeat split; constructor.
    - intros L prev c n L1 cs ns L2 _ IHc _ IHcs Hp.
      inversion Hp as [|x xs Hx Hxs]; subst.
      destruct (IHc Hx) as (c' & n' & W1 & C1 & S1 & D1 & P1).
      destruct (IHcs Hxs) as (cs' & ns' & W2 & C2 & S2 & D2 & P2).
      exists (c' :: cs'), (n' :: ns').
      split; [eapply wf_cons; [exact W1|rewrite (nsim_def _ _ S1); exact W2]|].
      repeat split; constructor; assumption.
  Qed.

  Hypothesis HT : twf_tables T = true.

  Lemma all_print_eq : forall ns' ns f, Forall2 same_print ns' ns -> tosieve_all f ns' = tosieve_all f ns.
  Proof.
    intros ns' ns f H. unfold tosieve_all. induction H as [|x y xs ys Hxy Hr IHr]; [reflexivity|].
    cbn [map concat]. rewrite (Hxy f 0), IHr. reflexivity.
  Qed.

  (* C04 for the whole grammar: the printed text of the tree of any well-formed printable script is accepted,
     parses to a tree with the same content, and printing that tree gives the same text *)
  Theorem print_parse_general : forall cs ns L' f,
    wf_cmds T [] None cs ns L' -> Forall cmd_pr cs -> cs <> [] ->
    fold_right (fun x m => Nat.max (dc x) m) 0 cs <= f ->
    exists ns', parse T (tosieve_all f ns) = Accept ns' /\ Forall2 nsim ns' ns /\
                tosieve_all f ns' = tosieve_all f ns.
  Proof.
    intros cs ns L' f Hwf Hp Hne Hf.
    destruct (canon_of_cmds [] None cs ns L' Hwf Hp) as (cs' & ns' & W & C & S & D & P).
    exists ns'. pose proof (all_print_eq ns' ns f P) as E. rewrite <- E.
    split; [|split; [exact S|reflexivity]].
    apply (print_parse_roundtrip std_sep std_sep_space T cs' ns' L' f HT W C).
    - intro X. subst cs'. inversion D; subst. congruence.
    - rewrite (fold_dc_eq _ _ D). exact Hf.
  Qed.
End Lift.

Print Assumptions canon_of_test.
Print Assumptions print_parse_general.
