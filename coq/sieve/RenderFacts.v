(* RenderFacts.v — the lexer inverts rendering: a sequence of well-formed tokens written one after the other,
   separated by any amount of white space (none where the two tokens cannot merge), is lexed back as exactly
   that sequence.  Unbounded over token values, lengths and white space.  This is the lexical half of the
   print/parse round trip (C04): Printer output is such a rendering. *)
From Coq Require Import List NArith Bool Arith Lia.
From SV Require Import lib.Bytes sieve.Lexer sieve.Tables sieve.ArgCheck sieve.ArgSpec sieve.Machine
  sieve.LexerFacts sieve.PositionFacts sieve.CompleteFacts.
Import ListNotations.
Open Scope N_scope.

(* ---------------------------------------------------------------- literal matches on the first byte *)

Lemma scan_hash_cons : forall c t,
  scan_hash (c :: t) = if c =? 35 then Some (S (length (take_while (fun c => negb (c =? 10)) t))) else None.
Proof.
  intros c t. destruct c as [|p]; [reflexivity|].
  do 6 (destruct p as [p|p|]; try reflexivity).
Qed.

Lemma scan_bracket_comment_first : forall c t, (c =? 47) = false -> scan_bracket_comment (c :: t) = None.
Proof.
  intros c t H. destruct c as [|p]; [reflexivity|].
  do 6 (destruct p as [p|p|]; try reflexivity). discriminate.
Qed.

Lemma scan_multiline_first : forall c t, (c =? 116) = false -> scan_multiline (c :: t) = None.
Proof.
  intros c t H. destruct c as [|p]; [reflexivity|].
  do 7 (destruct p as [p|p|]; try reflexivity). discriminate.
Qed.

Lemma scan_tag_cons : forall c t,
  scan_tag (c :: t) = if c =? 58 then match scan_identifier t with Some n => Some (S n) | None => None end else None.
Proof.
  intros c t. destruct c as [|p]; [reflexivity|].
  do 6 (destruct p as [p|p|]; try reflexivity).
Qed.

Lemma scan_single_cons : forall x k c t, scan_single x k (c :: t) = if c =? x then Some (k, 1%nat) else None.
Proof. reflexivity. Qed.

(* "text:" needs these five bytes *)
Lemma scan_multiline_cons5 : forall a b c d e t,
  scan_multiline (a :: b :: c :: d :: e :: t) =
  if (a =? 116) && (b =? 101) && (c =? 120) && (d =? 116) && (e =? 58)
  then match scan_ml_body false t with Some n => Some (5 + n)%nat | None => None end else None.
Proof.
  intros a b c d e t.
  destruct a as [|p]; [reflexivity|]. do 7 (destruct p as [p|p|]; try reflexivity).
  destruct b as [|p]; [reflexivity|]. do 7 (destruct p as [p|p|]; try reflexivity).
  destruct c as [|p]; [reflexivity|]. do 7 (destruct p as [p|p|]; try reflexivity).
  destruct d as [|p]; [reflexivity|]. do 7 (destruct p as [p|p|]; try reflexivity).
  destruct e as [|p]; [reflexivity|]. do 6 (destruct p as [p|p|]; try reflexivity).
Qed.

Lemma scan_multiline_short : forall l, (length l < 5)%nat -> scan_multiline l = None.
Proof.
  intros l H.
  destruct l as [|a [|b [|c [|d [|e t]]]]]; cbn [length] in H; try lia; try reflexivity.
  - destruct (a =? 116) eqn:E; [|apply scan_multiline_first; exact E]. apply N.eqb_eq in E. subst. reflexivity.
  - destruct (a =? 116) eqn:E; [|apply scan_multiline_first; exact E]. apply N.eqb_eq in E. subst.
    destruct b as [|p]; [reflexivity|]. do 7 (destruct p as [p|p|]; try reflexivity).
  - destruct (a =? 116) eqn:E; [|apply scan_multiline_first; exact E]. apply N.eqb_eq in E. subst.
    destruct b as [|p]; [reflexivity|]. do 7 (destruct p as [p|p|]; try reflexivity).
    destruct c as [|p]; [reflexivity|]. do 7 (destruct p as [p|p|]; try reflexivity).
  - destruct (a =? 116) eqn:E; [|apply scan_multiline_first; exact E]. apply N.eqb_eq in E. subst.
    destruct b as [|p]; [reflexivity|]. do 7 (destruct p as [p|p|]; try reflexivity).
    destruct c as [|p]; [reflexivity|]. do 7 (destruct p as [p|p|]; try reflexivity).
    destruct d as [|p]; [reflexivity|]. do 7 (destruct p as [p|p|]; try reflexivity).
Qed.

(* ---------------------------------------------------------------- byte classes *)

From Coq Require Import ZifyBool ZifyN.

Definition delim (c : N) : bool :=
  is_space c || (c =? 59) || (c =? 44) || (c =? 40) || (c =? 41) || (c =? 123) || (c =? 125) || (c =? 91)
  || (c =? 93) || (c =? 34).

(* what may follow a token that ends with word characters: nothing, white space, punctuation or a quote *)
Definition tail_delim (tail : bytes) : Prop :=
  match tail with [] => True | x :: _ => delim x = true end.

Lemma delim_facts : forall x, delim x = true ->
  is_word x = false /\ is_digit x = false /\ is_quant x = false /\ (x =? 58) = false /\
  (x =? 116) = false /\ (x =? 101) = false /\ (x =? 120) = false.
Proof.
  intros x H. unfold delim, is_space, is_word, is_alpha, is_upper, is_lower, is_digit, is_quant in *. lia.
Qed.

Lemma ident_start_facts : forall c, is_ident_start c = true ->
  (c =? 91) = false /\ (c =? 93) = false /\ (c =? 40) = false /\ (c =? 41) = false /\ (c =? 123) = false /\
  (c =? 125) = false /\ (c =? 59) = false /\ (c =? 44) = false /\ (c =? 35) = false /\ (c =? 47) = false /\
  (c =? 34) = false /\ (c =? 58) = false /\ is_space c = false /\ is_word c = true /\ is_digit c = false.
Proof.
  intros c H. unfold is_ident_start, is_space, is_word, is_alpha, is_upper, is_lower, is_digit in *. lia.
Qed.

Lemma digit_facts : forall c, is_digit c = true ->
  (c =? 91) = false /\ (c =? 93) = false /\ (c =? 40) = false /\ (c =? 41) = false /\ (c =? 123) = false /\
  (c =? 125) = false /\ (c =? 59) = false /\ (c =? 44) = false /\ (c =? 35) = false /\ (c =? 47) = false /\
  (c =? 34) = false /\ (c =? 58) = false /\ (c =? 116) = false /\ is_space c = false /\ is_ident_start c = false /\
  is_word c = true.
Proof.
  intros c H. unfold is_ident_start, is_space, is_word, is_alpha, is_upper, is_lower, is_digit in *. lia.
Qed.

Lemma word_facts : forall c, is_word c = true -> (c =? 58) = false /\ delim c = false /\ is_space c = false.
Proof.
  intros c H. unfold delim, is_space, is_word, is_alpha, is_upper, is_lower, is_digit in *. lia.
Qed.

Lemma quant_facts : forall c, is_quant c = true -> is_digit c = false.
Proof. intros c H. unfold is_quant, is_digit in *. lia. Qed.

Lemma take_drop_stop : forall f v tail,
  forallb f v = true -> match tail with [] => True | x :: _ => f x = false end ->
  take_while f (v ++ tail) = v /\ drop_while f (v ++ tail) = tail.
Proof.
  intros f. induction v as [|a v IH]; intros tail H Ht; cbn [app take_while drop_while].
  - destruct tail as [|x t]; [auto|]. cbn. rewrite Ht. auto.
  - cbn [forallb] in H. apply andb_true_iff in H as [Ha Hv]. rewrite Ha.
    destruct (IH tail Hv Ht) as (A & B). rewrite A, B. auto.
Qed.

(* ---------------------------------------------------------------- "text:" *)

Lemma scan_multiline_some : forall l n, scan_multiline l = Some n -> exists t, l = 116 :: 101 :: 120 :: 116 :: 58 :: t.
Proof.
  intros l n H.
  destruct (Nat.lt_ge_cases (length l) 5) as [Hs|Hs]; [rewrite (scan_multiline_short l Hs) in H; discriminate|].
  destruct l as [|a [|b [|c [|d [|e t]]]]]; cbn [length] in Hs; try lia.
  rewrite scan_multiline_cons5 in H.
  destruct ((a =? 116) && (b =? 101) && (c =? 120) && (d =? 116) && (e =? 58)) eqn:E; [|discriminate].
  repeat (apply andb_true_iff in E; destruct E as [E ?]).
  repeat match goal with K : (_ =? _) = true |- _ => apply N.eqb_eq in K end. subst. eauto.
Qed.

(* a run of word characters followed by a delimiter is never the start of a multi-line string *)
Lemma no_multiline_word : forall v tail,
  forallb is_word v = true -> tail_delim tail -> scan_multiline (v ++ tail) = None.
Proof.
  intros v tail Hv Ht. destruct (scan_multiline (v ++ tail)) as [n|] eqn:E; [|reflexivity]. exfalso.
  destruct (scan_multiline_some _ _ E) as (t & Heq).
  assert (Hd : forall x r, tail = x :: r -> (x =? 116) = false /\ (x =? 101) = false /\ (x =? 120) = false /\ (x =? 58) = false).
  { intros x r ->. cbn in Ht. destruct (delim_facts x Ht) as (_ & _ & _ & A & B & C & D). auto. }
  assert (Hw : forall x, In x v -> (x =? 58) = false).
  { intros x Hx. rewrite forallb_forall in Hv. apply (word_facts x (Hv x Hx)). }
  destruct v as [|a [|b [|c [|d [|e v']]]]]; cbn [app] in Heq.
  - subst tail. destruct (Hd _ _ eq_refl) as (A & _). discriminate.
  - injection Heq as -> Ht'. destruct (Hd _ _ Ht') as (_ & A & _). discriminate.
  - injection Heq as -> -> Ht'. destruct (Hd _ _ Ht') as (_ & _ & A & _). discriminate.
  - injection Heq as -> -> -> Ht'. destruct (Hd _ _ Ht') as (A & _). discriminate.
  - injection Heq as -> -> -> -> Ht'. destruct (Hd _ _ Ht') as (_ & _ & _ & A). discriminate.
  - injection Heq as -> -> -> -> -> _. assert (X := Hw 58 ltac:(cbn; auto 10)). discriminate.
Qed.

(* ---------------------------------------------------------------- one token at the head of the text *)

Definition ident_ok (v : bytes) : bool :=
  match v with c :: r => is_ident_start c && forallb is_word r | [] => false end.

Lemma ident_ok_word : forall v, ident_ok v = true -> forallb is_word v = true.
Proof.
  intros [|c r] H; [discriminate|]. cbn in *. apply andb_true_iff in H as [A B].
  destruct (ident_start_facts c A) as (_ & _ & _ & _ & _ & _ & _ & _ & _ & _ & _ & _ & _ & W & _). rewrite W, B. reflexivity.
Qed.

Lemma scan_identifier_ok : forall v tail,
  ident_ok v = true -> tail_delim tail -> scan_identifier (v ++ tail) = Some (length v).
Proof.
  intros [|c r] tail H Ht; [discriminate|]. cbn in H. apply andb_true_iff in H as [A B].
  cbn [app scan_identifier]. rewrite A.
  assert (Hstop : match tail with [] => True | x :: _ => is_word x = false end).
  { destruct tail as [|x t]; [exact I|]. cbn in Ht. apply (delim_facts x Ht). }
  destruct (take_drop_stop is_word r tail B Hstop) as (T & _). rewrite T. reflexivity.
Qed.

Lemma scan_rules_ident : forall v tail,
  ident_ok v = true -> tail_delim tail -> scan_rules (v ++ tail) = Some (TIdentifier, length v).
Proof.
  intros v tail H Ht. pose proof (scan_identifier_ok v tail H Ht) as Hi.
  pose proof (no_multiline_word v tail (ident_ok_word v H) Ht) as Hm.
  destruct v as [|c r]; [discriminate|]. cbn in H. apply andb_true_iff in H as [A B].
  destruct (ident_start_facts c A) as (E1 & E2 & E3 & E4 & E5 & E6 & E7 & E8 & E9 & E10 & E11 & E12 & _).
  unfold scan_rules. cbn [app] in *. rewrite !scan_single_cons, E1, E2, E3, E4, E5, E6, E7, E8.
  rewrite scan_hash_cons, E9, (scan_bracket_comment_first c _ E10), Hm, scan_string_cons, E11, Hi. reflexivity.
Qed.

Definition tag_ok (v : bytes) : bool := match v with 58 :: r => ident_ok r | _ => false end.

Lemma tag_ok_shape : forall v, tag_ok v = true -> exists r, v = 58 :: r /\ ident_ok r = true.
Proof.
  intros [|c r] H; [discriminate|]. unfold tag_ok in H.
  destruct (c =? 58) eqn:E; [apply N.eqb_eq in E; subst; eauto|].
  exfalso. destruct c as [|p]; [discriminate|]. do 6 (destruct p as [p|p|]; try discriminate).
Qed.

Lemma scan_rules_tag : forall v tail,
  tag_ok v = true -> tail_delim tail -> scan_rules (v ++ tail) = Some (TTag, length v).
Proof.
  intros v tail H Ht. destruct (tag_ok_shape v H) as (r & -> & Hr).
  pose proof (scan_identifier_ok r tail Hr Ht) as Hi.
  unfold scan_rules. cbn [app]. rewrite !scan_single_cons. cbn [N.eqb Pos.eqb].
  rewrite scan_hash_cons, (scan_bracket_comment_first 58 (r ++ tail) eq_refl), (scan_multiline_first 58 (r ++ tail) eq_refl), scan_string_cons.
  cbn [N.eqb Pos.eqb orelse with_kind]. cbn [scan_identifier]. cbn [is_ident_start].
  rewrite scan_tag_cons. cbn [N.eqb Pos.eqb]. rewrite Hi. reflexivity.
Qed.

(* digits, then at most one size letter *)
Definition num_ok (v : bytes) : Prop :=
  exists ds q, v = ds ++ q /\ ds <> [] /\ forallb is_digit ds = true /\
               (q = [] \/ exists x, q = [x] /\ is_quant x = true).

Lemma scan_rules_number : forall v tail,
  num_ok v -> tail_delim tail -> scan_rules (v ++ tail) = Some (TNumber, length v).
Proof.
  intros v tail (ds & q & -> & Hne & Hd & Hq) Ht.
  assert (Hstop : match q ++ tail with [] => True | x :: _ => is_digit x = false end).
  { destruct Hq as [->|(x & -> & Hx)]; cbn [app].
    - destruct tail as [|y t]; [exact I|]. cbn in Ht. apply (delim_facts y Ht).
    - apply quant_facts. exact Hx. }
  rewrite <- app_assoc.
  destruct (take_drop_stop is_digit ds (q ++ tail) Hd Hstop) as (T & D).
  assert (Hn : scan_number (ds ++ q ++ tail) = Some (length (ds ++ q))).
  { unfold scan_number. rewrite T, D. destruct ds as [|d0 ds']; [congruence|].
    rewrite app_length. destruct Hq as [->|(x & -> & Hx)]; cbn [app length].
    - rewrite Nat.add_0_r. destruct tail as [|y t]; [reflexivity|]. cbn in Ht.
      destruct (delim_facts y Ht) as (_ & _ & Q & _). rewrite Q. reflexivity.
    - rewrite Hx. f_equal. lia. }
  destruct ds as [|c ds']; [congruence|]. cbn [forallb] in Hd. apply andb_true_iff in Hd as [Hc Hds].
  destruct (digit_facts c Hc) as (E1 & E2 & E3 & E4 & E5 & E6 & E7 & E8 & E9 & E10 & E11 & E12 & E13 & _ & E15 & _).
  unfold scan_rules. cbn [app] in *. rewrite !scan_single_cons, E1, E2, E3, E4, E5, E6, E7, E8.
  rewrite scan_hash_cons, E9, (scan_bracket_comment_first c _ E10), (scan_multiline_first c _ E13), scan_string_cons, E11.
  cbn [orelse with_kind scan_identifier]. rewrite E15. rewrite scan_tag_cons, E12. cbn [orelse with_kind].
  rewrite Hn. reflexivity.
Qed.

(* a multi-line string as the lexer delivers it: whatever follows (nothing or a line feed), it is matched whole *)
Definition ml_ok (v : bytes) : Prop :=
  forall tail, (tail = [] \/ exists t, tail = 10 :: t) -> scan_multiline (v ++ tail) = Some (length v).

Lemma scan_rules_ml : forall v tail,
  ml_ok v -> (tail = [] \/ exists t, tail = 10 :: t) -> scan_rules (v ++ tail) = Some (TMultiline, length v).
Proof.
  intros v tail H Ht. pose proof (H tail Ht) as Hm.
  destruct (scan_multiline_some _ _ (H [] (or_introl eq_refl))) as (t & Hv). rewrite app_nil_r in Hv. subst v.
  unfold scan_rules. cbn [app] in *. rewrite !scan_single_cons. cbn [N.eqb Pos.eqb].
  rewrite scan_hash_cons. cbn [N.eqb Pos.eqb orelse with_kind scan_bracket_comment].
  rewrite Hm. reflexivity.
Qed.

Definition punct_of (k : tkind) : option N :=
  match k with
  | TLeftBracket => Some 91 | TRightBracket => Some 93 | TLeftParen => Some 40 | TRightParen => Some 41
  | TLeftCBracket => Some 123 | TRightCBracket => Some 125 | TSemicolon => Some 59 | TComma => Some 44
  | _ => None
  end.

Lemma scan_rules_punct : forall k c tail, punct_of k = Some c -> scan_rules (c :: tail) = Some (k, 1%nat).
Proof. intros [] c tail H; inversion H; subst; reflexivity. Qed.

(* ---------------------------------------------------------------- rendered token sequences *)

Close Scope N_scope.

(* a hash comment: '#' and everything up to the end of the line *)
Definition hash_ok (v : bytes) : Prop :=
  exists r, v = 35%N :: r /\ forallb (fun c => negb (N.eqb c 10%N)) r = true.

Lemma scan_rules_hash : forall v tail,
  hash_ok v -> (tail = [] \/ exists t, tail = 10%N :: t) ->
  scan_rules (v ++ tail) = Some (THashComment, length v).
Proof.
  intros v tail (r & -> & Hr) Ht.
  assert (Hstop : match tail with [] => True | x :: _ => negb (N.eqb x 10%N) = false end).
  { destruct Ht as [->|(t & ->)]; [exact I|reflexivity]. }
  destruct (take_drop_stop _ r tail Hr Hstop) as (T & _).
  unfold scan_rules. cbn [app]. rewrite !scan_single_cons. cbn [N.eqb Pos.eqb orelse].
  rewrite scan_hash_cons. cbn [N.eqb Pos.eqb]. rewrite T. reflexivity.
Qed.

Definition tok_ok (k : tkind) (v : bytes) : Prop :=
  match k with
  | TString => exact_string v
  | TIdentifier => ident_ok v = true
  | TTag => tag_ok v = true
  | TNumber => num_ok v
  | TMultiline => ml_ok v
  | THashComment => hash_ok v
  | TBracketComment => False
  | _ => exists c, punct_of k = Some c /\ v = [c]
  end.

Definition after_ok (k : tkind) (tail : bytes) : Prop :=
  match k with
  | TIdentifier | TTag | TNumber => tail_delim tail
  | TMultiline | THashComment => tail = [] \/ exists t, tail = 10%N :: t
  | _ => True
  end.

Lemma scan_rules_tok : forall k v tail,
  tok_ok k v -> after_ok k tail ->
  scan_rules (v ++ tail) = Some (k, length v) /\ exists c r, v = c :: r /\ is_space c = false.
Proof.
  intros k v tail Hk Ha.
  destruct k; cbn [tok_ok after_ok] in *; try contradiction;
    try (destruct Hk as (c & Hp & ->); split; [apply scan_rules_punct; exact Hp|];
         exists c, []; split; [reflexivity|]; inversion Hp; subst; reflexivity).
  - (* hash comment *)
    split; [apply scan_rules_hash; assumption|].
    destruct Hk as (r & -> & _). exists 35%N, r. split; reflexivity.
  - (* multiline *)
    split; [apply scan_rules_ml; assumption|].
    destruct (scan_multiline_some _ _ (Hk [] (or_introl eq_refl))) as (t & Hv). rewrite app_nil_r in Hv. subst v.
    eexists _, _. split; [reflexivity|reflexivity].
  - (* string *)
    split; [apply scan_rules_exact; exact Hk|].
    destruct (exact_string_shape v Hk) as (body & -> & _). eexists _, _. split; reflexivity.
  - (* identifier *)
    split; [apply scan_rules_ident; assumption|].
    destruct v as [|c r]; [discriminate|]. cbn in Hk. apply andb_true_iff in Hk as [A _].
    exists c, r. split; [reflexivity|]. apply (ident_start_facts c A).
  - (* tag *)
    split; [apply scan_rules_tag; assumption|].
    destruct (tag_ok_shape v Hk) as (r & -> & _). eexists _, _. split; reflexivity.
  - (* number *)
    split; [apply scan_rules_number; assumption|].
    destruct Hk as (ds & q & -> & Hne & Hd & _). destruct ds as [|c ds]; [congruence|].
    cbn [forallb] in Hd. apply andb_true_iff in Hd as [Hc _].
    exists c, (ds ++ q). split; [reflexivity|]. apply (digit_facts c Hc).
Qed.

Definition all_space (ws : bytes) : Prop := forallb is_space ws = true.

Lemma next_token_tok : forall k v tail ws pos,
  tok_ok k v -> after_ok k tail -> all_space ws ->
  next_token pos (ws ++ v ++ tail) = LTok (mkTok k v (pos + length ws)) tail.
Proof.
  intros k v tail ws pos Hk Ha Hw.
  destruct (scan_rules_tok k v tail Hk Ha) as (Hs & c & r & -> & Hc).
  assert (Hstop : match (c :: r) ++ tail with [] => True | x :: _ => is_space x = false end) by exact Hc.
  destruct (take_drop_stop is_space ws ((c :: r) ++ tail) Hw Hstop) as (T & D).
  unfold next_token. rewrite T, D. cbn [app] in *. rewrite Hs.
  f_equal.
  - f_equal. change (c :: r ++ tail) with ((c :: r) ++ tail). rewrite firstn_app, Nat.sub_diag, firstn_all. cbn [firstn]. apply app_nil_r.
  - change (c :: r ++ tail) with ((c :: r) ++ tail). rewrite skipn_app, Nat.sub_diag, skipn_all. reflexivity.
Qed.

Definition rtok := (tkind * bytes * bytes)%type.    (* kind, text, the white space written after it *)

Fixpoint render (l : list rtok) : bytes :=
  match l with [] => [] | (k, v, ws) :: r => v ++ ws ++ render r end.

Fixpoint chain_ok (l : list rtok) : Prop :=
  match l with
  | [] => True
  | (k, v, ws) :: r => tok_ok k v /\ all_space ws /\ after_ok k (ws ++ render r) /\ chain_ok r
  end.

Definition rtoks (l : list rtok) : list token := map (fun x => mk (fst (fst x)) (snd (fst x))) l.

Lemma lex_all_render : forall l fuel pos ws0,
  all_space ws0 -> chain_ok l -> length (ws0 ++ render l) < fuel ->
  exists toks, lex_all fuel pos (ws0 ++ render l) = (toks, None) /\ map strip_pos toks = rtoks l.
Proof.
  induction l as [|[[k v] ws] r IH]; intros fuel pos ws0 Hw Hc Hf.
  - cbn [render] in *. rewrite app_nil_r in *. destruct fuel as [|f]; [lia|]. cbn [lex_all].
    assert (E : next_token pos ws0 = LEnd).
    { unfold next_token. destruct (take_drop_stop is_space ws0 [] Hw I) as (_ & D). rewrite app_nil_r in D. rewrite D. reflexivity. }
    rewrite E. exists []. auto.
  - cbn [render chain_ok] in *. destruct Hc as (Hk & Hws & Ha & Hr).
    destruct fuel as [|f]; [lia|]. cbn [lex_all].
    rewrite (next_token_tok k v (ws ++ render r) ws0 pos Hk Ha Hw). cbn [t_pos t_val].
    assert (Hlen : length (ws ++ render r) < f).
    { rewrite !app_length in *. destruct (scan_rules_tok k v _ Hk Ha) as (_ & c & r0 & -> & _). cbn [length] in Hf. lia. }
    destruct (IH f (pos + length ws0 + length v) ws Hws Hr Hlen) as (toks & E & M).
    rewrite E. eexists. split; [reflexivity|]. cbn [map rtoks fst snd]. unfold rtoks in M. rewrite M. reflexivity.
Qed.

(* the lexer inverts rendering *)
Theorem lex_render : forall l ws0,
  all_space ws0 -> chain_ok l ->
  snd (lex (ws0 ++ render l)) = None /\ map strip_pos (fst (lex (ws0 ++ render l))) = rtoks l.
Proof.
  intros l ws0 Hw Hc. unfold lex.
  destruct (lex_all_render l (S (length (ws0 ++ render l))) 0 ws0 Hw Hc (Nat.lt_succ_diag_r _)) as (toks & E & M).
  rewrite E. auto.
Qed.


(* ---------------------------------------------------------------- the same with the white space written BEFORE each token *)

Definition ltok := (bytes * tkind * bytes)%type.    (* white space, kind, text *)

Fixpoint lrender (l : list ltok) : bytes :=
  match l with [] => [] | (ws, k, v) :: r => ws ++ v ++ lrender r end.

(* [X]: what follows the sequence *)
Fixpoint lchain (l : list ltok) (X : bytes) : Prop :=
  match l with
  | [] => True
  | (ws, k, v) :: r => all_space ws /\ tok_ok k v /\ after_ok k (lrender r ++ X) /\ lchain r X
  end.

Definition ltoks (l : list ltok) : list token := map (fun x => mk (snd (fst x)) (snd x)) l.

Lemma lrender_app : forall a b, lrender (a ++ b) = lrender a ++ lrender b.
Proof. induction a as [|[[ws k] v] a IH]; intro b; cbn [app lrender]; [reflexivity|]. rewrite IH, !app_assoc. reflexivity. Qed.

Lemma ltoks_app : forall a b, ltoks (a ++ b) = ltoks a ++ ltoks b.
Proof. intros. unfold ltoks. apply map_app. Qed.

Lemma lchain_app : forall a b X, lchain a (lrender b ++ X) -> lchain b X -> lchain (a ++ b) X.
Proof.
  induction a as [|[[ws k] v] a IH]; intros b X Ha Hb; cbn [app lchain] in *; [exact Hb|].
  destruct Ha as (A & B & C & D). split; [exact A|]. split; [exact B|].
  split; [rewrite lrender_app, <- app_assoc; exact C|]. apply IH; assumption.
Qed.

Lemma lex_all_lrender : forall l fuel pos wend,
  lchain l wend -> all_space wend -> length (lrender l ++ wend) < fuel ->
  exists toks, lex_all fuel pos (lrender l ++ wend) = (toks, None) /\ map strip_pos toks = ltoks l.
Proof.
  induction l as [|[[ws k] v] r IH]; intros fuel pos wend Hc Hw Hf.
  - cbn [lrender app] in *. destruct fuel as [|f]; [lia|]. cbn [lex_all].
    assert (E : next_token pos wend = LEnd).
    { unfold next_token. destruct (take_drop_stop is_space wend [] Hw I) as (_ & D). rewrite app_nil_r in D. rewrite D. reflexivity. }
    rewrite E. exists []. auto.
  - cbn [lrender lchain] in *. destruct Hc as (Hws & Hk & Ha & Hr).
    destruct fuel as [|f]; [lia|]. cbn [lex_all].
    replace ((ws ++ v ++ lrender r) ++ wend) with (ws ++ v ++ (lrender r ++ wend)) in * by (rewrite !app_assoc; reflexivity).
    rewrite (next_token_tok k v (lrender r ++ wend) ws pos Hk Ha Hws). cbn [t_pos t_val].
    assert (Hlen : length (lrender r ++ wend) < f).
    { rewrite !app_length in *. destruct (scan_rules_tok k v _ Hk Ha) as (_ & c & r0 & -> & _). cbn [length] in Hf. lia. }
    destruct (IH f (pos + length ws + length v) wend Hr Hw Hlen) as (toks & E & M).
    rewrite E. eexists. split; [reflexivity|]. cbn [map ltoks fst snd]. unfold ltoks in M. rewrite M. reflexivity.
Qed.

Theorem lex_lrender : forall l wend,
  lchain l wend -> all_space wend ->
  snd (lex (lrender l ++ wend)) = None /\ map strip_pos (fst (lex (lrender l ++ wend))) = ltoks l.
Proof.
  intros l wend Hc Hw. unfold lex.
  destruct (lex_all_lrender l (S (length (lrender l ++ wend))) 0 wend Hc Hw (Nat.lt_succ_diag_r _)) as (toks & E & M).
  rewrite E. auto.
Qed.

Print Assumptions lex_render.
Print Assumptions lex_lrender.

(* a decidable form of [num_ok] *)
Definition num_okb (v : bytes) : bool :=
  match take_while is_digit v with
  | [] => false
  | _ => match drop_while is_digit v with
         | [] => true
         | [x] => is_quant x
         | _ => false
         end
  end.

Lemma take_drop_app : forall f l, take_while f l ++ drop_while f l = l.
Proof. induction l as [|a l IH]; [reflexivity|]. cbn. destruct (f a); [cbn; rewrite IH|]; reflexivity. Qed.

Lemma take_while_all_f : forall f l, forallb f (take_while f l) = true.
Proof. induction l as [|a l IH]; [reflexivity|]. cbn. destruct (f a) eqn:E; [cbn; rewrite E, IH|]; reflexivity. Qed.

Lemma num_okb_ok : forall v, num_okb v = true -> num_ok v.
Proof.
  intros v H. unfold num_okb in H. exists (take_while is_digit v), (drop_while is_digit v).
  split; [symmetry; apply take_drop_app|].
  destruct (take_while is_digit v) as [|d ds] eqn:E; [discriminate|].
  split; [discriminate|]. split; [rewrite <- E; apply take_while_all_f|].
  destruct (drop_while is_digit v) as [|x [|y r]]; [left; reflexivity|right; exists x; auto|discriminate].
Qed.
