(* WfFun.v — the tree of a script of the grammar is determined by the script: wf_test / wf_cmd / wf_cmds are
   functional in the node (and in the extensions loaded afterwards). *)
From Coq Require Import List NArith Bool Arith Lia.
From SV Require Import lib.Bytes sieve.Lexer sieve.Tables sieve.ArgCheck sieve.ArgSpec sieve.Machine
  sieve.CompleteFacts sieve.CompleteTree.
Import ListNotations.
Local Close Scope N_scope.

Lemma wf_test_fun : forall T L t n n', wf_test T L t n -> wf_test T L t n' -> n = n'.
Proof.
  intros T L. fix IH 1. intros t n n' H H'. destruct t as [name args|name t0|name ts].
  - inversion H as [nm d a am em Hg _ _ _ _ _ _ Hl| |]; subst.
    inversion H' as [nm' d' a' am' em' Hg' _ _ _ _ _ _ Hl'| |]; subst.
    rewrite Hg in Hg'. injection Hg' as <-. rewrite Hl in Hl'. injection Hl' as <- <-. reflexivity.
  - inversion H as [|nm d a t1 n1 Hg _ Ha _ Ht|]; subst.
    inversion H' as [|nm' d' a' t1' n1' Hg' _ Ha' _ Ht'|]; subst.
    rewrite Hg in Hg'. injection Hg' as <-. rewrite Ha in Ha'. injection Ha' as <-.
    rewrite (IH t0 n1 n1' Ht Ht'). reflexivity.
  - inversion H as [| |nm d a l ns Hg _ Ha _ _ _ Hf]; subst.
    inversion H' as [| |nm' d' a' l' ns' Hg' _ Ha' _ _ _ Hf']; subst.
    rewrite Hg in Hg'. injection Hg' as <-. rewrite Ha in Ha'. injection Ha' as <-.
    assert (E : ns = ns').
    { clear - IH Hf Hf'. revert ns ns' Hf Hf'. induction ts as [|t ts IHts]; intros ns ns' Hf Hf';
        inversion Hf; subst; inversion Hf'; subst; [reflexivity|].
      f_equal; [apply (IH t); assumption|apply IHts; assumption]. }
    rewrite E. reflexivity.
Qed.

Lemma cb_ok_fun : forall d am L L1 L2, cb_ok d am L L1 -> cb_ok d am L L2 -> L1 = L2.
Proof.
  intros d am L L1 L2 H1 H2. unfold cb_ok in *. destruct (d_complete d); [congruence|].
  destruct (assoc_get capabilities_key am) as [[s|l|n|ns]|]; try contradiction; congruence.
Qed.

Ltac body_fun IH body :=
  let x := fresh "x" in let r := fresh "r" in let IHr := fresh "IHr" in
  induction body as [|x r IHr]; intros L0 prev0 ns0 L2 ns0' L2' Hs Hs'; inversion Hs; subst; inversion Hs'; subst; [auto|];
  match goal with
  | A : wf_cmd _ L0 prev0 x ?n1 ?M1, B : wf_cmd _ L0 prev0 x ?n2 ?M2 |- _ =>
      let E1 := fresh in let E2 := fresh in destruct (IH x L0 prev0 n1 M1 n2 M2 A B) as [E1 E2]; subst
  end;
  match goal with
  | A : wf_cmds _ ?M ?p r ?l1 L2, B : wf_cmds _ ?M ?p r ?l2 L2' |- _ =>
      let E3 := fresh in let E4 := fresh in destruct (IHr M p l1 L2 l2 L2' A B) as [E3 E4]; subst
  end; auto.

Lemma wf_cmd_fun : forall T c L prev n L1 n' L1',
  wf_cmd T L prev c n L1 -> wf_cmd T L prev c n' L1' -> n = n' /\ L1 = L1'.
Proof.
  intros T. fix IH 1. intros c L prev n L1 n' L1' H H'.
  destruct c as [name args|name t body|name body].
  - inversion H as [L0 p0 nm d a am em L0' Hg _ _ _ _ _ Hl _ Hcb| |]; subst.
    inversion H' as [L0 p0 nm' d' a' am' em' L0'' Hg' _ _ _ _ _ Hl' _ Hcb'| |]; subst.
    rewrite Hg in Hg'. injection Hg' as <-. rewrite Hl in Hl'. injection Hl' as <- <-.
    split; [reflexivity|apply (cb_ok_fun _ _ _ _ _ Hcb Hcb')].
  - assert (IHs : forall L0 prev0 ns0 L2 ns0' L2',
                    wf_cmds T L0 prev0 body ns0 L2 -> wf_cmds T L0 prev0 body ns0' L2' -> ns0 = ns0' /\ L2 = L2').
    { clear H H'. body_fun IH body. }
    inversion H as [|L0 p0 nm d a t0 nt b ns L0' Hg _ _ Ha _ _ Ht Hb|]; subst.
    inversion H' as [|L0 p0 nm' d' a' t0' nt' b' ns' L0'' Hg' _ _ Ha' _ _ Ht' Hb'|]; subst.
    rewrite Hg in Hg'. injection Hg' as <-. rewrite Ha in Ha'. injection Ha' as <-.
    rewrite (wf_test_fun T L t nt nt' Ht Ht').
    destruct (IHs L None ns L1 ns' L1' Hb Hb') as [E1 E2]. subst. auto.
  - assert (IHs : forall L0 prev0 ns0 L2 ns0' L2',
                    wf_cmds T L0 prev0 body ns0 L2 -> wf_cmds T L0 prev0 body ns0' L2' -> ns0 = ns0' /\ L2 = L2').
    { clear H H'. body_fun IH body. }
    inversion H as [| |L0 p0 nm d b ns L0' Hg _ _ _ _ Hb]; subst.
    inversion H' as [| |L0 p0 nm' d' b' ns' L0'' Hg' _ _ _ _ Hb']; subst.
    rewrite Hg in Hg'. injection Hg' as <-.
    destruct (IHs L None ns L1 ns' L1' Hb Hb') as [E1 E2]. subst. auto.
Qed.

Lemma wf_cmds_fun : forall T cs L prev ns L1 ns' L1',
  wf_cmds T L prev cs ns L1 -> wf_cmds T L prev cs ns' L1' -> ns = ns' /\ L1 = L1'.
Proof.
  intros T. induction cs as [|c r IH]; intros L prev ns L1 ns' L1' H H'; inversion H; subst; inversion H'; subst; [auto|].
  match goal with
  | A : wf_cmd T L prev c ?n1 ?M1, B : wf_cmd T L prev c ?n2 ?M2 |- _ =>
      destruct (wf_cmd_fun T c L prev n1 M1 n2 M2 A B) as [E1 E2]; subst
  end.
  match goal with
  | A : wf_cmds T ?M ?p r ?l1 L1, B : wf_cmds T ?M ?p r ?l2 L1' |- _ =>
      destruct (IH M p l1 L1 l2 L1' A B) as [E3 E4]; subst
  end. auto.
Qed.

Print Assumptions wf_cmd_fun.
