(* LessLoaded.v — the parser with fewer extensions loaded (C07, removal direction).

   Two runs of the machine on the same tokens, the second with a subset of the loaded extensions (what is left
   when an extension is removed from a `require`), go through the same states -- same stack, same expectations,
   same brackets -- until the first transition that asks for an extension the second run lacks; there the second
   run stops with "extension 'x' not loaded".  Hence a script accepted with the full `require` is, with the reduced
   one, either still accepted or rejected with that message for the first missing extension in script order. *)
From Coq Require Import List NArith Bool Arith Lia.
From SV Require Import lib.Bytes sieve.Lexer sieve.Tables sieve.ArgCheck sieve.ArgSpec sieve.Machine
  sieve.GateFacts sieve.PositionFacts sieve.TotalFacts sieve.CompleteFacts sieve.CommentFacts.
Import ListNotations.
Local Close Scope N_scope.

Definition sub (L' L : list bytes) : Prop := forall x, mem x L' = true -> mem x L = true.

(* the failure we are after: an extension the full run has and the reduced run lacks *)
Definition lacks (L L' : list bytes) (x : bytes) : Prop := mem x L' = false /\ mem x L = true.

(* ---- the two places where the loaded extensions are consulted *)

Lemma ivv_less : forall a v L L', sub L' L ->
  is_valid_value a v true L' = is_valid_value a v true L \/
  (is_valid_value a v true L = VTrue /\ exists x, is_valid_value a v true L' = VRaise (EExtNotLoaded x) /\ lacks L L' x).
Proof.
  intros a v L L' Hs. unfold is_valid_value.
  destruct (a_values a) as [vals|]; destruct (a_extension_values a) as [m|]; auto;
    destruct v as [s|l|n|ns]; auto.
  - destruct (mem (lower s) vals); auto.
    destruct (assoc_get (lower s) m) as [[|c e]|]; auto. cbn [andb].
    destruct (mem (c :: e) L) eqn:E1, (mem (c :: e) L') eqn:E2; cbn [negb]; auto.
    + right. split; [reflexivity|]. exists (c :: e). split; [reflexivity|split; assumption].
    + rewrite (Hs _ E2) in E1. discriminate.
  - destruct (assoc_get (lower s) m) as [[|c e]|]; auto. cbn [andb].
    destruct (mem (c :: e) L) eqn:E1, (mem (c :: e) L') eqn:E2; cbn [negb]; auto.
    + right. split; [reflexivity|]. exists (c :: e). split; [reflexivity|split; assumption].
    + rewrite (Hs _ E2) in E1. discriminate.
Qed.

Definition cna_gate (L L' : list bytes) (r r' : cna) : Prop :=
  r' = r \/ exists x, r' = CnaErr (EExtNotLoaded x) /\ lacks L L' x.

Ltac gate_left := left; reflexivity.
Ltac gate_right x Hx := right; exists x; split; [reflexivity|exact Hx].

Lemma cna_scan_less : forall defs f pos t v add L L', sub L' L ->
  cna_gate L L' (cna_scan f defs pos t v add true L) (cna_scan f defs pos t v add true L').
Proof.
  induction defs as [|ca rest IH]; intros f pos t v add L L' Hs; cbn [cna_scan]; [gate_left|].
  destruct (a_required ca).
  - destruct (a_type ca) as [|[] [|y l]];
      try (destruct (negb (atype_eqb t TyTest)); gate_left);
      try (destruct (negb (is_valid_type t _)); [gate_left|];
           destruct (ivv_less ca v L L' Hs) as [E|(E & x & E' & Hx)];
           [rewrite E; gate_left|rewrite E, E'; gate_right x Hx]).
  - destruct (atype_mem t (a_type ca)); [|apply IH; exact Hs].
    destruct (ivv_less ca v L L' Hs) as [E|(E & x & E' & Hx)]; [|rewrite E, E'; gate_right x Hx].
    rewrite E. destruct (is_valid_value ca v true L); try gate_left; [|apply IH; exact Hs].
    destruct (a_extension ca) as [[|c e]|]; try gate_left. cbn [andb].
    destruct (mem (c :: e) L) eqn:E1, (mem (c :: e) L') eqn:E2; cbn [negb]; try gate_left.
    + right. exists (c :: e). split; [reflexivity|split; assumption].
    + rewrite (Hs _ E2) in E1. discriminate.
Qed.

Lemma cna_less : forall f t v add L L', sub L' L ->
  cna_gate L L' (check_next_arg f t v add true L) (check_next_arg f t v add true L').
Proof.
  intros f t v add L L' Hs. unfold check_next_arg.
  destruct (negb (has_arguments (f_def f))); [gate_left|].
  destruct (iscomplete f (Some (t, v))); [gate_left|].
  destruct (f_curarg f) as [ca|]; [|apply cna_scan_less; exact Hs].
  destruct (a_extra ca) as [ex|]; [|apply cna_scan_less; exact Hs].
  gate_left.
Qed.

Lemma gci_less : forall T name L L', sub L' L ->
  get_command_instance T L' name = get_command_instance T L name \/
  exists x, get_command_instance T L' name = inr (EExtNotLoaded x) /\ lacks L L' x.
Proof.
  intros T name L L' Hs. unfold get_command_instance.
  destruct (lookup_cmd T (lower name)) as [d|]; [|left; reflexivity].
  destruct (d_extension d) as [[|c e]|]; try (left; reflexivity).
  destruct (mem (c :: e) L) eqn:E1, (mem (c :: e) L') eqn:E2; try (left; reflexivity).
  - right. exists (c :: e). split; [reflexivity|split; assumption].
  - rewrite (Hs _ E2) in E1. discriminate.
Qed.

(* ---- states: the second run differs in the loaded extensions (a subset), in the result list, and in the
   string-list buffer, which is stale outside a string list (the next `[` resets it) *)

Definition ch (C' L' : list bytes) (R' : list node) (st : pstate) : pstate :=
  mkP (p_stack st) (p_cstate st) C' (p_expected st) (p_brackets st) L' (p_hash st) R'.

Definition names (R : list node) : list bytes := map (fun n => d_name (node_def n)) R.

Definition rel (C' L' : list bytes) (R' : list node) (st : pstate) : Prop :=
  sub L' (p_loaded st) /\ names (p_result st) = names R' /\ (p_cstate st = CStrList -> C' = p_curlist st).

Definition simst (s s' : pstate) : Prop := exists C1 L1 R1, s' = ch C1 L1 R1 s /\ rel C1 L1 R1 s.

Definition gate (L L' : list bytes) (r' : mres) : Prop := exists x, r' = MErr (EExtNotLoaded x) /\ lacks L L' x.

Definition sim (st st' : pstate) (r r' : mres) : Prop :=
  match r with
  | MTrue s => exists s', r' = MTrue s' /\ simst s s'
  | MRewind s => exists s', r' = MRewind s' /\ simst s s'
  | MFalse s => exists s', r' = MFalse s' /\ simst s s'
  | MErr e => r' = MErr e
  | MCrash => r' = MCrash
  end \/ gate (p_loaded st) (p_loaded st') r'.

(* the outcome leaves the loaded extensions, the result list, the state and the buffer alone *)
Definition untouched (st : pstate) (r : mres) : Prop :=
  match r with
  | MTrue s | MRewind s | MFalse s =>
      p_loaded s = p_loaded st /\ p_result s = p_result st /\ p_cstate s = p_cstate st /\ p_curlist s = p_curlist st
  | _ => True
  end.

(* same outcome, in the changed state; or the reduced run lacks an extension *)
Definition keeps_or_gate (C' L' : list bytes) (R' : list node) (st : pstate) (r r' : mres) : Prop :=
  (r' = mmap (ch C' L' R') r \/ gate (p_loaded st) L' r') /\ untouched st r.

Ltac st_destruct st := destruct st as [stk cs cl ex br ld hs rs].
Ltac same st := split; [left; st_destruct st; reflexivity|st_destruct st; cbn; auto].

Lemma cc_loop_less : forall rest cur st C' L' R', sub L' (p_loaded st) ->
  keeps_or_gate C' L' R' st (cc_loop cur rest st) (cc_loop cur rest (ch C' L' R' st)).
Proof.
  induction rest as [|parent rest' IH]; intros cur st C' L' R' Hs; cbn [cc_loop].
  - same st.
  - set (p1 := attach_into cur parent).
    destruct (is_control p1 || is_test p1); [|apply IH; exact Hs].
    destruct (iscomplete p1 None).
    + destruct (is_control p1); [same st|apply IH; exact Hs].
    + change (p_loaded (ch C' L' R' st)) with L'.
      destruct (cna_less p1 TyTest placeholder false (p_loaded st) L' Hs) as [E|(x & E & Hx)].
      * rewrite E. destruct (check_next_arg p1 TyTest placeholder false true (p_loaded st)) as [p2 sl| | |];
          try (same st).
        destruct (negb (iscomplete p2 None)); [|apply IH; exact Hs].
        split; [left|]; st_destruct st; cbn; destruct (d_variable_args_nb (f_def p2)); cbn; auto.
      * rewrite E. split; [right; exists x; split; [reflexivity|exact Hx]|].
        destruct (check_next_arg p1 TyTest placeholder false true (p_loaded st)) as [p2 sl| | |];
          try (st_destruct st; cbn; auto; fail); try exact I.
        destruct (negb (iscomplete p2 None)); [st_destruct st; cbn; destruct (d_variable_args_nb (f_def p2)); cbn; auto|].
        apply (IH p2 st C' L' R' Hs).
Qed.

Lemma check_completion_less : forall st b C' L' R', sub L' (p_loaded st) ->
  keeps_or_gate C' L' R' st (check_completion st b) (check_completion (ch C' L' R' st) b).
Proof.
  intros st b C' L' R' Hs. unfold check_completion. change (p_stack (ch C' L' R' st)) with (p_stack st).
  destruct (p_stack st) as [|cur rest] eqn:Es; [split; [left; reflexivity|exact I]|].
  destruct (negb (iscomplete cur None)); [split; [left; reflexivity|cbn; auto]|].
  destruct (is_action cur || is_control cur && negb (d_accept_children (f_def cur))).
  - split; [left|]; st_destruct st; destruct b; cbn; auto.
  - apply cc_loop_less. exact Hs.
Qed.

Lemma pop_bracket_ch : forall st b C' L' R',
  pop_bracket (ch C' L' R' st) b = match pop_bracket st b with inl s => inl (ch C' L' R' s) | inr e => inr e end.
Proof.
  intros st b C' L' R'. st_destruct st. unfold pop_bracket, ch. cbn. destruct br as [|x t]; [reflexivity|].
  destruct (bracket_eqb x b); reflexivity.
Qed.

Lemma pop_bracket_untouched : forall st b s, pop_bracket st b = inl s ->
  p_loaded s = p_loaded st /\ p_result s = p_result st /\ p_stack s = p_stack st /\ p_cstate s = p_cstate st /\ p_curlist s = p_curlist st.
Proof.
  intros st b s H. st_destruct st. unfold pop_bracket in H. cbn in H. destruct br as [|x t]; [discriminate|].
  destruct (bracket_eqb x b); [|discriminate]. injection H as <-. cbn. auto 6.
Qed.

Lemma rel_same : forall C' L' R' st, rel C' L' R' st -> simst st (ch C' L' R' st).
Proof. intros C' L' R' st H. exists C', L', R'. auto. Qed.

Lemma kg_sim : forall st C' L' R' r r',
  keeps_or_gate C' L' R' st r r' -> rel C' L' R' st -> sim st (ch C' L' R' st) r r'.
Proof.
  intros st C' L' R' r r' [[A|A] B] (Hs & Hn & Hc); [left|right; exact A].
  subst r'. destruct r as [s|s|s|e|]; cbn [mmap untouched] in *; try reflexivity;
    destruct B as (B1 & B2 & B3 & B4);
    (eexists; split; [reflexivity|]; exists C', L', R'; split; [reflexivity|];
     split; [rewrite B1; exact Hs|split; [rewrite B2; exact Hn|rewrite B3, B4; exact Hc]]).
Qed.

Lemma sim_loaded_eq : forall st st' s1 s1' r r',
  p_loaded s1 = p_loaded st -> p_loaded s1' = p_loaded st' -> sim s1 s1' r r' -> sim st st' r r'.
Proof. intros st st' s1 s1' r r' E1 E2 [H|H]; [left; exact H|right; rewrite <- E1, <- E2; exact H]. Qed.

Lemma gate_sim : forall st st' r x r', r' = MErr (EExtNotLoaded x) -> lacks (p_loaded st) (p_loaded st') x -> sim st st' r r'.
Proof. intros st st' r x r' E H. right. exists x. split; assumption. Qed.

(* check_completion after a step that left everything but the stack alone *)
Lemma cc_after : forall st s1 b C' L' R', rel C' L' R' st ->
  p_loaded s1 = p_loaded st -> p_result s1 = p_result st -> (p_cstate s1 = CStrList -> C' = p_curlist s1) ->
  sim st (ch C' L' R' st) (check_completion s1 b) (check_completion (ch C' L' R' s1) b).
Proof.
  intros st s1 b C' L' R' (Hs & Hn & Hc) E1 E2 E3.
  apply (sim_loaded_eq st (ch C' L' R' st) s1 (ch C' L' R' s1)); [exact E1|reflexivity|].
  apply kg_sim; [apply check_completion_less; rewrite E1; exact Hs|].
  split; [rewrite E1; exact Hs|split; [rewrite E2; exact Hn|exact E3]].
Qed.

Lemma m_stringlist_sim : forall st t C' L' R', rel C' L' R' st -> p_cstate st = CStrList ->
  sim st (ch C' L' R' st) (m_stringlist st t) (m_stringlist (ch C' L' R' st) t).
Proof.
  intros st t C' L' R' Hrel Hcs. pose proof Hrel as (Hs & Hn & Hc). pose proof (Hc Hcs) as EC. subst C'.
  unfold m_stringlist. change (p_stack (ch (p_curlist st) L' R' st)) with (p_stack st).
  destruct (p_stack st) as [|cur rest] eqn:Es; [left; reflexivity|].
  destruct (t_kind t); try (left; eexists; split; [reflexivity|apply rel_same; exact Hrel]).
  - (* ] *)
    rewrite pop_bracket_ch. destruct (pop_bracket st BRBracket) as [st1|e] eqn:Ep; [|left; reflexivity].
    destruct (pop_bracket_untouched st BRBracket st1 Ep) as (H1 & H2 & H3 & H4 & H5).
    change (p_loaded (ch (p_curlist st) L' R' st1)) with L'. change (p_curlist (ch (p_curlist st) L' R' st1)) with (p_curlist st).
    rewrite <- H5.
    assert (Hs1 : sub L' (p_loaded st1)) by (rewrite H1; exact Hs).
    destruct (cna_less cur TyStringList (VList (p_curlist st1)) true (p_loaded st1) L' Hs1) as [E|(x & E & Hx)];
      [|rewrite E; cbn [lift_cna]; apply (gate_sim _ _ _ x); [reflexivity|rewrite <- H1; exact Hx]].
    rewrite E. destruct (check_next_arg cur TyStringList (VList (p_curlist st1)) true true (p_loaded st1)) as [f sl| | |];
      cbn [lift_cna]; try (left; reflexivity).
    + set (sA := with_cstate CArgs (replace_top f st1)).
      assert (Ec : with_cstate CArgs (replace_top f (ch (p_curlist st1) L' R' st1)) = ch (p_curlist st1) L' R' sA).
      { unfold sA. st_destruct st1. unfold replace_top. cbn. destruct stk; reflexivity. }
      rewrite Ec. rewrite H5.
      apply cc_after; [exact Hrel| | |];
        unfold sA; st_destruct st1; unfold replace_top; cbn in *; destruct stk; cbn; try congruence; discriminate.
    + left. eexists. split; [reflexivity|]. exists (p_curlist st1), L', R'. split; [reflexivity|].
      split; [exact Hs1|split; [rewrite H2; exact Hn|reflexivity]].
  - (* , *)
    left. eexists. split; [reflexivity|]. exists (p_curlist st), L', R'.
    split; [st_destruct st; reflexivity|]. split; [st_destruct st; exact Hs|]. split; [st_destruct st; exact Hn|].
    st_destruct st. reflexivity.
  - (* string *)
    destruct (negb (utf8_valid (t_val t))); [left; reflexivity|].
    left. eexists. split; [reflexivity|]. exists (p_curlist st ++ [t_val t]), L', R'.
    split; [st_destruct st; reflexivity|]. split; [st_destruct st; exact Hs|]. split; [st_destruct st; exact Hn|].
    st_destruct st. reflexivity.
Qed.

Lemma lift_true_less : forall st cur ty v C' L' R', sub L' (p_loaded st) ->
  keeps_or_gate C' L' R' st (lift_cna (check_next_arg cur ty v true true (p_loaded st)) st MTrue)
                            (lift_cna (check_next_arg cur ty v true true L') (ch C' L' R' st) MTrue).
Proof.
  intros st cur ty v C' L' R' Hs.
  destruct (cna_less cur ty v true (p_loaded st) L' Hs) as [E|(x & E & Hx)].
  - rewrite E. destruct (check_next_arg cur ty v true true (p_loaded st)) as [f sl| | |]; cbn [lift_cna];
      try (split; [left; reflexivity|exact I]).
    + split; [left|]; st_destruct st; unfold replace_top; cbn; destruct stk; cbn; auto.
    + same st.
  - rewrite E. cbn [lift_cna]. split; [right; exists x; split; [reflexivity|exact Hx]|].
    destruct (check_next_arg cur ty v true true (p_loaded st)) as [f sl| | |]; cbn [lift_cna]; try exact I;
      st_destruct st; unfold replace_top; cbn; destruct stk; cbn; auto.
Qed.

Lemma m_argument_sim : forall st t C' L' R', rel C' L' R' st ->
  sim st (ch C' L' R' st) (m_argument st t) (m_argument (ch C' L' R' st) t).
Proof.
  intros st t C' L' R' Hrel. pose proof Hrel as (Hs & Hn & Hc).
  unfold m_argument. change (p_stack (ch C' L' R' st)) with (p_stack st).
  destruct (p_stack st) as [|cur rest] eqn:Es; [left; reflexivity|].
  change (p_loaded (ch C' L' R' st)) with L'.
  destruct (t_kind t);
    try (left; eexists; split; [reflexivity|apply rel_same; exact Hrel]);
    try (apply kg_sim; [apply lift_true_less; exact Hs|exact Hrel]);
    try (destruct (negb (utf8_valid (t_val t))); [left; reflexivity|apply kg_sim; [apply lift_true_less; exact Hs|exact Hrel]]).
  - (* [ : the buffer is reset in both runs *)
    left. eexists. split; [reflexivity|]. exists [], L', R'. split; [st_destruct st; reflexivity|].
    split; [st_destruct st; exact Hs|split; [st_destruct st; exact Hn|st_destruct st; reflexivity]].
  - destruct (d_non_deterministic_args (f_def cur)); [|left; eexists; split; [reflexivity|apply rel_same; exact Hrel]].
    destruct (reassign_arguments cur) as [cur'|]; [|left; reflexivity].
    destruct (negb (iscomplete cur' None)); left; eexists; (split; [reflexivity|]); exists C', L', R';
      (split; [st_destruct st; unfold replace_top; cbn; destruct stk; reflexivity|]);
      (split; [st_destruct st; unfold replace_top; cbn in *; destruct stk; exact Hs|]);
      (split; [st_destruct st; unfold replace_top; cbn in *; destruct stk; exact Hn|]);
      st_destruct st; unfold replace_top; cbn in *; destruct stk; exact Hc.
  - destruct (d_non_deterministic_args (f_def cur)); [|left; eexists; split; [reflexivity|apply rel_same; exact Hrel]].
    destruct (reassign_arguments cur) as [cur'|]; [|left; reflexivity].
    destruct (negb (iscomplete cur' None)); left; eexists; (split; [reflexivity|]); exists C', L', R';
      (split; [st_destruct st; unfold replace_top; cbn; destruct stk; reflexivity|]);
      (split; [st_destruct st; unfold replace_top; cbn in *; destruct stk; exact Hs|]);
      (split; [st_destruct st; unfold replace_top; cbn in *; destruct stk; exact Hn|]);
      st_destruct st; unfold replace_top; cbn in *; destruct stk; exact Hc.
Qed.

Lemma last_opt_names : forall R R', names R = names R' ->
  option_map (fun n => d_name (node_def n)) (last_opt R) = option_map (fun n => d_name (node_def n)) (last_opt R').
Proof.
  induction R as [|a R IH]; intros [|b R'] H; cbn in H; try discriminate; [reflexivity|].
  injection H as H1 H2. destruct R as [|a2 R2], R' as [|b2 R2']; cbn in H2; try discriminate.
  - cbn. rewrite H1. reflexivity.
  - change (last_opt (a :: a2 :: R2)) with (last_opt (a2 :: R2)). change (last_opt (b :: b2 :: R2')) with (last_opt (b2 :: R2')).
    apply IH. exact H2.
Qed.

Lemma names_app : forall R R' n, names R = names R' -> names (R ++ [n]) = names (R' ++ [n]).
Proof. intros R R' n H. unfold names in *. rewrite !map_app, H. reflexivity. Qed.

Lemma up_sim : forall st C' L' R', rel C' L' R' st ->
  sim st (ch C' L' R' st) (up st) (up (ch C' L' R' st)).
Proof.
  intros st C' L' R' (Hs & Hn & Hc). left. unfold up. change (p_stack (ch C' L' R' st)) with (p_stack st).
  destruct (p_stack st) as [|cur rest] eqn:Es; [reflexivity|].
  change (p_result (ch C' L' R' st)) with R'.
  assert (Hprev : match rest with [] => option_map (fun n => d_name (node_def n)) (last_opt (p_result st))
                              | parent :: _ => option_map (fun n => d_name (node_def n)) (last_opt (f_children parent)) end =
                  match rest with [] => option_map (fun n => d_name (node_def n)) (last_opt R')
                              | parent :: _ => option_map (fun n => d_name (node_def n)) (last_opt (f_children parent)) end).
  { destruct rest; [apply last_opt_names; exact Hn|reflexivity]. }
  assert (Hf : forall (p p' : option node),
             option_map (fun n => d_name (node_def n)) p = option_map (fun n => d_name (node_def n)) p' ->
             match d_must_follow (f_def cur) with
             | None => true
             | Some mf => match p with None => false | Some n => mem (d_name (node_def n)) mf end
             end =
             match d_must_follow (f_def cur) with
             | None => true
             | Some mf => match p' with None => false | Some n => mem (d_name (node_def n)) mf end
             end).
  { intros p p' H. destruct (d_must_follow (f_def cur)); [|reflexivity]. destruct p, p'; cbn in H; try discriminate; [|reflexivity].
    injection H as ->. reflexivity. }
  destruct rest as [|parent rest'].
  - rewrite <- (Hf _ _ Hprev).
    destruct (negb _); [reflexivity|].
    eexists. split; [reflexivity|]. exists C', L', (R' ++ [frame_node cur (p_hash st)]).
    split; [st_destruct st; reflexivity|]. split; [st_destruct st; exact Hs|].
    split; [st_destruct st; cbn in *; apply names_app; exact Hn|st_destruct st; exact Hc].
  - destruct (negb _); [reflexivity|].
    change (p_expected (ch C' L' R' st)) with (p_expected st).
    destruct (up_loop (attach_into cur parent) rest' (p_expected st)) as [stack' exp'].
    eexists. split; [reflexivity|]. exists C', L', R'. split; [st_destruct st; reflexivity|].
    split; [st_destruct st; exact Hs|split; [st_destruct st; exact Hn|st_destruct st; exact Hc]].
Qed.

Lemma load_exts_sub : forall l L L', sub L' L -> sub (load_exts l L') (load_exts l L).
Proof.
  induction l as [|e t IH]; intros L L' Hs; [exact Hs|]. cbn [load_exts]. apply IH.
  intros x Hx. destruct (mem (strip_dq e) L') eqn:E1.
  - destruct (mem (strip_dq e) L); [apply Hs; exact Hx|apply GateFacts.mem_app_l; apply Hs; exact Hx].
  - apply GateFacts.mem_In in Hx. apply in_app_or in Hx as [Hx|[<-|[]]].
    + apply GateFacts.mem_In in Hx. destruct (mem (strip_dq e) L); [apply Hs; exact Hx|apply GateFacts.mem_app_l; apply Hs; exact Hx].
    + destruct (mem (strip_dq e) L) eqn:E2; [exact E2|]. apply GateFacts.mem_In. apply in_or_app. right. left. reflexivity.
Qed.

Lemma complete_cb_sim : forall st C' L' R', rel C' L' R' st ->
  sim st (ch C' L' R' st) (complete_cb st) (complete_cb (ch C' L' R' st)).
Proof.
  intros st C' L' R' Hrel. pose proof Hrel as (Hs & Hn & Hc). left. unfold complete_cb.
  change (p_stack (ch C' L' R' st)) with (p_stack st).
  destruct (p_stack st) as [|cur rest]; [reflexivity|].
  pose proof (rel_same C' L' R' st Hrel) as Same.
  destruct (d_complete (f_def cur)); [eexists; split; [reflexivity|exact Same]|].
  destruct (assoc_get capabilities_key (f_args cur)) as [[s|l|n|ns]|]; try reflexivity;
    try (eexists; split; [reflexivity|exact Same]);
    (eexists; split; [reflexivity|]; eexists C', _, R'; split; [st_destruct st; reflexivity|]; split;
     [st_destruct st; unfold with_loaded; cbn [p_loaded] in *; apply load_exts_sub; exact Hs
     |split; [st_destruct st; exact Hn|st_destruct st; exact Hc]]).
Qed.

Lemma up_only_mustfollow : forall st e, up st = MErr e -> e = EMustFollow.
Proof.
  intros st e H. unfold up in H. destruct (p_stack st) as [|cur rest]; [discriminate|].
  destruct (negb _); [injection H as <-; reflexivity|].
  destruct rest; [discriminate|]. destruct (up_loop _ _ _); discriminate.
Qed.

Lemma complete_cb_no_err : forall st e, complete_cb st = MErr e -> False.
Proof.
  intros st e H. unfold complete_cb in H. destruct (p_stack st); [discriminate|].
  destruct (d_complete _); [discriminate|]. destruct (assoc_get _ _) as [[| | |]|]; discriminate.
Qed.

(* after a relational step of the argument states: the two outputs have the loaded extensions of their inputs *)
Lemma simst_loaded : forall st C' L' R' s s', rel C' L' R' st -> simst s s' ->
  p_loaded s = p_loaded st -> p_loaded s' = L' ->
  exists C1 R1, s' = ch C1 L' R1 s /\ rel C1 L' R1 s.
Proof.
  intros st C' L' R' s s' _ (C1 & L1 & R1 & -> & Hr) E1 E2. change (p_loaded (ch C1 L1 R1 s)) with L1 in E2. subst L1.
  exists C1, R1. auto.
Qed.

Lemma m_arguments_sim : forall T st t C' L' R', rel C' L' R' st ->
  sim st (ch C' L' R' st) (m_arguments T st t) (m_arguments T (ch C' L' R' st) t).
Proof.
  intros T st t C' L' R' Hrel. pose proof Hrel as (Hs & Hn & Hc). unfold m_arguments.
  pose proof (rel_same C' L' R' st Hrel) as Same.
  destruct (t_kind t) eqn:Ek;
    try (left; eexists; split; [reflexivity|]; exists C', L', R'; split; [st_destruct st; reflexivity|];
         split; [st_destruct st; exact Hs|split; [st_destruct st; exact Hn|st_destruct st; exact Hc]]).
  all: try match goal with |- context [m_argument] =>
    pose proof (m_argument_sim st t C' L' R' Hrel) as A;
    pose proof (m_argument_keeps st t) as K; pose proof (m_argument_keeps (ch C' L' R' st) t) as K';
    change (p_loaded (ch C' L' R' st)) with L' in K';
    destruct A as [A|(x & A & Hx)]; [|rewrite A; apply (gate_sim _ _ _ x); [reflexivity|exact Hx]];
    destruct (m_argument st t) as [s1|s1|s1|e|]; cbn in A, K;
    [ destruct A as (s1' & A & S); rewrite A in *; cbn in K';
      destruct (simst_loaded st C' L' R' s1 s1' Hrel S K K') as (C1 & R1 & -> & Hr1);
      apply (sim_loaded_eq st (ch C' L' R' st) s1 (ch C1 L' R1 s1)); [exact K|reflexivity|];
      apply kg_sim; [apply check_completion_less; exact (proj1 Hr1)|exact Hr1]
    | destruct A as (s1' & A & S); rewrite A in *; cbn in K';
      destruct (simst_loaded st C' L' R' s1 s1' Hrel S K K') as (C1 & R1 & -> & Hr1);
      pose proof (kg_sim s1 C1 L' R1 _ _ (check_completion_less s1 false C1 L' R1 (proj1 Hr1)) Hr1) as C;
      apply (sim_loaded_eq st (ch C' L' R' st) s1 (ch C1 L' R1 s1)); [exact K|reflexivity|];
      destruct C as [C|C]; [|right; destruct C as (y & C & Hy); exists y; split; [rewrite C; reflexivity|exact Hy]];
      destruct (check_completion s1 false) as [s2|s2|s2|e2|]; cbn in C;
      [ destruct C as (s2' & -> & S2); left; eexists; split; [reflexivity|exact S2]
      | destruct C as (s2' & -> & S2); left; eexists; split; [reflexivity|exact S2]
      | destruct C as (s2' & -> & S2); left; eexists; split; [reflexivity|exact S2]
      | rewrite C; left; reflexivity
      | rewrite C; left; reflexivity ]
    | destruct A as (s1' & -> & S); left; eexists; split; [reflexivity|exact S]
    | rewrite A; left; reflexivity
    | rewrite A; left; reflexivity ]
  end.
  - (* ) *)
    rewrite pop_bracket_ch. destruct (pop_bracket st BRParen) as [st1|e] eqn:Ep; [|left; reflexivity].
    destruct (pop_bracket_untouched st BRParen st1 Ep) as (H1 & H2 & H3 & H4 & H5).
    apply (sim_loaded_eq st (ch C' L' R' st) st1 (ch C' L' R' st1)); [exact H1|reflexivity|].
    apply up_sim. split; [rewrite H1; exact Hs|split; [rewrite H2; exact Hn|rewrite H4, H5; exact Hc]].
  - (* identifier: a test *)
    change (p_stack (ch C' L' R' st)) with (p_stack st). change (p_loaded (ch C' L' R' st)) with L'.
    destruct (p_stack st) as [|cur rest] eqn:Es; [left; reflexivity|].
    destruct (gci_less T (t_val t) (p_loaded st) L' Hs) as [E|(x & E & Hx)]; [|rewrite E; apply (gate_sim _ _ _ x); [reflexivity|exact Hx]].
    rewrite E. destruct (get_command_instance T (p_loaded st) (t_val t)) as [d|e]; [|left; reflexivity].
    destruct (d_type d); try (left; reflexivity).
    destruct (cna_less cur TyTest placeholder true (p_loaded st) L' Hs) as [E2|(x & E2 & Hx)];
      [|rewrite E2; apply (gate_sim _ _ _ x); [reflexivity|exact Hx]].
    rewrite E2. destruct (check_next_arg cur TyTest placeholder true true (p_loaded st)) as [cur' slot| | |];
      try (left; reflexivity); [|left; eexists; split; [reflexivity|exact Same]].
    set (at_ := match slot with Some ca => match a_type ca with [TyTestList] => AtTestList (a_name ca) | _ => AtTest (a_name ca) end | None => AtTop end).
    set (sA := with_stack (new_frame d at_ :: p_stack (with_expected (d_expected_first d) (replace_top cur' st)))
                          (with_expected (d_expected_first d) (replace_top cur' st))).
    assert (EA : with_stack (new_frame d at_ :: p_stack (with_expected (d_expected_first d) (replace_top cur' (ch C' L' R' st))))
                            (with_expected (d_expected_first d) (replace_top cur' (ch C' L' R' st))) = ch C' L' R' sA).
    { unfold sA. st_destruct st. unfold replace_top. cbn in *. rewrite Es. reflexivity. }
    rewrite EA. apply cc_after; [exact Hrel| | |]; unfold sA; st_destruct st; unfold replace_top; cbn in *; rewrite Es; cbn; auto.
Qed.

(* what follows a False of the argument states: the token may open a block or end the command *)
Definition after_false (t : token) (st1 : pstate) : mres :=
  match t_kind t with
  | TLeftCBracket =>
      match p_stack st1 with
      | [] => MCrash
      | cur :: _ =>
          if is_control cur && d_accept_children (f_def cur) && iscomplete cur None
          then MTrue (with_cstate CNone (with_brackets (BRCBracket :: p_brackets st1) st1))
          else MFalse st1
      end
  | TSemicolon =>
      match p_stack st1 with
      | [] => MCrash
      | cur :: _ =>
          if is_test cur || d_accept_children (f_def cur) then MFalse st1
          else if pending_param cur then MErr EMissingParam
          else
            match check_completion (with_cstate CNone st1) false with
            | MTrue st2 =>
                match complete_cb st2 with
                | MTrue st3 => up st3
                | r' => r'
                end
            | MRewind st2 => MCrash
            | r' => r'
            end
      end
  | _ => MFalse st1
  end.

Lemma after_false_sim : forall t st1 C' L' R', rel C' L' R' st1 ->
  sim st1 (ch C' L' R' st1) (after_false t st1) (after_false t (ch C' L' R' st1)).
Proof.
  intros t st1 C' L' R' Hrel. pose proof Hrel as (Hs & Hn & Hc). unfold after_false.
  pose proof (rel_same C' L' R' st1 Hrel) as Same.
  change (p_stack (ch C' L' R' st1)) with (p_stack st1).
  destruct (t_kind t); try (left; eexists; split; [reflexivity|exact Same]).
  - (* { *)
    destruct (p_stack st1) as [|cur rest] eqn:Es; [left; reflexivity|].
    destruct (is_control cur && d_accept_children (f_def cur) && iscomplete cur None);
      left; eexists; (split; [reflexivity|]); [|exact Same].
    exists C', L', R'. split; [st_destruct st1; reflexivity|].
    split; [st_destruct st1; exact Hs|split; [st_destruct st1; exact Hn|st_destruct st1; cbn; discriminate]].
  - (* ; *)
    destruct (p_stack st1) as [|cur rest] eqn:Es; [left; reflexivity|].
    destruct (is_test cur || d_accept_children (f_def cur)); [left; eexists; split; [reflexivity|exact Same]|].
    destruct (pending_param cur); [left; reflexivity|].
    set (sA := with_cstate CNone st1).
    assert (EA : with_cstate CNone (ch C' L' R' st1) = ch C' L' R' sA) by (unfold sA; st_destruct st1; reflexivity).
    rewrite EA.
    assert (HrA : rel C' L' R' sA).
    { unfold sA. split; [st_destruct st1; exact Hs|split; [st_destruct st1; exact Hn|st_destruct st1; cbn; discriminate]]. }
    destruct (check_completion_less sA false C' L' R' (proj1 HrA)) as ([A|(x & A & Hx)] & B).
    + rewrite A. destruct (check_completion sA false) as [s2|s2|s2|e|]; cbn [mmap untouched] in *; try (left; reflexivity).
      * destruct B as (B1 & B2 & B3 & B4).
        assert (Hr2 : rel C' L' R' s2).
        { destruct HrA as (Ha & Hb & Hd). split; [rewrite B1; exact Ha|split; [rewrite B2; exact Hb|rewrite B3, B4; exact Hd]]. }
        destruct (complete_cb_sim s2 C' L' R' Hr2) as [C|(x & C & Hx)].
        -- destruct (complete_cb s2) as [s3|s3|s3|e3|] eqn:Ecb; cbn in C.
           ++ destruct C as (s3' & -> & (C3 & L3 & R3 & -> & Hr3)).
              pose proof (up_sim s3 C3 L3 R3 Hr3) as U. destruct U as [U|(y & U & Hy)]; [left; exact U|].
              exfalso. pose proof (up_only_mustfollow (ch C3 L3 R3 s3) (EExtNotLoaded y) U) as TE. discriminate TE.
           ++ destruct C as (s3' & -> & _). exfalso. apply (complete_cb_other s2 s3). left. exact Ecb.
           ++ destruct C as (s3' & -> & _). exfalso. apply (complete_cb_other s2 s3). right. exact Ecb.
           ++ rewrite C. left. reflexivity.
           ++ rewrite C. left. reflexivity.
        -- exfalso. apply (complete_cb_no_err (ch C' L' R' s2) (EExtNotLoaded x) C).
      * destruct B as (B1 & B2 & B3 & B4). left. eexists. split; [reflexivity|]. exists C', L', R'. split; [reflexivity|].
        destruct HrA as (Ha & Hb & Hd). split; [rewrite B1; exact Ha|split; [rewrite B2; exact Hb|rewrite B3, B4; exact Hd]].
    + rewrite A. right. exists x. split; [reflexivity|]. unfold sA in Hx. st_destruct st1. exact Hx.
Qed.

(* one False of the argument states, then what the token does *)
Lemma args_then_false_sim : forall st t C' L' R' r r',
  rel C' L' R' st ->
  sim st (ch C' L' R' st) r r' -> keeps (p_loaded st) r -> keeps L' r' ->
  sim st (ch C' L' R' st) (match r with MFalse st1 => after_false t st1 | _ => r end)
                          (match r' with MFalse st1 => after_false t st1 | _ => r' end).
Proof.
  intros st t C' L' R' r r' Hrel [H|(x & -> & Hx)] K K'; [|right; exists x; split; [reflexivity|exact Hx]].
  destruct r as [s|s|s|e|]; cbn in H.
  - destruct H as (s' & -> & S). left. eexists. split; [reflexivity|exact S].
  - destruct H as (s' & -> & S). left. eexists. split; [reflexivity|exact S].
  - destruct H as (s' & -> & S). cbn [keeps] in K, K'.
    destruct (simst_loaded st C' L' R' s s' Hrel S K K') as (C1 & R1 & -> & Hr1).
    apply (sim_loaded_eq st (ch C' L' R' st) s (ch C1 L' R1 s)); [exact K|reflexivity|].
    apply after_false_sim. exact Hr1.
  - subst r'. left. reflexivity.
  - subst r'. left. reflexivity.
Qed.

Lemma m_command_sim : forall T st t C' L' R', rel C' L' R' st ->
  sim st (ch C' L' R' st) (m_command T st t) (m_command T (ch C' L' R' st) t).
Proof.
  intros T st t C' L' R' Hrel. pose proof Hrel as (Hs & Hn & Hc).
  pose proof (rel_same C' L' R' st Hrel) as Same.
  unfold m_command. change (p_cstate (ch C' L' R' st)) with (p_cstate st).
  destruct (p_cstate st) eqn:Ecs.
  - (* between commands *)
    destruct (t_kind t); try (left; eexists; split; [reflexivity|exact Same]).
    + (* } *)
      rewrite pop_bracket_ch. destruct (pop_bracket st BRCBracket) as [st1|e] eqn:Ep; [|left; reflexivity].
      destruct (pop_bracket_untouched st BRCBracket st1 Ep) as (H1 & H2 & H3 & H4 & H5).
      assert (Hr1 : rel C' L' R' st1) by (split; [rewrite H1; exact Hs|split; [rewrite H2; exact Hn|rewrite H4, Ecs; intro X; discriminate X]]).
      pose proof (up_sim st1 C' L' R' Hr1) as U.
      apply (sim_loaded_eq st (ch C' L' R' st) st1 (ch C' L' R' st1)); [exact H1|reflexivity|].
      destruct U as [U|(x & U & Hx)]; [|right; exists x; split; [rewrite U; reflexivity|exact Hx]].
      destruct (up st1) as [s2|s2|s2|e2|]; cbn in U.
      * destruct U as (s2' & -> & (C2 & L2 & R2 & -> & (Ha & Hb & Hd))). left. eexists. split; [reflexivity|].
        exists C2, L2, R2. split; [st_destruct s2; reflexivity|].
        split; [st_destruct s2; exact Ha|split; [st_destruct s2; exact Hb|st_destruct s2; cbn; discriminate]].
      * destruct U as (s2' & -> & S). left. eexists. split; [reflexivity|exact S].
      * destruct U as (s2' & -> & S). left. eexists. split; [reflexivity|exact S].
      * rewrite U. left. reflexivity.
      * rewrite U. left. reflexivity.
    + (* a command name *)
      change (p_loaded (ch C' L' R' st)) with L'. change (p_stack (ch C' L' R' st)) with (p_stack st).
      destruct (gci_less T (t_val t) (p_loaded st) L' Hs) as [E|(x & E & Hx)]; [|rewrite E; apply (gate_sim _ _ _ x); [reflexivity|exact Hx]].
      rewrite E. destruct (get_command_instance T (p_loaded st) (t_val t)) as [d|e]; [|left; reflexivity].
      destruct (d_type d) eqn:Ed; try (left; reflexivity);
        (destruct (p_stack st) as [|cur rest] eqn:Es;
         [ left; eexists; split; [reflexivity|]; exists C', L', R'; split;
           [st_destruct st; cbn; try (destruct (d_accept_children d && has_arguments d)); reflexivity
           |split; [st_destruct st; cbn; try (destruct (d_accept_children d && has_arguments d)); exact Hs
                   |split; [st_destruct st; cbn; try (destruct (d_accept_children d && has_arguments d)); exact Hn
                           |st_destruct st; cbn; try (destruct (d_accept_children d && has_arguments d)); cbn; discriminate]]]
         | destruct (d_accept_children (f_def cur)); [|left; reflexivity];
           left; eexists; split; [reflexivity|]; exists C', L', R'; split;
           [st_destruct st; cbn in *; rewrite ?Es; try (destruct (d_accept_children d && has_arguments d)); reflexivity
           |split; [st_destruct st; cbn; try (destruct (d_accept_children d && has_arguments d)); exact Hs
                   |split; [st_destruct st; cbn; try (destruct (d_accept_children d && has_arguments d)); exact Hn
                           |st_destruct st; cbn; try (destruct (d_accept_children d && has_arguments d)); cbn; discriminate]]] ]).
  - (* arguments *)
    apply args_then_false_sim; [exact Hrel|apply m_arguments_sim; exact Hrel|apply m_arguments_keeps|].
    apply (m_arguments_keeps T (ch C' L' R' st) t).
  - (* inside a string list *)
    apply args_then_false_sim; [exact Hrel|apply m_stringlist_sim; [exact Hrel|exact Ecs]|apply m_stringlist_keeps|].
    apply (m_stringlist_keeps (ch C' L' R' st) t).
Qed.

Theorem process_sim : forall T st t C' L' R', rel C' L' R' st ->
  sim st (ch C' L' R' st) (process T st t) (process T (ch C' L' R' st) t).
Proof.
  intros T st t C' L' R' Hrel. pose proof Hrel as (Hs & Hn & Hc). unfold process.
  destruct (t_kind t) eqn:Ek;
    try (change (p_expected (ch C' L' R' st)) with (p_expected st);
         destruct (p_expected st) as [l|] eqn:Ee;
         [ destruct (kind_mem _ l); [|left; reflexivity];
           assert (Ex : with_expected None (ch C' L' R' st) = ch C' L' R' (with_expected None st)) by (st_destruct st; reflexivity);
           rewrite Ex;
           apply (sim_loaded_eq st (ch C' L' R' st) (with_expected None st) (ch C' L' R' (with_expected None st)));
           [st_destruct st; reflexivity|reflexivity|];
           apply m_command_sim; split; [st_destruct st; exact Hs|split; [st_destruct st; exact Hn|st_destruct st; exact Hc]]
         | apply m_command_sim; exact Hrel ]).
  - left. eexists. split; [reflexivity|]. exists C', L', R'. split; [st_destruct st; reflexivity|].
    split; [st_destruct st; exact Hs|split; [st_destruct st; exact Hn|st_destruct st; exact Hc]].
  - left. eexists. split; [reflexivity|]. apply rel_same. exact Hrel.
Qed.

(* ---- whole runs over the same tokens (positions may differ: the reduced script is shorter) *)

Definition tok_eq (t t' : token) : Prop := t_kind t = t_kind t' /\ t_val t = t_val t'.

Lemma process_tok_eq : forall T st t t', tok_eq t t' -> process T st t = process T st t'.
Proof. intros T st [k v p] [k' v' p'] [E1 E2]. cbn in E1, E2. subst k' v'. reflexivity. Qed.

Theorem run_less : forall T fuel toks toks' endpos endpos' ll st C' L' R' res,
  Forall2 tok_eq toks toks' -> rel C' L' R' st ->
  run_tokens fuel T toks None endpos ll st = Accept res ->
  (exists res', run_tokens fuel T toks' None endpos' ll (ch C' L' R' st) = Accept res' /\ names res = names res') \/
  (exists x t' s s', In t' toks' /\
     run_tokens fuel T toks' None endpos' ll (ch C' L' R' st) = Reject (EExtNotLoaded x) (t_pos t') (length (t_val t')) /\
     simst s s' /\ lacks (p_loaded s) (p_loaded s') x).
Proof.
  intros T fuel. induction fuel as [|f IH]; intros toks toks' endpos endpos' ll st C' L' R' res Hf Hrel H; [discriminate|].
  destruct Hf as [|t t' ts ts' Ht Hts].
  - left. cbn [run_tokens] in *. unfold finish in *.
    change (p_brackets (ch C' L' R' st)) with (p_brackets st). change (p_expected (ch C' L' R' st)) with (p_expected st).
    change (p_stack (ch C' L' R' st)) with (p_stack st). change (p_result (ch C' L' R' st)) with R'.
    destruct (match p_brackets st with b :: _ => Some [closing_kind b] | [] => p_expected st end); [discriminate|].
    destruct (p_stack st); [|discriminate]. injection H as <-. exists R'. split; [reflexivity|exact (proj1 (proj2 Hrel))].
  - cbn [run_tokens] in *.
    rewrite <- (process_tok_eq T (ch C' L' R' st) t t' Ht).
    destruct Ht as [Hk Hv].
    destruct (process_sim T st t C' L' R' Hrel) as [P|(x & P & Hx)].
    + destruct (process T st t) as [s1|s1|s1|e|]; cbn in P; try discriminate.
      * destruct P as (s1' & -> & (C1 & L1 & R1 & -> & Hr1)). rewrite <- Hv.
        destruct (IH ts ts' endpos endpos' (length (t_val t)) s1 C1 L1 R1 res Hts Hr1 H) as [A|(y & u & sa & sb & Hin & A & B)];
          [left; exact A|right; exists y, u, sa, sb; split; [right; exact Hin|split; [exact A|exact B]]].
      * destruct P as (s1' & -> & (C1 & L1 & R1 & -> & Hr1)). rewrite <- Hv.
        assert (Hts' : Forall2 tok_eq (t :: ts) (t' :: ts')) by (constructor; [split; assumption|exact Hts]).
        destruct (IH (t :: ts) (t' :: ts') endpos endpos' (length (t_val t)) s1 C1 L1 R1 res Hts' Hr1 H) as [A|(y & u & sa & sb & Hin & A & B)];
          [left; exact A|right; exists y, u, sa, sb; split; [exact Hin|split; [exact A|exact B]]].
    + rewrite P. right. exists x, t', st, (ch C' L' R' st). split; [left; reflexivity|]. split; [reflexivity|].
      split; [apply rel_same; exact Hrel|exact Hx].
Qed.

Print Assumptions process_sim.
Print Assumptions run_less.

(* ---- two scripts: the full one and the one with fewer extensions required *)

Lemma run_tokens_more : forall T f f' toks err endpos ll st o,
  f <= f' -> run_tokens f T toks err endpos ll st = o -> o <> OutOfFuel ->
  run_tokens f' T toks err endpos ll st = o.
Proof.
  intros T f. induction f as [|f IH]; intros f' toks err endpos ll st o Hle H Ho; [cbn in H; congruence|].
  destruct f' as [|f']; [lia|]. cbn [run_tokens] in *.
  destruct toks as [|t ts]; [exact H|].
  destruct (process T st t) as [s1|s1|s1|e|]; try exact H.
  - apply (IH f' ts err endpos (length (t_val t)) s1 o ltac:(lia) H Ho).
  - apply (IH f' (t :: ts) err endpos (length (t_val t)) s1 o ltac:(lia) H Ho).
Qed.

(* a prefix that is processed without rewinds uses one unit of fuel per token *)
Lemma run_tokens_prefix : forall T pre rest st st1 f endpos ll,
  steps T st (map strip_pos pre) = Some st1 ->
  exists ll', run_tokens (length pre + f) T (pre ++ rest) None endpos ll st = run_tokens f T rest None endpos ll' st1.
Proof.
  intros T. induction pre as [|t pre IH]; intros rest st st1 f endpos ll H.
  - cbn in H. injection H as <-. exists ll. reflexivity.
  - cbn [map steps] in H. unfold strip_pos at 1, mk in H.
    rewrite (process_pos T st (t_kind t) (t_val t) 0 (t_pos t)) in H.
    assert (Ht : mkTok (t_kind t) (t_val t) (t_pos t) = t) by (destruct t; reflexivity). rewrite Ht in H.
    cbn [length plus app run_tokens]. destruct (process T st t) as [s1| | | |]; try discriminate.
    apply (IH rest s1 st1 f endpos (length (t_val t)) H).
Qed.

(* C07, removal direction.  [full] and [red] are two scripts that lex to [pre ++ rest] and [pre' ++ rest'], where
   the remainders are the same tokens (positions aside) and the prefixes -- the `require` commands -- are processed
   without error and leave the parser in related states (same stack, expectations and brackets; the reduced script
   has loaded a subset of the extensions).  If the full script is accepted, the reduced one is either accepted too
   (with the same commands) or rejected with "extension 'x' not loaded" at a token of the remainder, for an
   extension x that the full run has loaded at that point and the reduced run has not -- the first such point in
   script order, the two runs being in lockstep until then. *)
Theorem removal_dichotomy : forall T full red pre pre' rest rest' stA stB r,
  twf_tables T = true ->
  snd (lex full) = None -> snd (lex red) = None ->
  fst (lex full) = pre ++ rest -> fst (lex red) = pre' ++ rest' -> Forall2 tok_eq rest rest' ->
  steps T p_init (map strip_pos pre) = Some stA -> steps T p_init (map strip_pos pre') = Some stB ->
  simst stA stB ->
  parse T full = Accept r ->
  (exists r', parse T red = Accept r' /\ names r = names r') \/
  (exists x t' s s', In t' rest' /\ parse T red = Reject (EExtNotLoaded x) (t_pos t') (length (t_val t')) /\
                     simst s s' /\ lacks (p_loaded s) (p_loaded s') x).
Proof.
  intros T full red pre pre' rest rest' stA stB r HT El El' Et Et' Hrest HA HB (C' & L' & R' & -> & Hrel) Hacc.
  pose proof (parse_total T red HT) as Htot.
  rewrite parse_run_tokens in Hacc, Htot |- *. rewrite El, Et in Hacc. rewrite El', Et' in Htot |- *.
  pose proof (token_count full) as Hc. rewrite Et, app_length in Hc.
  pose proof (token_count red) as Hc'. rewrite Et', app_length in Hc'.
  set (F := 2 * length full + 2) in *. set (F' := 2 * length red + 2) in *.
  assert (EF : F = length pre + (F - length pre)) by (unfold F; lia).
  assert (EF' : F' = length pre' + (F' - length pre')) by (unfold F'; lia).
  rewrite EF in Hacc. rewrite EF' in Htot |- *.
  destruct (run_tokens_prefix T pre rest p_init stA (F - length pre) (length full) 0 HA) as (la & PA). rewrite PA in Hacc.
  destruct (run_tokens_prefix T pre' rest' p_init (ch C' L' R' stA) (F' - length pre') (length red) 0 HB) as (lb & PB).
  rewrite PB in Htot |- *.
  set (f := F - length pre) in *. set (f' := F' - length pre') in *.
  set (G := Nat.max f f').
  assert (HG : run_tokens G T rest None (length full) la stA = Accept r).
  { apply (run_tokens_more T f G _ _ _ _ _ _ (Nat.le_max_l f f') Hacc). discriminate. }
  (* the last-token length the two runs carry may differ: it only matters for what is reported at the end *)
  assert (Hll : forall ll1 ll2 toks fu e st0 res0, run_tokens fu T toks None e ll1 st0 = Accept res0 ->
                run_tokens fu T toks None e ll2 st0 = Accept res0).
  { intros ll1 ll2 toks fu. revert ll1 ll2 toks. induction fu as [|fu IHf]; intros ll1 ll2 toks e st0 res0 H; [discriminate|].
    cbn [run_tokens] in *. destruct toks as [|t ts].
    - unfold finish in *. destruct (match p_brackets st0 with b :: _ => Some [closing_kind b] | [] => p_expected st0 end); [discriminate|].
      destruct (p_stack st0); [exact H|discriminate].
    - destruct (process T st0 t); try discriminate; exact H. }
  pose proof (Hll la lb rest G (length full) stA r HG) as HG'.
  destruct (run_less T G rest rest' (length full) (length red) lb stA C' L' R' r Hrest Hrel HG') as [(r' & A & Hn)|(x & t' & s & s' & Hin & A & B)].
  - left. exists r'. split; [|exact Hn].
    destruct (run_tokens f' T rest' None (length red) lb (ch C' L' R' stA)) as [r0|e0 p0 l0|p0|] eqn:E0; try contradiction.
    + pose proof (run_tokens_more T f' G _ _ _ _ _ _ (Nat.le_max_r f f') E0 ltac:(discriminate)) as M. rewrite M in A. exact A.
    + pose proof (run_tokens_more T f' G _ _ _ _ _ _ (Nat.le_max_r f f') E0 ltac:(discriminate)) as M. rewrite M in A. discriminate.
  - right. exists x, t', s, s'. split; [exact Hin|]. split; [|exact B].
    destruct (run_tokens f' T rest' None (length red) lb (ch C' L' R' stA)) as [r0|e0 p0 l0|p0|] eqn:E0; try contradiction.
    + pose proof (run_tokens_more T f' G _ _ _ _ _ _ (Nat.le_max_r f f') E0 ltac:(discriminate)) as M. rewrite M in A. discriminate.
    + pose proof (run_tokens_more T f' G _ _ _ _ _ _ (Nat.le_max_r f f') E0 ltac:(discriminate)) as M. rewrite M in A. exact A.
Qed.

Print Assumptions removal_dichotomy.
