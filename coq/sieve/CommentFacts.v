(* CommentFacts.v — comments do not influence parsing (C01: "the verdict is insensitive to ... comments").

   The parser machine reads the pending hash comments and the comments stored in the result only to copy
   them.  [norm] forgets both; every transition commutes with [norm]; a comment token changes nothing else.
   Hence two texts whose token sequences agree once comments are removed (and positions ignored) get the
   same verdict, the same error category and the same tree up to the comments attached to top-level
   commands.  For ALL inputs and all tables satisfying the table condition. *)
From Coq Require Import List NArith Bool Arith Lia.
From SV Require Import lib.Bytes sieve.Lexer sieve.Tables sieve.ArgCheck sieve.ArgSpec sieve.Machine
  sieve.PositionFacts sieve.TotalFacts sieve.CompleteFacts.
Import ListNotations.
Local Close Scope N_scope.

Definition strip_top (n : node) : node := Node (node_def n) (node_args n) (node_extra n) (node_children n) [].

Definition norm (st : pstate) : pstate := with_hash [] (with_result (map strip_top (p_result st)) st).

Definition mmap (g : pstate -> pstate) (r : mres) : mres :=
  match r with
  | MTrue s => MTrue (g s) | MFalse s => MFalse (g s) | MRewind s => MRewind (g s)
  | MErr e => MErr e | MCrash => MCrash
  end.

Lemma strip_top_idem : forall n, strip_top (strip_top n) = strip_top n.
Proof. intros []; reflexivity. Qed.

Lemma norm_idem : forall st, norm (norm st) = norm st.
Proof.
  intros st. unfold norm. pcbn. rewrite map_map.
  rewrite (map_ext _ _ strip_top_idem). reflexivity.
Qed.

Lemma last_opt_map : forall (A B : Type) (f : A -> B) l, last_opt (map f l) = option_map f (last_opt l).
Proof.
  induction l as [|a l IH]; [reflexivity|]. cbn [map]. destruct l as [|b l']; [reflexivity|]. exact IH.
Qed.

(* a function of the machine commutes with forgetting the comments *)
Definition commutes (F : pstate -> mres) : Prop := forall st, F (norm st) = mmap norm (F st).

Lemma up_commutes : commutes up.
Proof.
  intros st. unfold up. change (p_stack (norm st)) with (p_stack st).
  destruct (p_stack st) as [|cur rest]; [reflexivity|].
  assert (Hprev : forall mf,
            match (match rest with [] => last_opt (p_result (norm st)) | parent :: _ => last_opt (f_children parent) end) with
            | None => false | Some n => mem (d_name (node_def n)) mf end =
            match (match rest with [] => last_opt (p_result st) | parent :: _ => last_opt (f_children parent) end) with
            | None => false | Some n => mem (d_name (node_def n)) mf end).
  { intro mf. destruct rest; [|reflexivity]. unfold norm. pcbn. rewrite last_opt_map.
    destruct (last_opt (p_result st)) as [n|]; [destruct n|]; reflexivity. }
  destruct (d_must_follow (f_def cur)) as [mf|].
  - rewrite Hprev.
    destruct (match (match rest with [] => last_opt (p_result st) | parent :: _ => last_opt (f_children parent) end) with
              | None => false | Some n => mem (d_name (node_def n)) mf end); cbn [negb]; [|reflexivity].
    destruct rest as [|parent rest'].
    + cbn [mmap]. unfold norm. pcbn. rewrite map_app. reflexivity.
    + change (p_expected (norm st)) with (p_expected st).
      destruct (up_loop (attach_into cur parent) rest' (p_expected st)) as [s' e']. reflexivity.
  - cbn [negb]. destruct rest as [|parent rest'].
    + cbn [mmap]. unfold norm. pcbn. rewrite map_app. reflexivity.
    + change (p_expected (norm st)) with (p_expected st).
      destruct (up_loop (attach_into cur parent) rest' (p_expected st)) as [s' e']. reflexivity.
Qed.

Lemma cc_loop_commutes : forall rest cur, commutes (cc_loop cur rest).
Proof.
  induction rest as [|parent rest' IH]; intros cur st; cbn [cc_loop]; [reflexivity|].
  change (p_loaded (norm st)) with (p_loaded st).
  destruct (is_control (attach_into cur parent) || is_test (attach_into cur parent)); [|apply IH].
  destruct (iscomplete (attach_into cur parent) None).
  - destruct (is_control (attach_into cur parent)); [reflexivity|apply IH].
  - destruct (check_next_arg (attach_into cur parent) TyTest placeholder false true (p_loaded st)) as [p2 o| | |]; try reflexivity.
    destruct (negb (iscomplete p2 None)); [|apply IH].
    destruct (d_variable_args_nb (f_def p2)); reflexivity.
Qed.

Lemma check_completion_commutes : forall ts, commutes (fun st => check_completion st ts).
Proof.
  intros ts st. unfold check_completion. change (p_stack (norm st)) with (p_stack st).
  destruct (p_stack st) as [|cur rest]; [reflexivity|].
  destruct (negb (iscomplete cur None)); [reflexivity|].
  destruct (is_action cur || is_control cur && negb (d_accept_children (f_def cur))).
  - destruct ts; reflexivity.
  - apply cc_loop_commutes.
Qed.

Lemma complete_cb_commutes : commutes complete_cb.
Proof.
  intros st. unfold complete_cb. change (p_stack (norm st)) with (p_stack st).
  destruct (p_stack st) as [|cur rest]; [reflexivity|].
  destruct (d_complete (f_def cur)); [reflexivity|].
  destruct (assoc_get capabilities_key (f_args cur)) as [[]|]; reflexivity.
Qed.

(* composing with state updates that do not touch the comments *)
Lemma commutes_pre : forall F (g : pstate -> pstate),
  commutes F -> (forall st, g (norm st) = norm (g st)) -> commutes (fun st => F (g st)).
Proof. intros F g HF Hg st. cbv beta. rewrite Hg. apply HF. Qed.

Lemma replace_top_norm : forall f st, replace_top f (norm st) = norm (replace_top f st).
Proof. intros f st. unfold replace_top. change (p_stack (norm st)) with (p_stack st). destruct (p_stack st); reflexivity. Qed.

Lemma pop_bracket_norm : forall st b,
  pop_bracket (norm st) b = match pop_bracket st b with inl s => inl (norm s) | inr e => inr e end.
Proof.
  intros st b. unfold pop_bracket. change (p_brackets (norm st)) with (p_brackets st).
  destruct (p_brackets st) as [|x t]; [reflexivity|]. destruct (bracket_eqb x b); reflexivity.
Qed.

Lemma m_stringlist_commutes : forall t, commutes (fun st => m_stringlist st t).
Proof.
  intros t st. unfold m_stringlist. change (p_stack (norm st)) with (p_stack st).
  destruct (p_stack st) as [|cur rest] eqn:Es; [reflexivity|].
  destruct (t_kind t); try reflexivity.
  - rewrite pop_bracket_norm. destruct (pop_bracket st BRBracket) as [st1|e]; [|reflexivity].
    change (p_curlist (norm st1)) with (p_curlist st1). change (p_loaded (norm st1)) with (p_loaded st1).
    unfold lift_cna.
    destruct (check_next_arg cur TyStringList (VList (p_curlist st1)) true true (p_loaded st1)) as [f o| | |]; try reflexivity.
    rewrite replace_top_norm.
    apply (check_completion_commutes true (with_cstate CArgs (replace_top f st1))).
  - destruct (negb (utf8_valid (t_val t))); reflexivity.
Qed.

Lemma m_argument_commutes : forall t, commutes (fun st => m_argument st t).
Proof.
  intros t st. unfold m_argument. change (p_stack (norm st)) with (p_stack st).
  change (p_loaded (norm st)) with (p_loaded st). change (p_brackets (norm st)) with (p_brackets st).
  destruct (p_stack st) as [|cur rest] eqn:Es; [reflexivity|].
  assert (L : forall r, lift_cna r (norm st) MTrue = mmap norm (lift_cna r st MTrue)).
  { intros [f o| | |]; cbn [lift_cna mmap]; try reflexivity. rewrite replace_top_norm. reflexivity. }
  destruct (t_kind t); try reflexivity; try apply L.
  - destruct (d_non_deterministic_args (f_def cur)); [|reflexivity].
    destruct (reassign_arguments cur) as [cur'|]; [|reflexivity]. rewrite replace_top_norm.
    destruct (negb (iscomplete cur' None)); reflexivity.
  - destruct (d_non_deterministic_args (f_def cur)); [|reflexivity].
    destruct (reassign_arguments cur) as [cur'|]; [|reflexivity]. rewrite replace_top_norm.
    destruct (negb (iscomplete cur' None)); reflexivity.
  - destruct (negb (utf8_valid (t_val t))); [reflexivity|apply L].
  - destruct (negb (utf8_valid (t_val t))); [reflexivity|apply L].
Qed.

Lemma m_arguments_commutes : forall T t, commutes (fun st => m_arguments T st t).
Proof.
  intros T t st. unfold m_arguments.
  assert (Harg : match m_argument (norm st) t with
                 | MTrue st1 => check_completion st1 false
                 | MRewind st1 => match check_completion st1 false with MTrue st2 => MRewind st2 | r => r end
                 | r => r
                 end =
                 mmap norm match m_argument st t with
                           | MTrue st1 => check_completion st1 false
                           | MRewind st1 => match check_completion st1 false with MTrue st2 => MRewind st2 | r => r end
                           | r => r
                           end).
  { rewrite (m_argument_commutes t st). destruct (m_argument st t) as [s|s|s|e|]; cbn [mmap]; try reflexivity.
    - apply (check_completion_commutes false s).
    - rewrite (check_completion_commutes false s). destruct (check_completion s false); reflexivity. }
  change (p_stack (norm st)) with (p_stack st). change (p_loaded (norm st)) with (p_loaded st).
  change (p_brackets (norm st)) with (p_brackets st).
  destruct (t_kind t); try exact Harg; try reflexivity.
  - (* ')' *)
    rewrite pop_bracket_norm. destruct (pop_bracket st BRParen) as [st1|e]; [apply up_commutes|reflexivity].
  - (* identifier *)
    destruct (p_stack st) as [|cur rest] eqn:Es; [reflexivity|].
    destruct (get_command_instance T (p_loaded st) (t_val t)) as [d|e]; [|reflexivity].
    destruct (d_type d); try reflexivity.
    destruct (check_next_arg cur TyTest placeholder true true (p_loaded st)) as [cur' slot| | |]; try reflexivity.
    rewrite replace_top_norm.
    match goal with |- check_completion ?s false = _ => 
      change s with (norm (with_stack (new_frame d (match slot with
                                 | Some ca => match a_type ca with
                                              | [TyTestList] => AtTestList (a_name ca)
                                              | _ => AtTest (a_name ca)
                                              end
                                 | None => AtTop
                                 end) :: p_stack (with_expected (d_expected_first d) (replace_top cur' st)))
                               (with_expected (d_expected_first d) (replace_top cur' st)))) end.
    apply (check_completion_commutes false).
Qed.

Lemma m_command_commutes : forall T t, commutes (fun st => m_command T st t).
Proof.
  intros T t st. unfold m_command. change (p_cstate (norm st)) with (p_cstate st).
  assert (Hafter : forall r0 r1, r0 = mmap norm r1 ->
            match r0 with
            | MFalse st1 =>
                match t_kind t with
                | TLeftCBracket =>
                    match p_stack st1 with
                    | [] => MCrash
                    | cur :: _ =>
                        if is_control cur && d_accept_children (f_def cur) && iscomplete cur None
                        then MTrue (with_cstate CNone (with_brackets (BRCBracket :: p_brackets st1) st1))
                        else MFalse st1
                    end
                | TSemicolon =>
                    match p_stack st1 with
                    | [] => MCrash
                    | cur :: _ =>
                        if is_test cur || d_accept_children (f_def cur) then MFalse st1
                        else if pending_param cur then MErr EMissingParam
                        else
                          match check_completion (with_cstate CNone st1) false with
                          | MTrue st2 => match complete_cb st2 with MTrue st3 => up st3 | r' => r' end
                          | MRewind st2 => MCrash
                          | r' => r'
                          end
                    end
                | _ => MFalse st1
                end
            | _ => r0
            end =
            mmap norm
            match r1 with
            | MFalse st1 =>
                match t_kind t with
                | TLeftCBracket =>
                    match p_stack st1 with
                    | [] => MCrash
                    | cur :: _ =>
                        if is_control cur && d_accept_children (f_def cur) && iscomplete cur None
                        then MTrue (with_cstate CNone (with_brackets (BRCBracket :: p_brackets st1) st1))
                        else MFalse st1
                    end
                | TSemicolon =>
                    match p_stack st1 with
                    | [] => MCrash
                    | cur :: _ =>
                        if is_test cur || d_accept_children (f_def cur) then MFalse st1
                        else if pending_param cur then MErr EMissingParam
                        else
                          match check_completion (with_cstate CNone st1) false with
                          | MTrue st2 => match complete_cb st2 with MTrue st3 => up st3 | r' => r' end
                          | MRewind st2 => MCrash
                          | r' => r'
                          end
                    end
                | _ => MFalse st1
                end
            | _ => r1
            end).
  { intros r0 r1 ->. destruct r1 as [s|s|s|e|]; cbn [mmap]; try reflexivity.
    change (p_stack (norm s)) with (p_stack s). change (p_brackets (norm s)) with (p_brackets s).
    destruct (t_kind t); try reflexivity.
    - destruct (p_stack s) as [|cur rest]; [reflexivity|].
      destruct (is_control cur && d_accept_children (f_def cur) && iscomplete cur None); reflexivity.
    - destruct (p_stack s) as [|cur rest]; [reflexivity|].
      destruct (is_test cur || d_accept_children (f_def cur)); [reflexivity|].
      destruct (pending_param cur); [reflexivity|].
      change (with_cstate CNone (norm s)) with (norm (with_cstate CNone s)).
      rewrite (check_completion_commutes false (with_cstate CNone s)).
      destruct (check_completion (with_cstate CNone s) false) as [s2|s2|s2|e|]; cbn [mmap]; try reflexivity.
      rewrite (complete_cb_commutes s2). destruct (complete_cb s2) as [s3|s3|s3|e|]; cbn [mmap]; try reflexivity.
      apply up_commutes. }
  destruct (p_cstate st).
  - (* between commands *)
    change (p_stack (norm st)) with (p_stack st). change (p_loaded (norm st)) with (p_loaded st).
    destruct (t_kind t); try reflexivity.
    + rewrite pop_bracket_norm. destruct (pop_bracket st BRCBracket) as [st1|e]; [|reflexivity].
      rewrite (up_commutes st1). destruct (up st1); reflexivity.
    + destruct (get_command_instance T (p_loaded st) (t_val t)) as [d|e]; [|reflexivity].
      destruct (d_type d); try reflexivity.
      * destruct (d_accept_children d && has_arguments d); destruct (p_stack st) as [|cur rest]; try reflexivity;
          destruct (d_accept_children (f_def cur)); reflexivity.
      * destruct (p_stack st) as [|cur rest]; [reflexivity|]. destruct (d_accept_children (f_def cur)); reflexivity.
  - apply Hafter. apply (m_arguments_commutes T t st).
  - apply Hafter. apply (m_stringlist_commutes t st).
Qed.

(* every transition on a token that is not a hash comment commutes with forgetting the comments *)
Lemma process_commutes : forall T t, t_kind t <> THashComment -> commutes (fun st => process T st t).
Proof.
  intros T t Hk st. unfold process. change (p_expected (norm st)) with (p_expected st).
  destruct (t_kind t) eqn:Ek; try congruence; try reflexivity;
    (destruct (p_expected st) as [l|];
     [destruct (kind_mem _ l); [|reflexivity]; apply (m_command_commutes T t (with_expected None st))
     |apply (m_command_commutes T t st)]).
Qed.

(* a hash comment changes nothing but the pending comments *)
Lemma process_hash : forall T st t, t_kind t = THashComment ->
  exists st', process T st t = MTrue st' /\ norm st' = norm st.
Proof. intros T st t Hk. unfold process. rewrite Hk. eexists. split; reflexivity. Qed.

(* ---------------------------------------------------------------- token sequences with and without comments *)

Definition is_comment (t : token) : bool :=
  match t_kind t with THashComment | TBracketComment => true | _ => false end.

Definition decomment (l : list token) : list token := filter (fun t => negb (is_comment t)) l.

(* same verdict, same error category, same tree up to the comments attached to top-level commands *)
Definition outcome_eqc (a b : outcome) : Prop :=
  match a, b with
  | Accept r, Accept r' => map strip_top r = map strip_top r'
  | Reject e _ _, Reject e' _ _ => e = e'
  | Crash _, Crash _ => True
  | OutOfFuel, OutOfFuel => True
  | _, _ => False
  end.

Lemma outcome_eqc_sym : forall a b, outcome_eqc a b -> outcome_eqc b a.
Proof. intros [] []; cbn; auto. Qed.

Lemma outcome_eqc_trans : forall a b c, outcome_eqc a b -> outcome_eqc b c -> outcome_eqc a c.
Proof. intros [] [] []; cbn; try tauto; congruence. Qed.

Lemma same_outcome_eqc : forall a b, same_outcome a b -> outcome_eqc a b.
Proof. intros [] []; cbn; auto. intros ->. reflexivity. Qed.

Lemma norm_fields : forall s1 s2, norm s1 = norm s2 ->
  p_stack s1 = p_stack s2 /\ p_expected s1 = p_expected s2 /\ p_brackets s1 = p_brackets s2 /\
  map strip_top (p_result s1) = map strip_top (p_result s2).
Proof.
  intros s1 s2 H.
  split; [exact (f_equal p_stack H)|]. split; [exact (f_equal p_expected H)|].
  split; [exact (f_equal p_brackets H)|exact (f_equal p_result H)].
Qed.

Lemma finish_norm : forall s1 s2 e1 e2 l1 l2, norm s1 = norm s2 -> outcome_eqc (finish s1 e1 l1) (finish s2 e2 l2).
Proof.
  intros s1 s2 e1 e2 l1 l2 H. destruct (norm_fields s1 s2 H) as (A & B & C & D).
  unfold finish. rewrite A, B, C.
  destruct (match p_brackets s2 with b :: _ => Some [closing_kind b] | [] => p_expected s2 end); [reflexivity|].
  destruct (p_stack s2); [exact D|reflexivity].
Qed.

Lemma process_comment : forall T st t, is_comment t = true ->
  exists st', process T st t = MTrue st' /\ norm st' = norm st.
Proof.
  intros T st t H. unfold is_comment in H. unfold process.
  destruct (t_kind t); try discriminate; eexists; split; reflexivity.
Qed.

Lemma process_related : forall T t s1 s2, is_comment t = false -> norm s1 = norm s2 ->
  mmap norm (process T s1 t) = mmap norm (process T s2 t).
Proof.
  intros T t s1 s2 Hc H.
  assert (Hk : t_kind t <> THashComment) by (unfold is_comment in Hc; destruct (t_kind t); congruence).
  rewrite <- (process_commutes T t Hk s1), <- (process_commutes T t Hk s2), H. reflexivity.
Qed.

Lemma run_tokens_decomment : forall T f1 f2 toks err e1 e2 l1 l2 s1 s2,
  norm s1 = norm s2 ->
  run_tokens f1 T toks err e1 l1 s1 <> OutOfFuel ->
  run_tokens f2 T (decomment toks) err e2 l2 s2 <> OutOfFuel ->
  outcome_eqc (run_tokens f1 T toks err e1 l1 s1) (run_tokens f2 T (decomment toks) err e2 l2 s2).
Proof.
  intros T. induction f1 as [|f1 IH]; intros f2 toks err e1 e2 l1 l2 s1 s2 Hn H1 H2; [cbn in H1; congruence|].
  destruct toks as [|t r].
  - cbn [decomment filter] in *. destruct f2 as [|f2]; [cbn in H2; congruence|].
    rewrite !run_tokens_S_nil. destruct err; [reflexivity|]. apply finish_norm. exact Hn.
  - rewrite run_tokens_S_cons in *. destruct (is_comment t) eqn:Ec.
    + destruct (process_comment T s1 t Ec) as (s1' & P & N). rewrite P in *.
      assert (Hd : decomment (t :: r) = decomment r) by (unfold decomment; cbn [filter]; rewrite Ec; reflexivity).
      rewrite Hd in *. apply IH; [congruence|exact H1|exact H2].
    + assert (Hd : decomment (t :: r) = t :: decomment r) by (unfold decomment; cbn [filter]; rewrite Ec; reflexivity).
      rewrite Hd in *. destruct f2 as [|f2]; [cbn in H2; congruence|]. rewrite run_tokens_S_cons in *.
      pose proof (process_related T t s1 s2 Ec Hn) as R.
      destruct (process T s1 t) as [a|a|a|ea|]; destruct (process T s2 t) as [b|b|b|eb|]; cbn [mmap] in R; try discriminate;
        try (cbn; auto; fail).
      * apply IH; [congruence|exact H1|exact H2].
      * rewrite <- Hd. apply IH; [congruence|exact H1|rewrite Hd; exact H2].
      * cbn. congruence.
Qed.

Lemma filter_len : forall (A : Type) (f : A -> bool) l, length (filter f l) <= length l.
Proof. induction l as [|a l IH]; [auto|]. cbn. destruct (f a); cbn; lia. Qed.

(* C01: comments (and white space, line endings, positions) do not influence the verdict, the error category
   or the tree -- except for the comments recorded on top-level commands *)
Theorem comment_insensitive : forall T text1 text2,
  twf_tables T = true ->
  map strip_pos (decomment (fst (lex text1))) = map strip_pos (decomment (fst (lex text2))) ->
  (snd (lex text1) = None <-> snd (lex text2) = None) ->
  outcome_eqc (parse T text1) (parse T text2).
Proof.
  intros T text1 text2 HT Hm He.
  pose proof (parse_total T text1 HT) as P1. pose proof (parse_total T text2 HT) as P2.
  rewrite !parse_run_tokens in *.
  set (F1 := 2 * length text1 + 2) in *. set (F2 := 2 * length text2 + 2) in *.
  assert (Hlen : forall text, length (decomment (fst (lex text))) <= length text).
  { intro text. pose proof (token_count text). pose proof (filter_len _ (fun t => negb (is_comment t)) (fst (lex text))).
    unfold decomment. lia. }
  assert (B1 : match run_tokens F1 T (decomment (fst (lex text1))) (snd (lex text1)) (length text1) 0 p_init with
               | Accept _ | Reject _ _ _ => True | _ => False end).
  { apply (run_tokens_total T _ _ _ _ _ p_init false HT Inv_init); [discriminate|].
    unfold measure, F1. pose proof (Hlen text1). lia. }
  assert (B2 : match run_tokens F2 T (decomment (fst (lex text2))) (snd (lex text2)) (length text2) 0 p_init with
               | Accept _ | Reject _ _ _ => True | _ => False end).
  { apply (run_tokens_total T _ _ _ _ _ p_init false HT Inv_init); [discriminate|].
    unfold measure, F2. pose proof (Hlen text2). lia. }
  eapply outcome_eqc_trans.
  { apply (run_tokens_decomment T F1 F1 (fst (lex text1)) (snd (lex text1)) (length text1) (length text1) 0 0 p_init p_init eq_refl); intro X; [rewrite X in P1|rewrite X in B1]; contradiction. }
  eapply outcome_eqc_trans.
  { apply same_outcome_eqc.
    apply (run_tokens_layout T F1 F2 (decomment (fst (lex text1))) (decomment (fst (lex text2))) (snd (lex text1)) (snd (lex text2)) (length text1) (length text2) 0 0 p_init Hm He);
      intro X; [rewrite X in B1|rewrite X in B2]; contradiction. }
  apply outcome_eqc_sym.
  apply (run_tokens_decomment T F2 F2 (fst (lex text2)) (snd (lex text2)) (length text2) (length text2) 0 0 p_init p_init eq_refl); intro X; [rewrite X in P2|rewrite X in B2]; contradiction.
Qed.

Print Assumptions comment_insensitive.
