(* PrintTree.v — the print/parse round trip on trees (C04).

   Part 1: a layout of the tokens of a script (the one Command.tosieve uses: one command per line, four
   spaces per nesting level, ", " inside lists) is lexed back as exactly the tokens of the script; with
   [CompleteTree.parse_script], its text parses to exactly the tree of the script.
   Part 2: the model of Command.tosieve (Printer.v) produces that layout for the trees of scripts whose
   arguments are written in definition order. *)
From Coq Require Import List NArith Bool Arith Lia.
From SV Require Import lib.Bytes sieve.Lexer sieve.Tables sieve.ArgCheck sieve.ArgSpec sieve.Machine sieve.Printer
  sieve.ArgCheckFacts sieve.PositionFacts sieve.TotalFacts sieve.LexerFacts sieve.CompleteFacts sieve.CompleteTree
  sieve.RenderFacts.
Import ListNotations.

Definition sp (n : nat) : bytes := spaces n.

Lemma sp_space : forall n, all_space (sp n).
Proof. induction n as [|n IH]; [reflexivity|]. unfold all_space, sp, spaces in *. cbn. exact IH. Qed.

(* ---------------------------------------------------------------- layout *)

(* [sw]: the white space written after the commas of a string list ([32] by Command.tosieve for a Python list,
   nothing by the filter factory's __quote_list) *)
Fixpoint lt_items (sw w : bytes) (items : list bytes) : list ltok :=
  match items with
  | [] => []
  | v :: r => (w, TString, v) :: match r with [] => [] | _ => ([], TComma, [44%N]) :: lt_items sw sw r end
  end.

Definition lt_arg (sw w : bytes) (a : argument) : list ltok :=
  match a with
  | (TyStringList, VList items) => (w, TLeftBracket, [91%N]) :: lt_items sw [] items ++ [([], TRightBracket, [93%N])]
  | (TyString, VStr s) => [(w, str_kind s, s)]
  | (TyNumber, VStr s) => [(w, TNumber, s)]
  | (TyTag, VStr s) => [(w, TTag, s)]
  | _ => []
  end.

(* a multi-line string is followed by a line feed (Command.tosieve writes it after the value): it becomes part of
   the white space before the next token *)
Definition is_ml (a : argument) : bool :=
  match a with
  | (TyString, VStr s) => match str_kind s with TMultiline => true | _ => false end
  | _ => false
  end.

Definition carry_of (a : argument) : bytes := if is_ml a then [10%N] else [].

Fixpoint lt_args_c (sw cin : bytes) (args : list argument) : list ltok :=
  match args with
  | [] => []
  | a :: r => lt_arg sw (cin ++ [32%N]) a ++ lt_args_c sw (carry_of a) r
  end.

Fixpoint args_carry (cin : bytes) (args : list argument) : bytes :=
  match args with [] => cin | a :: r => args_carry (carry_of a) r end.

Definition lt_args (sw : bytes) (args : list argument) : list ltok := lt_args_c sw [] args.

Section Sep.
(* the separator used inside the string lists of a command, by command name *)
Variable sepw : bytes -> bytes.
Hypothesis sepw_space : forall name, all_space (sepw name).

(* the line feed a test leaves pending *)
Fixpoint tcarry (t : gtest) : bytes :=
  match t with
  | GSimple _ args => args_carry [] args
  | GNot _ t' => tcarry t'
  | GList _ _ => []
  end.

Fixpoint lt_test (ind : nat) (w : bytes) (t : gtest) : list ltok :=
  match t with
  | GSimple name args => (w, TIdentifier, name) :: lt_args (sepw name) args
  | GNot name t' => (w, TIdentifier, name) :: lt_test ind (32%N :: sp ind) t'
  | GList name ts =>
      (w, TIdentifier, name) :: ([32%N], TLeftParen, [40%N]) ::
      (fix go (w1 : bytes) (l : list gtest) : list ltok :=
         match l with
         | [] => []
         | [x] => lt_test 0 w1 x
         | x :: r => lt_test 0 w1 x ++ (tcarry x, TComma, [44%N]) :: go [32%N] r
         end) [] ts ++ [(tcarry (last ts (GList [] [])), TRightParen, [41%N])]
  end.

Fixpoint lt_tests (w1 : bytes) (l : list gtest) : list ltok :=
  match l with
  | [] => []
  | [x] => lt_test 0 w1 x
  | x :: r => lt_test 0 w1 x ++ (tcarry x, TComma, [44%N]) :: lt_tests [32%N] r
  end.

Lemma lt_test_list : forall ind w name ts,
  lt_test ind w (GList name ts) =
  (w, TIdentifier, name) :: ([32%N], TLeftParen, [40%N]) :: lt_tests [] ts ++ [(tcarry (last ts (GList [] [])), TRightParen, [41%N])].
Proof. reflexivity. Qed.

Fixpoint lt_cmd (ind : nat) (w : bytes) (c : gcmd) : list ltok :=
  match c with
  | GAct name args => (w ++ sp ind, TIdentifier, name) :: lt_args (sepw name) args ++ [(args_carry [] args, TSemicolon, [59%N])]
  | GCtl name t body =>
      (w ++ sp ind, TIdentifier, name) :: lt_test ind (32%N :: sp ind) t ++ (tcarry t ++ [32%N], TLeftCBracket, [123%N]) ::
      flat_map (lt_cmd (ind + 4) [10%N]) body ++ [(10%N :: sp ind, TRightCBracket, [125%N])]
  | GElse name body =>
      (w ++ sp ind, TIdentifier, name) :: ([32%N], TLeftCBracket, [123%N]) ::
      flat_map (lt_cmd (ind + 4) [10%N]) body ++ [(10%N :: sp ind, TRightCBracket, [125%N])]
  end.

(* a sequence of commands: the first one directly after [w], the others on new lines *)
Definition lt_cmds (ind : nat) (w : bytes) (cs : list gcmd) : list ltok :=
  match cs with
  | [] => []
  | c :: r => lt_cmd ind w c ++ flat_map (lt_cmd ind [10%N]) r
  end.

(* ---------------------------------------------------------------- its tokens are the tokens of the script *)

Lemma ltoks_items : forall sw items w, ltoks (lt_items sw w items) = item_toks items.
Proof.
  intro sw. induction items as [|v r IH]; intro w; [reflexivity|].
  cbn [lt_items item_toks]. destruct r as [|v2 r2]; [reflexivity|].
  cbn [ltoks map fst snd]. f_equal. f_equal. apply (IH sw).
Qed.

Lemma ltoks_arg : forall sw w a, ltoks (lt_arg sw w a) = arg_toks a.
Proof.
  intros sw w [[] [s0|items|n0|ns0]]; try reflexivity.
  cbn [lt_arg arg_toks]. cbn [ltoks map fst snd]. f_equal.
  change (map (fun x : ltok => mk (snd (fst x)) (snd x)) (lt_items sw [] items ++ [([], TRightBracket, [93%N])]))
    with (ltoks (lt_items sw [] items ++ [([], TRightBracket, [93%N])])).
  rewrite ltoks_app, ltoks_items. reflexivity.
Qed.

Lemma ltoks_args_c : forall sw args cin, ltoks (lt_args_c sw cin args) = flat_map arg_toks args.
Proof.
  intro sw. induction args as [|a r IH]; intro cin; [reflexivity|].
  cbn [lt_args_c flat_map]. rewrite ltoks_app, ltoks_arg, IH. reflexivity.
Qed.

Lemma ltoks_args : forall sw args, ltoks (lt_args sw args) = flat_map arg_toks args.
Proof. intros sw args. apply ltoks_args_c. Qed.

Lemma ltoks_cons : forall w k v l, ltoks ((w, k, v) :: l) = mk k v :: ltoks l.
Proof. reflexivity. Qed.

Lemma ltoks_test : forall t ind w, ltoks (lt_test ind w t) = toks_test t.
Proof.
  fix IH 1. intros t ind w. destruct t as [name args|name t'|name ts].
  - cbn [lt_test toks_test]. change (ltoks ((w, TIdentifier, name) :: lt_args (sepw name) args)) with (mk TIdentifier name :: ltoks (lt_args (sepw name) args)).
    rewrite ltoks_args. reflexivity.
  - cbn [lt_test toks_test].
    change (ltoks ((w, TIdentifier, name) :: lt_test ind (32%N :: sp ind) t'))
      with (mk TIdentifier name :: ltoks (lt_test ind (32%N :: sp ind) t')).
    rewrite IH. reflexivity.
  - rewrite lt_test_list, toks_test_list.
    rewrite !ltoks_cons.
    rewrite ltoks_app. f_equal. f_equal. f_equal.
    generalize (@nil N). induction ts as [|x r IHr]; intro w1; [reflexivity|].
    cbn [lt_tests toks_tests]. destruct r as [|y r']; [apply IH|].
    rewrite ltoks_app, IH. f_equal.
    rewrite ltoks_cons. f_equal. apply IHr.
Qed.

Lemma ltoks_cmd : forall c ind w, ltoks (lt_cmd ind w c) = toks_cmd c.
Proof.
  fix IH 1. intros c ind w.
  assert (Hbody : forall body i, ltoks (flat_map (lt_cmd i [10%N]) body) = flat_map toks_cmd body).
  { induction body as [|x r IHr]; intro i; [reflexivity|]. cbn [flat_map]. rewrite ltoks_app, IH, IHr. reflexivity. }
  destruct c as [name args|name t body|name body]; cbn [lt_cmd toks_cmd].
  - rewrite ltoks_cons, ltoks_app, ltoks_args. reflexivity.
  - rewrite ltoks_cons, ltoks_app, ltoks_test, ltoks_cons, ltoks_app, Hbody. reflexivity.
  - rewrite !ltoks_cons, ltoks_app, Hbody. reflexivity.
Qed.

Lemma ltoks_cmds : forall cs ind w, ltoks (lt_cmds ind w cs) = flat_map toks_cmd cs.
Proof.
  intros [|c r] ind w; [reflexivity|]. unfold lt_cmds. cbn [flat_map]. rewrite ltoks_app, ltoks_cmd. f_equal.
  induction r as [|x r IHr]; [reflexivity|]. cbn [flat_map]. rewrite ltoks_app, ltoks_cmd, IHr. reflexivity.
Qed.

(* ---------------------------------------------------------------- printable scripts *)

Definition arg_pr (a : argument) : Prop :=
  match a with
  | (TyStringList, VList items) => items <> [] /\ Forall exact_string items
  | (TyString, VStr s) => exact_string s \/ (str_kind s = TMultiline /\ ml_ok s)
  | (TyNumber, VStr s) => num_ok s
  | (TyTag, VStr s) => tag_ok s = true
  | _ => False
  end.

Inductive test_pr : gtest -> Prop :=
| pr_simple : forall name args, ident_ok name = true -> Forall arg_pr args -> test_pr (GSimple name args)
| pr_not : forall name t, ident_ok name = true -> test_pr t -> test_pr (GNot name t)
| pr_list : forall name ts, ident_ok name = true -> ts <> [] -> Forall test_pr ts -> test_pr (GList name ts).

Inductive cmd_pr : gcmd -> Prop :=
| pr_act : forall name args, ident_ok name = true -> Forall arg_pr args -> cmd_pr (GAct name args)
| pr_ctl : forall name t body, ident_ok name = true -> test_pr t -> Forall cmd_pr body -> cmd_pr (GCtl name t body)
| pr_else : forall name body, ident_ok name = true -> Forall cmd_pr body -> cmd_pr (GElse name body).

(* ---------------------------------------------------------------- the layout is a well-formed rendering *)

Lemma space_nil : all_space []. Proof. reflexivity. Qed.
Lemma space_32 : all_space [32%N]. Proof. reflexivity. Qed.
Lemma space_10 : all_space [10%N]. Proof. reflexivity. Qed.
Lemma space_app : forall a b, all_space a -> all_space b -> all_space (a ++ b).
Proof. intros a b Ha Hb. unfold all_space in *. rewrite forallb_app, Ha, Hb. reflexivity. Qed.
Lemma space_cons32 : forall a, all_space a -> all_space (32%N :: a).
Proof. intros a H. exact (space_app [32%N] a space_32 H). Qed.
Lemma space_cons10 : forall a, all_space a -> all_space (10%N :: a).
Proof. intros a H. exact (space_app [10%N] a space_10 H). Qed.

Lemma delim_space_head : forall c w X, is_space c = true -> tail_delim ((c :: w) ++ X).
Proof. intros c w X H. cbn. unfold delim. rewrite H. reflexivity. Qed.

Lemma lchain_punct : forall w k c X, all_space w -> punct_of k = Some c -> lchain [(w, k, [c])] X.
Proof.
  intros w k c X Hw Hp. cbn [lchain]. split; [exact Hw|].
  split; [destruct k; inversion Hp; subst; eexists; split; reflexivity|].
  split; [destruct k; inversion Hp; exact I|exact I].
Qed.

Lemma lchain_items : forall sw items w X,
  all_space sw -> all_space w -> Forall exact_string items -> lchain (lt_items sw w items) X.
Proof.
  intros sw items w X Hsw. revert w X. induction items as [|v r IH]; intros w X Hw Hall; [exact I|].
  inversion Hall as [|v' r' Hv Hr]; subst. cbn [lt_items lchain].
  split; [exact Hw|]. split; [exact Hv|]. split; [exact I|].
  destruct r as [|v2 r2]; [exact I|]. cbn [lchain].
  split; [exact space_nil|]. split; [exists 44%N; auto|]. split; [exact I|]. apply IH; [exact Hsw|exact Hr].
Qed.

Lemma lt_arg_head : forall sw a w, arg_pr a -> exists k v r, lt_arg sw w a = (w, k, v) :: r.
Proof.
  intros sw [[] [s0|items|n0|ns0]] w H; cbn in H; try contradiction; cbn [lt_arg]; eauto.
Qed.

Lemma exact_str_kind : forall s, exact_string s -> str_kind s = TString.
Proof. intros s H. destruct (exact_string_shape s H) as (body & -> & _). reflexivity. Qed.

Lemma is_ml_exact : forall s, exact_string s -> is_ml (TyString, VStr s) = false.
Proof. intros s H. unfold is_ml. rewrite (exact_str_kind s H). reflexivity. Qed.

(* what must follow an argument: after a multi-line string a line feed (or nothing), otherwise a delimiter *)
Definition after_arg (a : argument) (X : bytes) : Prop :=
  if is_ml a then X = [] \/ exists t, X = 10%N :: t else tail_delim X.

Lemma lchain_arg : forall sw a w X,
  all_space sw -> all_space w -> arg_pr a -> after_arg a X -> lchain (lt_arg sw w a) X.
Proof.
  intros sw [[] [s0|items|n0|ns0]] w X Hsw Hw H HX; cbn in H; try contradiction; unfold after_arg in HX; cbn [lt_arg lchain lrender app].
  - (* tag *) cbn [is_ml] in HX. split; [exact Hw|]. split; [exact H|]. split; [exact HX|exact I].
  - (* string *)
    destruct H as [H|(Hk & Hm)].
    + rewrite (exact_str_kind s0 H). split; [exact Hw|]. split; [exact H|]. split; exact I.
    + unfold is_ml in HX. rewrite Hk in *. split; [exact Hw|]. split; [exact Hm|]. split; [exact HX|exact I].
  - (* list *)
    destruct H as (Hne & Hall).
    split; [exact Hw|]. split; [exists 91%N; auto|]. split; [exact I|].
    apply lchain_app; [apply lchain_items; [exact Hsw|exact space_nil|exact Hall]|].
    apply (lchain_punct [] TRightBracket 93%N); [exact space_nil|reflexivity].
  - (* number *) cbn [is_ml] in HX. split; [exact Hw|]. split; [exact H|]. split; [exact HX|exact I].
Qed.

Lemma carry_space : forall a, all_space (carry_of a).
Proof. intro a. unfold carry_of. destruct (is_ml a); reflexivity. Qed.

(* the text of the remaining arguments starts with the pending line feed, then a blank (or what follows) *)
Lemma rest_shape : forall sw r c Y, Forall arg_pr r ->
  exists Z, lrender (lt_args_c sw c r) ++ args_carry c r ++ Y = c ++ Z /\
            (r = [] -> Z = Y) /\ (r <> [] -> exists Z', Z = 32%N :: Z').
Proof.
  intros sw [|a r] c Y H.
  - exists Y. cbn. split; [reflexivity|]. split; [reflexivity|congruence].
  - inversion H as [|a' r' Ha Hr]; subst. cbn [lt_args_c args_carry].
    destruct (lt_arg_head sw a (c ++ [32%N]) Ha) as (k & v & r0 & ->). cbn [app lrender].
    eexists. split; [rewrite <- !app_assoc; cbn [app]; reflexivity|]. split; [discriminate|]. intros _. eexists. reflexivity.
Qed.

Lemma after_arg_from_shape : forall a X Z,
  X = carry_of a ++ Z -> tail_delim X -> after_arg a X.
Proof.
  intros a X Z -> H. unfold after_arg, carry_of in *. destruct (is_ml a); [right; eexists; reflexivity|exact H].
Qed.

Lemma lchain_args_c : forall sw args cin Y,
  all_space sw ->
  Forall arg_pr args -> all_space cin -> tail_delim (args_carry cin args ++ Y) ->
  lchain (lt_args_c sw cin args) (args_carry cin args ++ Y).
Proof.
  intros sw args cin Y Hsw. revert cin Y. induction args as [|a r IH]; intros cin Y Hall Hc HY; [exact I|].
  inversion Hall as [|a' r' Ha Hr]; subst. cbn [lt_args_c args_carry] in *.
  apply lchain_app; [|apply IH; [exact Hr|apply carry_space|exact HY]].
  apply lchain_arg; [exact Hsw|apply space_app; [exact Hc|exact space_32]|exact Ha|].
  destruct (rest_shape sw r (carry_of a) Y Hr) as (Z & E & Z0 & Z1). rewrite E.
  apply (after_arg_from_shape a _ Z eq_refl).
  destruct r as [|a2 r2].
  - rewrite (Z0 eq_refl). cbn [args_carry] in HY. exact HY.
  - destruct (Z1 ltac:(discriminate)) as (Z' & ->). unfold carry_of. destruct (is_ml a); reflexivity.
Qed.

(* what follows a command or test name *)
Lemma args_after_name : forall sw args Y, Forall arg_pr args -> tail_delim (args_carry [] args ++ Y) ->
  tail_delim (lrender (lt_args sw args) ++ args_carry [] args ++ Y).
Proof.
  intros sw args Y Hall HY. unfold lt_args. destruct (rest_shape sw args [] Y Hall) as (Z & E & Z0 & Z1). rewrite E. cbn [app].
  destruct args as [|a r]; [rewrite (Z0 eq_refl); exact HY|].
  destruct (Z1 ltac:(discriminate)) as (Z' & ->). reflexivity.
Qed.

Lemma lchain_args : forall sw args Y, all_space sw -> Forall arg_pr args -> tail_delim (args_carry [] args ++ Y) ->
  lchain (lt_args sw args) (args_carry [] args ++ Y).
Proof. intros sw args Y Hsw H HY. apply lchain_args_c; [exact Hsw|exact H|exact space_nil|exact HY]. Qed.

Lemma lt_test_head : forall t ind w, exists name r, lt_test ind w t = (w, TIdentifier, name) :: r.
Proof. intros [name args|name t'|name ts] ind w; cbn [lt_test]; eauto. Qed.

Lemma tcarry_space : forall t, all_space (tcarry t).
Proof.
  fix IH 1. intros [name args|name t'|name ts]; cbn [tcarry]; [|apply IH|reflexivity].
  assert (G : forall l c, all_space c -> all_space (args_carry c l)).
  { induction l as [|a l IHl]; intros c Hc; [exact Hc|]. cbn [args_carry]. apply IHl. apply carry_space. }
  apply G. exact space_nil.
Qed.

Lemma carry_delim : forall c Y, all_space c -> (c = [] -> tail_delim Y) -> tail_delim (c ++ Y).
Proof.
  intros [|x c] Y Hc HY; [apply HY; reflexivity|]. cbn. unfold all_space in Hc. cbn in Hc. apply andb_true_iff in Hc as [Hx _].
  unfold delim. rewrite Hx. reflexivity.
Qed.

(* a test, followed by its pending line feed and then by something that starts with a delimiter *)
Lemma lchain_test : forall t ind w Y,
  test_pr t -> all_space w -> tail_delim (tcarry t ++ Y) -> lchain (lt_test ind w t) (tcarry t ++ Y).
Proof.
  fix IH 1. intros t ind w Y Hp Hw HY. destruct t as [name args|name t'|name ts].
  - inversion Hp as [n a Hn Ha| |]; subst. cbn [lt_test lchain tcarry] in *.
    split; [exact Hw|]. split; [exact Hn|]. split; [apply args_after_name; assumption|]. apply lchain_args; [apply sepw_space|assumption|assumption].
  - inversion Hp as [|n t0 Hn Ht|]; subst. cbn [lt_test lchain tcarry] in *.
    split; [exact Hw|]. split; [exact Hn|].
    split.
    { destruct (lt_test_head t' ind (32%N :: sp ind)) as (nm & r & ->). cbn [lrender app]. apply delim_space_head. reflexivity. }
    apply IH; [exact Ht|apply space_cons32; apply sp_space|exact HY].
  - inversion Hp as [| |n l Hn Hne Hall]; subst. rewrite lt_test_list. cbn [lchain lrender app tcarry] in *.
    split; [exact Hw|]. split; [exact Hn|]. split; [reflexivity|].
    split; [exact space_32|]. split; [exists 40%N; auto|]. split; [exact I|].
    apply lchain_app; [|apply (lchain_punct _ TRightParen 41%N); [apply tcarry_space|reflexivity]].
    cbn [lrender app].
    assert (G : forall l w1 Z, Forall test_pr l -> l <> [] -> all_space w1 ->
                lchain (lt_tests w1 l) (tcarry (last l (GList [] [])) ++ 41%N :: Z)).
    { induction l as [|x r IHr]; intros w1 Z Hl Hne0 Hw1; [congruence|].
      inversion Hl as [|x' r' Hx Hr]; subst. cbn [lt_tests]. destruct r as [|y r2].
      - cbn [last]. apply IH; [exact Hx|exact Hw1|]. apply carry_delim; [apply tcarry_space|reflexivity].
      - apply lchain_app.
        + cbn [lrender app]. rewrite <- app_assoc.
          apply IH; [exact Hx|exact Hw1|]. apply carry_delim; [apply tcarry_space|reflexivity].
        + cbn [lchain]. split; [apply tcarry_space|]. split; [exists 44%N; auto|]. split; [exact I|].
          change (last (x :: y :: r2) (GList [] [])) with (last (y :: r2) (GList [] [])).
          apply IHr; [exact Hr|discriminate|exact space_32]. }
    rewrite <- app_assoc. apply G; [exact Hall|exact Hne|exact space_nil].
Qed.

Lemma lchain_cmd : forall c ind w X, cmd_pr c -> all_space w -> lchain (lt_cmd ind w c) X.
Proof.
  fix IH 1. intros c ind w X Hp Hw.
  assert (Hbody : forall body i Y, Forall cmd_pr body -> lchain (flat_map (lt_cmd i [10%N]) body) Y).
  { induction body as [|x r IHr]; intros i Y Hb; [exact I|]. inversion Hb as [|x' r' Hx Hr]; subst.
    cbn [flat_map]. apply lchain_app; [apply IH; [exact Hx|exact space_10]|apply IHr; exact Hr]. }
  assert (Hclose : forall i Y, lchain [(10%N :: sp i, TRightCBracket, [125%N])] Y).
  { intros i Y. apply (lchain_punct _ TRightCBracket 125%N); [apply space_cons10; apply sp_space|reflexivity]. }
  assert (Hacs : forall l c0, all_space c0 -> all_space (args_carry c0 l)).
  { induction l as [|a l IHl]; intros c0 Hc0; [exact Hc0|]. cbn [args_carry]. apply IHl. apply carry_space. }
  destruct c as [name args|name t body|name body]; cbn [lt_cmd lchain].
  - inversion Hp as [n a Hn Ha| |]; subst.
    split; [apply space_app; [exact Hw|apply sp_space]|]. split; [exact Hn|].
    assert (Hd : tail_delim (args_carry [] args ++ 59%N :: X)).
    { apply carry_delim; [apply Hacs; exact space_nil|reflexivity]. }
    split.
    { rewrite lrender_app. cbn [lrender app]. rewrite <- !app_assoc. cbn [app].
      apply (args_after_name (sepw name) args (59%N :: X) Ha Hd). }
    apply lchain_app; [|apply (lchain_punct _ TSemicolon 59%N); [apply Hacs; exact space_nil|reflexivity]].
    cbn [lrender app]. rewrite <- app_assoc. cbn [app].
    apply (lchain_args (sepw name) args (59%N :: X) (sepw_space name) Ha Hd).
  - inversion Hp as [|n t0 b Hn Ht Hb|]; subst.
    split; [apply space_app; [exact Hw|apply sp_space]|]. split; [exact Hn|].
    split.
    { destruct (lt_test_head t ind (32%N :: sp ind)) as (nm & r & ->). cbn [lrender app]. apply delim_space_head. reflexivity. }
    apply lchain_app.
    + cbn [lrender app]. rewrite <- !app_assoc. cbn [app].
      apply lchain_test; [exact Ht|apply space_cons32; apply sp_space|].
      apply carry_delim; [apply tcarry_space|reflexivity].
    + cbn [lchain]. split; [apply space_app; [apply tcarry_space|exact space_32]|]. split; [exists 123%N; auto|]. split; [exact I|].
      apply lchain_app; [apply Hbody; exact Hb|apply Hclose].
  - inversion Hp as [| |n b Hn Hb]; subst.
    split; [apply space_app; [exact Hw|apply sp_space]|]. split; [exact Hn|].
    split; [reflexivity|].
    split; [exact space_32|]. split; [exists 123%N; auto|]. split; [exact I|].
    apply lchain_app; [apply Hbody; exact Hb|apply Hclose].
Qed.

Lemma lchain_cmds : forall cs ind w X, Forall cmd_pr cs -> all_space w -> lchain (lt_cmds ind w cs) X.
Proof.
  intros [|c r] ind w X Hall Hw; [exact I|]. inversion Hall as [|c' r' Hc Hr]; subst. unfold lt_cmds.
  apply lchain_app; [apply lchain_cmd; assumption|].
  clear Hc Hall. induction r as [|x r IHr]; [exact I|]. inversion Hr as [|x' r'' Hx Hr']; subst.
  cbn [flat_map]. apply lchain_app; [apply lchain_cmd; [exact Hx|exact space_10]|].
  apply IHr. exact Hr'.
Qed.

(* the text of a script: its layout, then a final line feed *)
Definition script_text (cs : list gcmd) : bytes := lrender (lt_cmds 0 [] cs) ++ [10%N].

(* the layout is lexed back as the tokens of the script *)
Theorem layout_lexes : forall cs,
  Forall cmd_pr cs ->
  snd (lex (script_text cs)) = None /\ map strip_pos (fst (lex (script_text cs))) = flat_map toks_cmd cs.
Proof.
  intros cs Hp. unfold script_text.
  destruct (lex_lrender (lt_cmds 0 [] cs) [10%N] (lchain_cmds cs 0 [] [10%N] Hp space_nil) space_10) as (A & B).
  rewrite ltoks_cmds in B. auto.
Qed.

(* C04 on the layout: the text of a well-formed script parses to exactly its tree *)
Theorem layout_parses : forall T cs ns L',
  twf_tables T = true -> wf_cmds T [] None cs ns L' -> Forall cmd_pr cs ->
  parse T (script_text cs) = Accept ns.
Proof.
  intros T cs ns L' HT Hwf Hp. destruct (layout_lexes cs Hp) as (A & B).
  exact (parse_script T (script_text cs) cs ns L' HT A B Hwf).
Qed.

Print Assumptions layout_parses.

(* ====================================================================================== *)
(* Part 2: the model of Command.tosieve produces that layout                               *)
(* ====================================================================================== *)

(* the local functions of Printer.tosieve, as functions of the recursive calls *)
Fixpoint p_tests (pt : node -> bytes) (l : list node) : bytes :=
  match l with
  | [] => []
  | [t] => pt t
  | t :: r => pt t ++ [44%N; 32%N] ++ p_tests pt r
  end.

Definition p_value (d : cmddef) (pt0 pti : node -> bytes) (is_string : bool) (name : bytes) (v : aval) : bytes :=
  match v with
  | VTests l =>
      match find_def (d_args d) name with
      | Some a => match a_type a with
                  | [TyTestList] => [40%N] ++ p_tests pt0 l ++ [41%N]
                  | _ => print_items []
                  end
      | None => print_items []
      end
  | VList vs =>
      match find_def (d_args d) name with
      | Some a => match a_type a with
                  | [TyTestList] => [40%N; 41%N]
                  | _ => print_items vs
                  end
      | None => print_items vs
      end
  | VTest t => pti t
  | VStr s => print_scalar is_string s
  end.

Fixpoint p_args (d : cmddef) (pt0 pti : node -> bytes) (n : node) (defs : list argdef) : bytes :=
  match defs with
  | [] => []
  | a :: rest =>
      match assoc_get (a_name a) (node_args n) with
      | None => p_args d pt0 pti n rest
      | Some v =>
          [32%N] ++
          (if atype_mem TyTag (a_type a) then
             (match v with VStr s => s | _ => [] end) ++
             (match assoc_get (a_name a) (node_extra n), a_extra a with
              | Some ev, Some ex => [32%N] ++ p_value d pt0 pti (has_string_ex (ex_type ex)) (a_name a) ev
              | _, _ => []
              end)
           else p_value d pt0 pti (has_string_list (a_type a)) (a_name a) v)
          ++ p_args d pt0 pti n rest
      end
  end.

Fixpoint p_kids (pk : node -> bytes) (l : list node) : bytes :=
  match l with [] => [] | c :: r => pk c ++ p_kids pk r end.

Lemma tosieve_S : forall f n indent,
  tosieve (S f) n indent =
  spaces indent ++ d_name (node_def n) ++
  p_args (node_def n) (fun t => tosieve f t 0) (fun t => tosieve f t indent) n (d_args (node_def n)) ++
  (if negb (d_accept_children (node_def n)) then
     match d_type (node_def n) with CTest => [] | _ => [59%N; 10%N] end
   else match d_type (node_def n) with
        | CControl => [32%N; 123%N; 10%N] ++ p_kids (fun c => tosieve f c (indent + 4)) (node_children n) ++ spaces indent ++ [125%N; 10%N]
        | _ => []
        end).
Proof.
  intros f n indent. cbn [tosieve]. f_equal. f_equal. f_equal.
  - match goal with |- ?F ?l = p_args ?d ?a ?b ?n0 ?l =>
      assert (H : forall defs, F defs = p_args d a b n0 defs); [|apply H] end.
    assert (Ht : forall l,
      (fix tests (l1 : list node) : bytes :=
         match l1 with
         | [] => []
         | [t] => tosieve f t 0
         | t :: (_ :: _) as r => tosieve f t 0 ++ [44%N; 32%N] ++ tests r
         end) l = p_tests (fun t => tosieve f t 0) l).
    { induction l as [|t r IHr]; [reflexivity|]. cbn [p_tests]. destruct r as [|t2 r2]; [reflexivity|]. rewrite <- IHr. reflexivity. }
    induction defs as [|a rest IH]; [reflexivity|].
    cbn [p_args]. rewrite <- IH. clear IH.
    destruct (assoc_get (a_name a) (node_args n)) as [v|]; [|reflexivity].
    f_equal. f_equal.
    destruct (atype_mem TyTag (a_type a)).
    + f_equal. destruct (assoc_get (a_name a) (node_extra n)) as [ev|]; [|reflexivity].
      destruct (a_extra a) as [ex|]; [|reflexivity]. f_equal.
      destruct ev; try reflexivity. unfold p_value. rewrite Ht. reflexivity.
    + destruct v; try reflexivity. unfold p_value. rewrite Ht. reflexivity.
  - destruct (negb (d_accept_children (node_def n))); [reflexivity|].
    destruct (d_type (node_def n)); try reflexivity.
    f_equal. f_equal.
    generalize (node_children n). induction l as [|c r IHr]; [reflexivity|]. cbn [p_kids]. rewrite <- IHr. reflexivity.
Qed.

(* ---------------------------------------------------------------- argument maps read in definition order *)

(* [find_def] does not send the printer to a test-list slot for this name *)
Definition plain_name (d : cmddef) (name : bytes) : Prop :=
  match find_def (d_args d) name with
  | Some a0 => match a_type a0 with [TyTestList] => False | _ => True end
  | None => True
  end.

(* how a stored value is written: [p] is the argument it stands for *)
Inductive val_arg (sw : bytes) (d : cmddef) (name : bytes) (is_string : bool) : aval -> argument -> Prop :=
| va_string : forall s, exact_string s -> val_arg sw d name is_string (VStr s) (TyString, VStr s)
| va_number : forall s, num_ok s -> is_string = false -> val_arg sw d name is_string (VStr s) (TyNumber, VStr s)
| va_list : forall vs, sw = [32%N] -> vs <> [] -> Forall exact_string vs -> plain_name d name ->
            val_arg sw d name is_string (VList vs) (TyStringList, VList vs)
| va_ml : forall s, str_kind s = TMultiline -> ml_ok s -> is_string = true ->
          val_arg sw d name is_string (VStr s) (TyString, VStr s)
(* a string list handed over as its text "[a,b]" (what FiltersSet.__quote_list produces) *)
| va_qlist : forall vs, sw = [] -> vs <> [] -> Forall exact_string vs ->
             val_arg sw d name is_string (VStr (91%N :: join [44%N] vs ++ [93%N])) (TyStringList, VList vs)
(* a Python list of strings that are not quoted yet (the extension names of FiltersSet.requires): Command.tosieve
   puts the quotes around each item *)
| va_rawlist : forall vs, sw = [32%N] -> vs <> [] -> Forall exact_string (map print_item vs) -> plain_name d name ->
               val_arg sw d name is_string (VList vs) (TyStringList, VList (map print_item vs)).

(* the maps [am] / [em] of a node, read slot by slot in the order of the definition, are the arguments [args] *)
Inductive slots_args (sw : bytes) (d : cmddef) (am em : list (bytes * aval)) : list argdef -> list argument -> Prop :=
| sa_nil : slots_args sw d am em [] []
| sa_absent : forall a rest args,
    assoc_get (a_name a) am = None -> slots_args sw d am em rest args -> slots_args sw d am em (a :: rest) args
| sa_tag : forall a rest args s,
    atype_mem TyTag (a_type a) = true -> assoc_get (a_name a) am = Some (VStr s) -> tag_ok s = true ->
    (assoc_get (a_name a) em = None \/ a_extra a = None) ->
    slots_args sw d am em rest args -> slots_args sw d am em (a :: rest) ((TyTag, VStr s) :: args)
| sa_tag_param : forall a rest args s ev ex p,
    atype_mem TyTag (a_type a) = true -> assoc_get (a_name a) am = Some (VStr s) -> tag_ok s = true ->
    assoc_get (a_name a) em = Some ev -> a_extra a = Some ex ->
    val_arg sw d (a_name a) (has_string_ex (ex_type ex)) ev p ->
    slots_args sw d am em rest args -> slots_args sw d am em (a :: rest) ((TyTag, VStr s) :: p :: args)
| sa_pos : forall a rest args v p,
    atype_mem TyTag (a_type a) = false -> assoc_get (a_name a) am = Some v ->
    val_arg sw d (a_name a) (has_string_list (a_type a)) v p ->
    slots_args sw d am em rest args -> slots_args sw d am em (a :: rest) (p :: args).

Lemma join_items_layout : forall sw vs w, vs <> [] -> lrender (lt_items sw w vs) = w ++ join (44%N :: sw) vs.
Proof.
  intro sw. induction vs as [|v r IH]; intros w Hne; [congruence|].
  cbn [lt_items lrender]. destruct r as [|v2 r2].
  - cbn. rewrite app_nil_r. reflexivity.
  - cbn [lrender app]. rewrite (IH sw) by discriminate.
    change (join (44%N :: sw) (v :: v2 :: r2)) with (v ++ (44%N :: sw) ++ join (44%N :: sw) (v2 :: r2)).
    cbn [app]. reflexivity.
Qed.

Lemma map_print_item_exact : forall vs, Forall exact_string vs -> map print_item vs = vs.
Proof.
  induction vs as [|v r IH]; intro H; [reflexivity|]. inversion H; subst. cbn [map].
  rewrite print_item_exact by assumption. rewrite IH by assumption. reflexivity.
Qed.

Lemma exact_starts_quote : forall s, exact_string s -> starts_with [34%N] s = true.
Proof. intros s H. destruct (exact_string_shape s H) as (body & -> & _). reflexivity. Qed.

Lemma lt_arg_w : forall sw p w, arg_pr p -> lrender (lt_arg sw w p) = w ++ lrender (lt_arg sw [] p).
Proof.
  intros sw [[] [s0|items|n0|ns0]] w H; cbn in H; try contradiction; cbn [lt_arg lrender app]; reflexivity.
Qed.

Lemma val_arg_pr : forall sw d name b v p, val_arg sw d name b v p -> arg_pr p.
Proof.
  intros sw d name b v p H. destruct H; cbn; auto.
  split; [|assumption]. destruct vs; [congruence|discriminate].
Qed.

Lemma ml_starts : forall s, ml_ok s -> starts_with [34%N] s = false /\ starts_with [91%N] s = false.
Proof.
  intros s H. destruct (scan_multiline_some _ _ (H [] (or_introl eq_refl))) as (t & Hv). rewrite app_nil_r in Hv. subst s.
  split; reflexivity.
Qed.

(* the text of a value: its tokens, then the line feed a multi-line string leaves behind *)
Lemma val_layout : forall sw d pt0 pti name b v p,
  val_arg sw d name b v p -> p_value d pt0 pti b name v = lrender (lt_arg sw [] p) ++ carry_of p.
Proof.
  intros sw d pt0 pti name b v p H. destruct H as [s Hs|s Hs Hb|vs Hsw Hne Hall Hpl|s Hk Hm Hb|vs Hsw Hne Hall|vs Hsw Hne Hall Hpl]; cbn [p_value lt_arg lrender app].
  - unfold carry_of. rewrite (is_ml_exact s Hs).
    unfold print_scalar. rewrite (exact_starts_quote s Hs). cbn [orb]. destruct b; rewrite ?app_nil_r; reflexivity.
  - subst b. unfold print_scalar. rewrite !app_nil_r. reflexivity.
  - subst sw. assert (Hp : print_items vs = 91%N :: lrender (lt_items [32%N] [] vs ++ [([], TRightBracket, [93%N])])).
    { unfold print_items. rewrite (map_print_item_exact vs Hall), lrender_app, (join_items_layout [32%N] vs [] Hne). reflexivity. }
    unfold carry_of. cbn [is_ml]. rewrite app_nil_r.
    unfold plain_name in Hpl. destruct (find_def (d_args d) name) as [a0|]; [|exact Hp].
    destruct (a_type a0) as [|[] [|y l]]; try exact Hp. contradiction.
  - subst b. unfold carry_of, is_ml. rewrite Hk. unfold print_scalar. destruct (ml_starts s Hm) as (A & B). rewrite A, B.
    cbn [orb]. rewrite app_nil_r. reflexivity.
  - subst sw. unfold carry_of. cbn [is_ml]. rewrite app_nil_r.
    rewrite lrender_app, (join_items_layout [] vs [] Hne). cbn [lrender app].
    unfold print_scalar. cbn [starts_with N.eqb Pos.eqb andb orb]. rewrite !app_nil_r.
    destruct b; reflexivity.
  - subst sw. assert (Hne' : map print_item vs <> []) by (destruct vs; [congruence|discriminate]).
    assert (Hp : print_items vs = 91%N :: lrender (lt_items [32%N] [] (map print_item vs) ++ [([], TRightBracket, [93%N])])).
    { unfold print_items. rewrite lrender_app, (join_items_layout [32%N] (map print_item vs) [] Hne'). reflexivity. }
    unfold carry_of. cbn [is_ml]. rewrite app_nil_r.
    unfold plain_name in Hpl. destruct (find_def (d_args d) name) as [a0|]; [|exact Hp].
    destruct (a_type a0) as [|[] [|y l]]; try exact Hp. contradiction.
Qed.

Definition args_text (sw : bytes) (args : list argument) : bytes :=
  concat (map (fun p => 32%N :: lrender (lt_arg sw [] p) ++ carry_of p) args).

Lemma args_text_layout : forall sw args cin, Forall arg_pr args ->
  cin ++ args_text sw args = lrender (lt_args_c sw cin args) ++ args_carry cin args.
Proof.
  intro sw. induction args as [|a r IH]; intros cin H; [cbn; rewrite app_nil_r; reflexivity|].
  inversion H as [|a' r' Ha Hr]; subst. unfold args_text in *. cbn [map concat lt_args_c args_carry].
  rewrite lrender_app, (lt_arg_w sw a (cin ++ [32%N]) Ha), <- !app_assoc. cbn [app].
  rewrite <- (IH (carry_of a) Hr). rewrite <- !app_assoc. reflexivity.
Qed.

Lemma args_layout : forall sw d am em ch cm pt0 pti defs args,
  slots_args sw d am em defs args ->
  p_args d pt0 pti (Node d am em ch cm) defs = args_text sw args /\ Forall arg_pr args.
Proof.
  intros sw d am em ch cm pt0 pti defs args H. unfold args_text.
  induction H as [|a rest args Ha H IH|a rest args s Ht Ha Hs Hno H IH|a rest args s ev ex p Ht Ha Hs He Hex Hv H IH
                  |a rest args v p Ht Ha Hv H IH]; cbn [p_args node_args node_extra map concat].
  - split; [reflexivity|constructor].
  - rewrite Ha. exact IH.
  - destruct IH as (IH & IHp). rewrite Ha, Ht. split; [|constructor; [exact Hs|exact IHp]].
    rewrite <- IH. cbn [lt_arg lrender app]. change (carry_of (TyTag, VStr s)) with (@nil N). rewrite !app_nil_r.
    destruct Hno as [Hn|Hn]; rewrite Hn; [|destruct (assoc_get (a_name a) em)]; rewrite ?app_nil_r; reflexivity.
  - destruct IH as (IH & IHp). rewrite Ha, Ht, He, Hex.
    pose proof (val_arg_pr _ _ _ _ _ _ Hv) as Hpp.
    split; [|constructor; [exact Hs|constructor; [exact Hpp|exact IHp]]].
    rewrite <- IH, (val_layout sw d pt0 pti _ _ _ _ Hv).
    cbn [lt_arg lrender app]. change (carry_of (TyTag, VStr s)) with (@nil N). rewrite !app_nil_r. cbn [app].
    repeat (rewrite <- app_assoc || rewrite <- app_comm_cons). reflexivity.
  - destruct IH as (IH & IHp). rewrite Ha, Ht.
    pose proof (val_arg_pr _ _ _ _ _ _ Hv) as Hpp.
    split; [|constructor; [exact Hpp|exact IHp]].
    rewrite <- IH, (val_layout sw d pt0 pti _ _ _ _ Hv). cbn [app]. repeat (rewrite <- app_assoc || rewrite <- app_comm_cons). reflexivity.
Qed.

(* in the form used below: the tokens of the arguments, then the pending line feed *)
Lemma args_layout_c : forall sw d am em ch cm pt0 pti defs args,
  slots_args sw d am em defs args ->
  p_args d pt0 pti (Node d am em ch cm) defs = lrender (lt_args sw args) ++ args_carry [] args /\ Forall arg_pr args.
Proof.
  intros sw d am em ch cm pt0 pti defs args H. destruct (args_layout sw d am em ch cm pt0 pti defs args H) as (E & P).
  split; [|exact P]. rewrite E. exact (args_text_layout sw args [] P).
Qed.

(* ---------------------------------------------------------------- trees in canonical form *)

Fixpoint dt (t : gtest) : nat :=
  match t with
  | GSimple _ _ => 1
  | GNot _ t' => S (dt t')
  | GList _ ts => S (fold_right (fun x m => Nat.max (dt x) m) 0 ts)
  end.

Fixpoint dc (c : gcmd) : nat :=
  match c with
  | GAct _ _ => 1
  | GCtl _ t body => S (Nat.max (dt t) (fold_right (fun x m => Nat.max (dc x) m) 0 body))
  | GElse _ body => S (fold_right (fun x m => Nat.max (dc x) m) 0 body)
  end.

(* the tree of a script whose commands are spelled as in their definitions and whose arguments are written in
   definition order, each optional slot at most once *)
Inductive canon_test : gtest -> node -> Prop :=
| ct_simple : forall d args am em,
    ident_ok (d_name d) = true -> d_type d = CTest -> slots_args (sepw (d_name d)) d am em (d_args d) args ->
    canon_test (GSimple (d_name d) args) (Node d am em [] [])
| ct_not : forall d a t' n',
    ident_ok (d_name d) = true -> d_type d = CTest -> d_args d = [a] -> atype_mem TyTag (a_type a) = false ->
    canon_test t' n' ->
    canon_test (GNot (d_name d) t') (Node d [(a_name a, VTest n')] [] [] [])
| ct_list : forall d a ts ns,
    ident_ok (d_name d) = true -> d_type d = CTest -> d_args d = [a] -> a_type a = [TyTestList] -> ts <> [] ->
    Forall2 canon_test ts ns ->
    canon_test (GList (d_name d) ts) (Node d [(a_name a, VTests ns)] [] [] []).

Inductive canon_cmd : gcmd -> node -> Prop :=
| cc_act : forall d args am em,
    ident_ok (d_name d) = true -> d_type d <> CTest -> d_accept_children d = false -> slots_args (sepw (d_name d)) d am em (d_args d) args ->
    canon_cmd (GAct (d_name d) args) (Node d am em [] [])
| cc_ctl : forall d a t nt body ns,
    ident_ok (d_name d) = true -> d_type d = CControl -> d_accept_children d = true -> d_args d = [a] -> atype_mem TyTag (a_type a) = false ->
    canon_test t nt -> Forall2 canon_cmd body ns ->
    canon_cmd (GCtl (d_name d) t body) (Node d [(a_name a, VTest nt)] [] ns [])
| cc_else : forall d body ns,
    ident_ok (d_name d) = true -> d_type d = CControl -> d_accept_children d = true -> d_args d = [] ->
    Forall2 canon_cmd body ns ->
    canon_cmd (GElse (d_name d) body) (Node d [] [] ns []).

Lemma sp0 : sp 0 = []. Proof. reflexivity. Qed.

Lemma assoc_get_one : forall (V : Type) k (v : V), assoc_get k [(k, v)] = Some v.
Proof. intros. cbn. rewrite beq_refl'. reflexivity. Qed.

Lemma find_def_one : forall a, find_def [a] (a_name a) = Some a.
Proof. intros. cbn. rewrite beq_refl'. reflexivity. Qed.

Definition Ptest (t : gtest) (n : node) : Prop :=
  forall f ind w, dt t <= f -> w ++ tosieve f n ind = lrender (lt_test ind (w ++ sp ind) t) ++ tcarry t.

Lemma lt_tests_layout : forall f ts ns,
  Forall2 (fun t n => dt t <= f -> forall w, w ++ tosieve f n 0 = lrender (lt_test 0 w t) ++ tcarry t) ts ns ->
  fold_right (fun x m => Nat.max (dt x) m) 0 ts <= f -> ts <> [] ->
  forall w1, w1 ++ p_tests (fun t => tosieve f t 0) ns = lrender (lt_tests w1 ts) ++ tcarry (last ts (GList [] [])).
Proof.
  intros f ts ns H. induction H as [|t n ts ns Ht Hr IH]; intros Hd Hne w1; [congruence|].
  cbn [fold_right] in Hd. cbn [p_tests lt_tests].
  destruct Hr as [|t2 n2 ts2 ns2 Ht2 Hr2].
  - cbn [last]. apply Ht. lia.
  - change (last (t :: t2 :: ts2) (GList [] [])) with (last (t2 :: ts2) (GList [] [])).
    rewrite lrender_app. cbn [lrender]. rewrite app_assoc, (Ht ltac:(lia) w1).
    pose proof (IH ltac:(lia) ltac:(discriminate) [32%N]) as E. cbn [app] in E.
    repeat (rewrite <- app_assoc || rewrite <- app_comm_cons). cbn [app]. rewrite E. reflexivity.
Qed.

Theorem test_layout : forall t n, canon_test t n -> Ptest t n.
Proof.
  fix IH 3. intros t n H. destruct H as [d args am em Hid Hty Hs|d a t' n' Hid Hty Ha Hnt Ht|d a ts ns Hid Hty Ha Htl Hne Hall];
    intros f ind w Hf; (destruct f as [|f]; [cbn in Hf; lia|]); rewrite tosieve_S; cbn [node_def node_children].
  - destruct (args_layout_c _ d am em [] [] (fun t => tosieve f t 0) (fun t => tosieve f t ind) _ _ Hs) as (E & _).
    rewrite E. cbn [lt_test lrender tcarry]. rewrite Hty.
    destruct (negb (d_accept_children d)); rewrite app_nil_r; unfold sp; rewrite <- !app_assoc; reflexivity.
  - rewrite Ha. cbn [p_args node_args]. rewrite assoc_get_one, Hnt. cbn [p_value]. rewrite Hty.
    cbn [lt_test lrender dt tcarry] in *.
    pose proof (IH t' n' Ht f ind [32%N] ltac:(lia)) as E. cbn [app] in E.
    destruct (negb (d_accept_children d)); rewrite !app_nil_r; unfold sp;
      repeat (rewrite <- app_assoc || rewrite <- app_comm_cons); cbn [app]; rewrite E; reflexivity.
  - rewrite Ha. cbn [p_args node_args]. rewrite assoc_get_one, Htl. cbn [atype_mem atype_eqb orb p_value].
    rewrite Ha, find_def_one, Htl, Hty. rewrite lt_test_list. cbn [lrender dt tcarry] in *.
    assert (G : Forall2 (fun t n => dt t <= f -> forall w, w ++ tosieve f n 0 = lrender (lt_test 0 w t) ++ tcarry t) ts ns).
    { clear Hne Hf. induction Hall as [|t0 n0 ts0 ns0 H0 Hr IHr]; constructor; [|exact IHr].
      intros Hd w0. pose proof (IH t0 n0 H0 f 0 w0 Hd) as E. rewrite sp0, app_nil_r in E. exact E. }
    pose proof (lt_tests_layout f ts ns G ltac:(lia) Hne []) as E. cbn [app] in E.
    rewrite lrender_app. cbn [lrender app]. rewrite app_nil_r.
    destruct (negb (d_accept_children d)); rewrite !app_nil_r; unfold sp;
      repeat (rewrite <- app_assoc || rewrite <- app_comm_cons); cbn [app]; rewrite E;
      repeat (rewrite <- app_assoc || rewrite <- app_comm_cons); reflexivity.
Qed.

Definition Pcmdl (c : gcmd) (n : node) : Prop :=
  forall f ind w, dc c <= f -> w ++ tosieve f n ind = lrender (lt_cmd ind w c) ++ [10%N].

Lemma kids_layout : forall f i body ns,
  Forall2 (fun c n => dc c <= f -> [10%N] ++ tosieve f n i = lrender (lt_cmd i [10%N] c) ++ [10%N]) body ns ->
  fold_right (fun x m => Nat.max (dc x) m) 0 body <= f ->
  [10%N] ++ p_kids (fun c => tosieve f c i) ns = lrender (flat_map (lt_cmd i [10%N]) body) ++ [10%N].
Proof.
  intros f i body ns H. induction H as [|c n body ns Hc Hr IH]; intro Hd; [reflexivity|].
  cbn [fold_right] in Hd. cbn [p_kids flat_map]. rewrite lrender_app.
  rewrite app_assoc, (Hc ltac:(lia)), <- !app_assoc, (IH ltac:(lia)). reflexivity.
Qed.

Theorem cmd_layout : forall c n, canon_cmd c n -> Pcmdl c n.
Proof.
  fix IH 3. intros c n H.
  assert (G : forall f i body ns, Forall2 canon_cmd body ns ->
              Forall2 (fun c n => dc c <= f -> [10%N] ++ tosieve f n i = lrender (lt_cmd i [10%N] c) ++ [10%N]) body ns).
  { intros f i body ns Hb. induction Hb as [|c0 n0 b0 ns0 H0 Hr IHr]; constructor; [|exact IHr].
    intro Hd. exact (IH c0 n0 H0 f i [10%N] Hd). }
  destruct H as [d args am em Hid Hty Hch Hs|d a t nt body ns Hid Hty Hch Ha Hnt Ht Hb|d body ns Hid Hty Hch Ha Hb];
    intros f ind w Hf; (destruct f as [|f]; [cbn in Hf; lia|]); rewrite tosieve_S; cbn [node_def node_children].
  - destruct (args_layout_c _ d am em [] [] (fun t => tosieve f t 0) (fun t => tosieve f t ind) _ _ Hs) as (E & _).
    rewrite E, Hch. cbn [negb lt_cmd lrender]. rewrite lrender_app. cbn [lrender app].
    destruct (d_type d); try congruence; unfold sp; rewrite ?app_nil_r;
      repeat (rewrite <- app_assoc || rewrite <- app_comm_cons); reflexivity.
  - rewrite Ha. cbn [p_args node_args]. rewrite assoc_get_one, Hnt. cbn [p_value]. rewrite Hch, Hty. cbn [negb].
    cbn [lt_cmd lrender dc] in *.
    pose proof (test_layout t nt Ht f ind [32%N] ltac:(lia)) as E. cbn [app] in E.
    pose proof (kids_layout f (ind + 4) body ns (G f (ind + 4) body ns Hb) ltac:(lia)) as K.
    rewrite !lrender_app. cbn [lrender app].
    rewrite !lrender_app. cbn [lrender app].
    assert (K' : forall R, 10%N :: (p_kids (fun c0 => tosieve f c0 (ind + 4)) ns ++ R) =
                           lrender (flat_map (lt_cmd (ind + 4) [10%N]) body) ++ 10%N :: R).
    { intro R. change (10%N :: (p_kids (fun c0 => tosieve f c0 (ind + 4)) ns ++ R))
        with (([10%N] ++ p_kids (fun c0 => tosieve f c0 (ind + 4)) ns) ++ R). rewrite K, <- app_assoc. reflexivity. }
    cbn [app]. rewrite K'. unfold sp. rewrite ?app_nil_r.
    repeat (rewrite <- app_assoc || rewrite <- app_comm_cons). cbn [app].
    replace (32%N :: tosieve f nt ind ++ 32%N :: 123%N :: lrender (flat_map (lt_cmd (ind + 4) [10%N]) body) ++ 10%N :: spaces ind ++ [125%N; 10%N])
      with ((32%N :: tosieve f nt ind) ++ 32%N :: 123%N :: lrender (flat_map (lt_cmd (ind + 4) [10%N]) body) ++ 10%N :: spaces ind ++ [125%N; 10%N]) by reflexivity.
    rewrite E. repeat (rewrite <- app_assoc || rewrite <- app_comm_cons). reflexivity.
  - rewrite Ha. cbn [p_args]. rewrite Hch, Hty. cbn [negb].
    cbn [lt_cmd lrender dc] in *.
    pose proof (kids_layout f (ind + 4) body ns (G f (ind + 4) body ns Hb) ltac:(lia)) as K.
    rewrite !lrender_app. cbn [lrender app].
    assert (K' : forall R, 10%N :: (p_kids (fun c0 => tosieve f c0 (ind + 4)) ns ++ R) =
                           lrender (flat_map (lt_cmd (ind + 4) [10%N]) body) ++ 10%N :: R).
    { intro R. change (10%N :: (p_kids (fun c0 => tosieve f c0 (ind + 4)) ns ++ R))
        with (([10%N] ++ p_kids (fun c0 => tosieve f c0 (ind + 4)) ns) ++ R). rewrite K, <- app_assoc. reflexivity. }
    cbn [app]. rewrite K'. unfold sp. rewrite ?app_nil_r.
    repeat (rewrite <- app_assoc || rewrite <- app_comm_cons). reflexivity.
Qed.

(* the printed text of a canonical tree is the layout of its script *)
Theorem tosieve_layout : forall cs ns f,
  Forall2 canon_cmd cs ns -> cs <> [] -> fold_right (fun x m => Nat.max (dc x) m) 0 cs <= f ->
  tosieve_all f ns = script_text cs.
Proof.
  intros cs ns f H Hne Hd. unfold tosieve_all, script_text.
  destruct H as [|c n cs ns Hc Hr]; [congruence|]. cbn [fold_right] in Hd.
  cbn [map concat]. unfold lt_cmds. rewrite lrender_app.
  pose proof (cmd_layout c n Hc f 0 [] ltac:(lia)) as E. cbn [app] in E. rewrite E, <- !app_assoc.
  f_equal.
  assert (K : forall body ms, Forall2 canon_cmd body ms -> fold_right (fun x m => Nat.max (dc x) m) 0 body <= f ->
              [10%N] ++ concat (map (fun n0 => tosieve f n0 0) ms) = lrender (flat_map (lt_cmd 0 [10%N]) body) ++ [10%N]).
  { intros body ms Hb. induction Hb as [|c0 n0 b0 ms0 H0 Hr0 IHr]; intro Hd0; [reflexivity|].
    cbn [fold_right] in Hd0. cbn [map concat flat_map]. rewrite lrender_app.
    rewrite app_assoc, (cmd_layout c0 n0 H0 f 0 [10%N] ltac:(lia)), <- !app_assoc, (IHr ltac:(lia)). reflexivity. }
  apply K; [exact Hr|lia].
Qed.

(* ---------------------------------------------------------------- C04 on trees *)

Lemma canon_test_pr : forall t n, canon_test t n -> test_pr t.
Proof.
  fix IH 3. intros t n H. destruct H as [d args am em Hid Hty Hs|d a t' n' Hid Hty Ha Hnt Ht|d a ts ns Hid Hty Ha Htl Hne Hall].
  - constructor; [exact Hid|]. apply (args_layout _ d am em [] [] (fun _ => []) (fun _ => []) _ _ Hs).
  - constructor; [exact Hid|]. apply (IH t' n' Ht).
  - constructor; [exact Hid|exact Hne|]. clear Hne.
    induction Hall as [|t0 n0 ts0 ns0 H0 Hr IHr]; constructor; [apply (IH t0 n0 H0)|exact IHr].
Qed.

Lemma canon_cmd_pr : forall c n, canon_cmd c n -> cmd_pr c.
Proof.
  fix IH 3. intros c n H.
  assert (G : forall body ns, Forall2 canon_cmd body ns -> Forall cmd_pr body).
  { intros body ns Hb. induction Hb as [|c0 n0 b0 ns0 H0 Hr IHr]; constructor; [apply (IH c0 n0 H0)|exact IHr]. }
  destruct H as [d args am em Hid Hty Hch Hs|d a t nt body ns Hid Hty Hch Ha Hnt Ht Hb|d body ns Hid Hty Hch Ha Hb].
  - constructor; [exact Hid|]. apply (args_layout _ d am em [] [] (fun _ => []) (fun _ => []) _ _ Hs).
  - constructor; [exact Hid|apply (canon_test_pr t nt Ht)|apply (G body ns Hb)].
  - constructor; [exact Hid|apply (G body ns Hb)].
Qed.

(* C04, tree level: the text that the model of Command.tosieve prints for the tree of a well-formed script in
   canonical form (names as in the definitions, arguments in definition order) is accepted and parses to
   exactly that tree; hence printing the re-parsed tree gives the same text again (fixed point) *)
Theorem print_parse_roundtrip : forall T cs ns L' f,
  twf_tables T = true ->
  wf_cmds T [] None cs ns L' -> Forall2 canon_cmd cs ns -> cs <> [] ->
  fold_right (fun x m => Nat.max (dc x) m) 0 cs <= f ->
  parse T (tosieve_all f ns) = Accept ns.
Proof.
  intros T cs ns L' f HT Hwf Hc Hne Hf.
  rewrite (tosieve_layout cs ns f Hc Hne Hf).
  apply (layout_parses T cs ns L' HT Hwf).
  clear Hwf Hne Hf. induction Hc as [|c n cs ns H0 Hr IHr]; constructor; [apply (canon_cmd_pr c n H0)|exact IHr].
Qed.

Corollary print_fixed_point : forall T cs ns L' f,
  twf_tables T = true ->
  wf_cmds T [] None cs ns L' -> Forall2 canon_cmd cs ns -> cs <> [] ->
  fold_right (fun x m => Nat.max (dc x) m) 0 cs <= f ->
  match parse T (tosieve_all f ns) with
  | Accept ns' => tosieve_all f ns' = tosieve_all f ns
  | _ => False
  end.
Proof.
  intros T cs ns L' f HT Hwf Hc Hne Hf. rewrite (print_parse_roundtrip T cs ns L' f HT Hwf Hc Hne Hf). reflexivity.
Qed.

Print Assumptions tosieve_layout.
Print Assumptions print_parse_roundtrip.

(* constructors with names and maps as equations (for concrete trees) *)
Lemma ct_simple' : forall name d args am em,
  name = d_name d -> ident_ok name = true -> d_type d = CTest -> slots_args (sepw name) d am em (d_args d) args ->
  canon_test (GSimple name args) (Node d am em [] []).
Proof. intros; subst; constructor; assumption. Qed.
Lemma ct_not' : forall name d a t' n' am,
  name = d_name d -> ident_ok name = true -> d_type d = CTest -> d_args d = [a] -> atype_mem TyTag (a_type a) = false ->
  am = [(a_name a, VTest n')] ->
  canon_test t' n' -> canon_test (GNot name t') (Node d am [] [] []).
Proof. intros; subst; eapply ct_not; eassumption. Qed.
Lemma ct_list' : forall name d a ts ns am,
  name = d_name d -> ident_ok name = true -> d_type d = CTest -> d_args d = [a] -> a_type a = [TyTestList] -> ts <> [] ->
  am = [(a_name a, VTests ns)] ->
  Forall2 canon_test ts ns -> canon_test (GList name ts) (Node d am [] [] []).
Proof. intros; subst; eapply ct_list; eassumption. Qed.
Lemma cc_act' : forall name d args am em,
  name = d_name d -> ident_ok name = true -> d_type d <> CTest -> d_accept_children d = false ->
  slots_args (sepw name) d am em (d_args d) args -> canon_cmd (GAct name args) (Node d am em [] []).
Proof. intros; subst; constructor; assumption. Qed.
Lemma cc_ctl' : forall name d a t nt body ns am,
  name = d_name d -> ident_ok name = true -> d_type d = CControl -> d_accept_children d = true -> d_args d = [a] ->
  atype_mem TyTag (a_type a) = false -> am = [(a_name a, VTest nt)] -> canon_test t nt -> Forall2 canon_cmd body ns ->
  canon_cmd (GCtl name t body) (Node d am [] ns []).
Proof. intros; subst; eapply cc_ctl; eassumption. Qed.
Lemma cc_else' : forall name d body ns,
  name = d_name d -> ident_ok name = true -> d_type d = CControl -> d_accept_children d = true -> d_args d = [] ->
  Forall2 canon_cmd body ns -> canon_cmd (GElse name body) (Node d [] [] ns []).
Proof. intros; subst; eapply cc_else; eassumption. Qed.

(* ---------------------------------------------------------------- trees that stand for a script *)

(* the text printed for a tree that stands for the script [cs] (the tree need not be the one the parser builds:
   a list may be stored as its text) parses to the tree of [cs] *)
Theorem print_parses : forall T cs ns nsp L' f,
  twf_tables T = true ->
  wf_cmds T [] None cs nsp L' -> Forall2 canon_cmd cs ns -> cs <> [] ->
  fold_right (fun x m => Nat.max (dc x) m) 0 cs <= f ->
  parse T (tosieve_all f ns) = Accept nsp.
Proof.
  intros T cs ns nsp L' f HT Hwf Hc Hne Hf.
  rewrite (tosieve_layout cs ns f Hc Hne Hf).
  apply (layout_parses T cs nsp L' HT Hwf).
  clear Hwf Hne Hf. induction Hc as [|c n cs ns H0 Hr IHr]; constructor; [apply (canon_cmd_pr c n H0)|exact IHr].
Qed.

(* ---------------------------------------------------------------- hash comments before top-level commands
   (the form FiltersSet.tosieve writes: "# Filter: name" on a line of its own before each filter) *)

Fixpoint lt_cms (w : bytes) (cms : list bytes) : list ltok :=
  match cms with [] => [] | x :: r => (w, THashComment, x) :: lt_cms [10%N] r end.

Definition lt_top (w : bytes) (x : list bytes * gcmd) : list ltok :=
  lt_cms w (fst x) ++ lt_cmd 0 (match fst x with [] => w | _ => [10%N] end) (snd x).

(* a top-level item: extra white space written before it (FiltersSet.tosieve leaves a blank line after the require
   line), its comment lines, its command *)
Definition xtop := (bytes * (list bytes * gcmd))%type.

Fixpoint lt_tops (w : bytes) (tops : list xtop) : list ltok :=
  match tops with [] => [] | x :: r => lt_top (w ++ fst x) (snd x) ++ lt_tops [10%N] r end.

Definition tops_text (tops : list xtop) : bytes := lrender (lt_tops [] tops) ++ [10%N].

Lemma ltoks_cms : forall cms w, ltoks (lt_cms w cms) = ctoks cms.
Proof. induction cms as [|x r IH]; intro w; [reflexivity|]. cbn [lt_cms ctoks map]. rewrite ltoks_cons. f_equal. apply IH. Qed.

Lemma ltoks_tops : forall tops w, ltoks (lt_tops w tops) = flat_map toks_top (map snd tops).
Proof.
  induction tops as [|[ex [cms c]] r IH]; intro w; [reflexivity|].
  cbn [lt_tops flat_map map fst snd]. unfold lt_top. cbn [fst snd]. rewrite !ltoks_app, ltoks_cms, ltoks_cmd, IH.
  change (toks_top (cms, c)) with (ctoks cms ++ toks_cmd c). rewrite <- app_assoc. reflexivity.
Qed.

Definition top_pr (x : xtop) : Prop := all_space (fst x) /\ Forall hash_ok (fst (snd x)) /\ cmd_pr (snd (snd x)).

Lemma lt_cmd_head : forall c ind w, exists name r, lt_cmd ind w c = (w ++ sp ind, TIdentifier, name) :: r.
Proof. intros [name args|name t body|name body] ind w; cbn [lt_cmd]; eauto. Qed.

Lemma lchain_cms : forall cms w X, all_space w -> Forall hash_ok cms -> (exists t, X = 10%N :: t) -> lchain (lt_cms w cms) X.
Proof.
  induction cms as [|x r IH]; intros w X Hw Hall HX; [exact I|].
  inversion Hall as [|x' r' Hx Hr]; subst. cbn [lt_cms lchain].
  split; [exact Hw|]. split; [exact Hx|]. split; [|apply IH; [exact space_10|exact Hr|exact HX]].
  destruct r as [|y r2]; cbn [lt_cms lrender app]; right; [destruct HX as (t & ->)|]; eexists; reflexivity.
Qed.

Lemma lchain_tops : forall tops w X, all_space w -> Forall top_pr tops -> lchain (lt_tops w tops) X.
Proof.
  induction tops as [|[ex [cms c]] r IH]; intros w X Hw Hall; [exact I|].
  inversion Hall as [|x' r' [Hex [Hcm Hc]] Hr]; subst. cbn [fst snd] in *. cbn [lt_tops fst snd]. unfold lt_top. cbn [fst snd].
  assert (Hw' : all_space (w ++ ex)) by (apply space_app; assumption).
  rewrite <- app_assoc. apply lchain_app.
  - destruct cms as [|c1 cr]; [exact I|].
    apply lchain_cms; [exact Hw'|exact Hcm|].
    destruct (lt_cmd_head c 0 [10%N]) as (nm & r0 & E). rewrite lrender_app, E. cbn [lrender app]. eexists. reflexivity.
  - apply lchain_app; [apply lchain_cmd; [exact Hc|destruct cms; [exact Hw'|exact space_10]]|apply IH; [exact space_10|exact Hr]].
Qed.

Theorem tops_lex : forall tops, Forall top_pr tops ->
  snd (lex (tops_text tops)) = None /\ map strip_pos (fst (lex (tops_text tops))) = flat_map toks_top (map snd tops).
Proof.
  intros tops Hp. unfold tops_text.
  destruct (lex_lrender (lt_tops [] tops) [10%N] (lchain_tops tops [] [10%N] space_nil Hp) space_10) as (A & B).
  rewrite ltoks_tops in B. auto.
Qed.

(* a commented script, laid out that way, parses to its tree with the comments attached *)
Theorem tops_parse : forall T tops ns L',
  twf_tables T = true -> wf_tops T [] None (map snd tops) ns L' -> Forall top_pr tops ->
  parse T (tops_text tops) = Accept ns.
Proof.
  intros T tops ns L' HT Hwf Hp. destruct (tops_lex tops Hp) as (A & B).
  exact (parse_commented_script T (tops_text tops) (map snd tops) ns L' HT A B Hwf).
Qed.

(* what FiltersSet.tosieve writes: for each item the extra white space, its comment lines, then its tree *)
Definition xitem := (bytes * (list bytes * node))%type.
Definition set_text (f : nat) (items : list xitem) : bytes :=
  concat (map (fun x => fst x ++ concat (map (fun c => c ++ [10%N]) (fst (snd x))) ++ tosieve f (snd (snd x)) 0) items).

Definition top_canon (x : xtop) (y : xitem) : Prop :=
  fst x = fst y /\ fst (snd x) = fst (snd y) /\ canon_cmd (snd (snd x)) (snd (snd y)).

Lemma cms_text : forall cms w R, cms <> [] ->
  w ++ concat (map (fun c => c ++ [10%N]) cms) ++ R = lrender (lt_cms w cms) ++ 10%N :: R.
Proof.
  induction cms as [|x r IH]; intros w R Hne; [congruence|].
  cbn [map concat lt_cms lrender]. destruct r as [|y r2].
  - cbn [map concat lt_cms lrender app]. rewrite <- !app_assoc. reflexivity.
  - rewrite <- !app_assoc. rewrite <- (IH [10%N] R) by discriminate. rewrite <- ?app_assoc. reflexivity.
Qed.

Definition tops_depth (tops : list xtop) : nat := fold_right (fun x m => Nat.max (dc (snd (snd x))) m) 0 tops.

Theorem set_layout : forall tops items f,
  Forall2 top_canon tops items -> tops <> [] -> tops_depth tops <= f ->
  set_text f items = tops_text tops.
Proof.
  intros tops items f H Hne Hd. unfold tops_text, tops_depth in *.
  assert (G : forall w, tops <> [] -> w ++ set_text f items = lrender (lt_tops w tops) ++ [10%N]); [|exact (G [] Hne)].
  clear Hne. induction H as [|[ex [cms c]] [ex' [cms' n]] tops items [He [Hc Hn]] Hr IH]; intros w Hne; [congruence|].
  cbn [fst snd] in *. subst ex' cms'. cbn [fold_right fst snd] in Hd.
  assert (Tl : [10%N] ++ set_text f items = lrender (lt_tops [10%N] tops) ++ [10%N]).
  { destruct Hr as [|t0 i0 tops0 items0 H0 Hr0]; [reflexivity|]. apply IH; [lia|discriminate]. }
  unfold set_text. cbn [map concat fst snd]. fold (set_text f items).
  cbn [lt_tops fst snd]. unfold lt_top. cbn [fst snd]. rewrite !lrender_app.
  destruct cms as [|c1 cr].
  - cbn [map concat lt_cms lrender app].
    rewrite <- !app_assoc. rewrite (app_assoc w ex), (app_assoc (w ++ ex)).
    rewrite (cmd_layout c n Hn f 0 (w ++ ex) ltac:(lia)), <- !app_assoc, Tl. reflexivity.
  - rewrite <- !app_assoc. rewrite (app_assoc w ex). rewrite (cms_text (c1 :: cr) (w ++ ex) _ ltac:(discriminate)).
    f_equal.
    change (10%N :: tosieve f n 0 ++ set_text f items) with (([10%N] ++ tosieve f n 0) ++ set_text f items).
    rewrite (cmd_layout c n Hn f 0 [10%N] ltac:(lia)), <- !app_assoc, Tl. reflexivity.
Qed.

(* the text FiltersSet.tosieve writes for trees that stand for a commented script parses to the tree of that
   script, every comment attached (stripped) to the command it precedes *)
Theorem set_parses : forall T tops items ns L' f,
  twf_tables T = true -> wf_tops T [] None (map snd tops) ns L' ->
  Forall2 top_canon tops items ->
  Forall (fun x => all_space (fst x) /\ Forall hash_ok (fst (snd x))) tops -> tops <> [] ->
  tops_depth tops <= f ->
  parse T (set_text f items) = Accept ns.
Proof.
  intros T tops items ns L' f HT Hwf Hc Hh Hne Hf.
  rewrite (set_layout tops items f Hc Hne Hf).
  apply (tops_parse T tops ns L' HT Hwf).
  clear Hwf Hne Hf. induction Hc as [|x y tops items [_ [_ H0]] Hr IHr]; [constructor|].
  inversion Hh as [|x' r' [Hx1 Hx2] Hr']; subst.
  constructor; [split; [exact Hx1|split; [exact Hx2|apply (canon_cmd_pr _ _ H0)]]|apply IHr; exact Hr'].
Qed.

Print Assumptions set_parses.

End Sep.

(* the separator of Command.tosieve for trees built by the parser: a blank after every comma *)
Definition std_sep : bytes -> bytes := fun _ => [32%N].
Lemma std_sep_space : forall name, all_space (std_sep name).
Proof. reflexivity. Qed.
