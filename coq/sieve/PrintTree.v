(* PrintTree.v — the print/parse round trip on trees (C04).

   Part 1: a layout of the tokens of a script (the one Command.tosieve uses: one command per line, four
   spaces per nesting level, ", " inside lists) is lexed back as exactly the tokens of the script; with
   [CompleteTree.parse_script], its text parses to exactly the tree of the script.
   Part 2: the model of Command.tosieve (Printer.v) produces that layout for the trees of scripts whose
   arguments are written in definition order. *)
From Coq Require Import List NArith Bool Arith Lia.
From SV Require Import lib.Bytes sieve.Lexer sieve.Tables sieve.ArgCheck sieve.ArgSpec sieve.Machine sieve.Printer
  sieve.ArgCheckFacts sieve.PositionFacts sieve.TotalFacts sieve.LexerFacts sieve.CompleteFacts sieve.CompleteTree
  sieve.RenderFacts.
Import ListNotations.

Definition sp (n : nat) : bytes := spaces n.

Lemma sp_space : forall n, all_space (sp n).
Proof. induction n as [|n IH]; [reflexivity|]. unfold all_space, sp, spaces in *. cbn. exact IH. Qed.

(* ---------------------------------------------------------------- layout *)

Fixpoint lt_items (w : bytes) (items : list bytes) : list ltok :=
  match items with
  | [] => []
  | v :: r => (w, TString, v) :: match r with [] => [] | _ => ([], TComma, [44%N]) :: lt_items [32%N] r end
  end.

Definition lt_arg (w : bytes) (a : argument) : list ltok :=
  match a with
  | (TyStringList, VList items) => (w, TLeftBracket, [91%N]) :: lt_items [] items ++ [([], TRightBracket, [93%N])]
  | (TyString, VStr s) => [(w, TString, s)]
  | (TyNumber, VStr s) => [(w, TNumber, s)]
  | (TyTag, VStr s) => [(w, TTag, s)]
  | _ => []
  end.

Definition lt_args (args : list argument) : list ltok := flat_map (lt_arg [32%N]) args.

Fixpoint lt_test (ind : nat) (w : bytes) (t : gtest) : list ltok :=
  match t with
  | GSimple name args => (w, TIdentifier, name) :: lt_args args
  | GNot name t' => (w, TIdentifier, name) :: lt_test ind (32%N :: sp ind) t'
  | GList name ts =>
      (w, TIdentifier, name) :: ([32%N], TLeftParen, [40%N]) ::
      (fix go (w1 : bytes) (l : list gtest) : list ltok :=
         match l with
         | [] => []
         | [x] => lt_test 0 w1 x
         | x :: r => lt_test 0 w1 x ++ ([], TComma, [44%N]) :: go [32%N] r
         end) [] ts ++ [([], TRightParen, [41%N])]
  end.

Fixpoint lt_tests (w1 : bytes) (l : list gtest) : list ltok :=
  match l with
  | [] => []
  | [x] => lt_test 0 w1 x
  | x :: r => lt_test 0 w1 x ++ ([], TComma, [44%N]) :: lt_tests [32%N] r
  end.

Lemma lt_test_list : forall ind w name ts,
  lt_test ind w (GList name ts) =
  (w, TIdentifier, name) :: ([32%N], TLeftParen, [40%N]) :: lt_tests [] ts ++ [([], TRightParen, [41%N])].
Proof. reflexivity. Qed.

Fixpoint lt_cmd (ind : nat) (w : bytes) (c : gcmd) : list ltok :=
  match c with
  | GAct name args => (w ++ sp ind, TIdentifier, name) :: lt_args args ++ [([], TSemicolon, [59%N])]
  | GCtl name t body =>
      (w ++ sp ind, TIdentifier, name) :: lt_test ind (32%N :: sp ind) t ++ ([32%N], TLeftCBracket, [123%N]) ::
      flat_map (lt_cmd (ind + 4) [10%N]) body ++ [(10%N :: sp ind, TRightCBracket, [125%N])]
  | GElse name body =>
      (w ++ sp ind, TIdentifier, name) :: ([32%N], TLeftCBracket, [123%N]) ::
      flat_map (lt_cmd (ind + 4) [10%N]) body ++ [(10%N :: sp ind, TRightCBracket, [125%N])]
  end.

(* a sequence of commands: the first one directly after [w], the others on new lines *)
Definition lt_cmds (ind : nat) (w : bytes) (cs : list gcmd) : list ltok :=
  match cs with
  | [] => []
  | c :: r => lt_cmd ind w c ++ flat_map (lt_cmd ind [10%N]) r
  end.

(* ---------------------------------------------------------------- its tokens are the tokens of the script *)

Lemma ltoks_items : forall items w, ltoks (lt_items w items) = item_toks items.
Proof.
  induction items as [|v r IH]; intro w; [reflexivity|].
  cbn [lt_items item_toks]. destruct r as [|v2 r2]; [reflexivity|].
  cbn [ltoks map fst snd]. f_equal. f_equal. apply (IH [32%N]).
Qed.

Lemma ltoks_arg : forall w a, ltoks (lt_arg w a) = arg_toks a.
Proof.
  intros w [[] [s0|items|n0|ns0]]; try reflexivity.
  cbn [lt_arg arg_toks]. cbn [ltoks map fst snd]. f_equal.
  change (map (fun x : ltok => mk (snd (fst x)) (snd x)) (lt_items [] items ++ [([], TRightBracket, [93%N])]))
    with (ltoks (lt_items [] items ++ [([], TRightBracket, [93%N])])).
  rewrite ltoks_app, ltoks_items. reflexivity.
Qed.

Lemma ltoks_args : forall args, ltoks (lt_args args) = flat_map arg_toks args.
Proof.
  induction args as [|a r IH]; [reflexivity|].
  unfold lt_args in *. cbn [flat_map]. rewrite ltoks_app, ltoks_arg, IH. reflexivity.
Qed.

Lemma ltoks_test : forall t ind w, ltoks (lt_test ind w t) = toks_test t.
Proof.
  fix IH 1. intros t ind w. destruct t as [name args|name t'|name ts].
  - cbn [lt_test toks_test]. change (ltoks ((w, TIdentifier, name) :: lt_args args)) with (mk TIdentifier name :: ltoks (lt_args args)).
    rewrite ltoks_args. reflexivity.
  - cbn [lt_test toks_test].
    change (ltoks ((w, TIdentifier, name) :: lt_test ind (32%N :: sp ind) t'))
      with (mk TIdentifier name :: ltoks (lt_test ind (32%N :: sp ind) t')).
    rewrite IH. reflexivity.
  - rewrite lt_test_list, toks_test_list.
    change (ltoks ((w, TIdentifier, name) :: ([32%N], TLeftParen, [40%N]) :: lt_tests [] ts ++ [([], TRightParen, [41%N])]))
      with (mk TIdentifier name :: mk TLeftParen [40%N] :: ltoks (lt_tests [] ts ++ [([], TRightParen, [41%N])])).
    rewrite ltoks_app. f_equal. f_equal. f_equal.
    generalize (@nil N). induction ts as [|x r IHr]; intro w1; [reflexivity|].
    cbn [lt_tests toks_tests]. destruct r as [|y r']; [apply IH|].
    rewrite ltoks_app, IH. f_equal.
    change (ltoks (([], TComma, [44%N]) :: lt_tests [32%N] (y :: r'))) with (mk TComma [44%N] :: ltoks (lt_tests [32%N] (y :: r'))).
    f_equal. apply IHr.
Qed.

Lemma ltoks_cons : forall w k v l, ltoks ((w, k, v) :: l) = mk k v :: ltoks l.
Proof. reflexivity. Qed.

Lemma ltoks_cmd : forall c ind w, ltoks (lt_cmd ind w c) = toks_cmd c.
Proof.
  fix IH 1. intros c ind w.
  assert (Hbody : forall body i, ltoks (flat_map (lt_cmd i [10%N]) body) = flat_map toks_cmd body).
  { induction body as [|x r IHr]; intro i; [reflexivity|]. cbn [flat_map]. rewrite ltoks_app, IH, IHr. reflexivity. }
  destruct c as [name args|name t body|name body]; cbn [lt_cmd toks_cmd].
  - rewrite ltoks_cons, ltoks_app, ltoks_args. reflexivity.
  - rewrite ltoks_cons, ltoks_app, ltoks_test, ltoks_cons, ltoks_app, Hbody. reflexivity.
  - rewrite !ltoks_cons, ltoks_app, Hbody. reflexivity.
Qed.

Lemma ltoks_cmds : forall cs ind w, ltoks (lt_cmds ind w cs) = flat_map toks_cmd cs.
Proof.
  intros [|c r] ind w; [reflexivity|]. unfold lt_cmds. cbn [flat_map]. rewrite ltoks_app, ltoks_cmd. f_equal.
  induction r as [|x r IHr]; [reflexivity|]. cbn [flat_map]. rewrite ltoks_app, ltoks_cmd, IHr. reflexivity.
Qed.

(* ---------------------------------------------------------------- printable scripts *)

Definition arg_pr (a : argument) : Prop :=
  match a with
  | (TyStringList, VList items) => items <> [] /\ Forall exact_string items
  | (TyString, VStr s) => exact_string s
  | (TyNumber, VStr s) => num_ok s
  | (TyTag, VStr s) => tag_ok s = true
  | _ => False
  end.

Inductive test_pr : gtest -> Prop :=
| pr_simple : forall name args, ident_ok name = true -> Forall arg_pr args -> test_pr (GSimple name args)
| pr_not : forall name t, ident_ok name = true -> test_pr t -> test_pr (GNot name t)
| pr_list : forall name ts, ident_ok name = true -> ts <> [] -> Forall test_pr ts -> test_pr (GList name ts).

Inductive cmd_pr : gcmd -> Prop :=
| pr_act : forall name args, ident_ok name = true -> Forall arg_pr args -> cmd_pr (GAct name args)
| pr_ctl : forall name t body, ident_ok name = true -> test_pr t -> Forall cmd_pr body -> cmd_pr (GCtl name t body)
| pr_else : forall name body, ident_ok name = true -> Forall cmd_pr body -> cmd_pr (GElse name body).

(* ---------------------------------------------------------------- the layout is a well-formed rendering *)

Lemma space_nil : all_space []. Proof. reflexivity. Qed.
Lemma space_32 : all_space [32%N]. Proof. reflexivity. Qed.
Lemma space_10 : all_space [10%N]. Proof. reflexivity. Qed.
Lemma space_app : forall a b, all_space a -> all_space b -> all_space (a ++ b).
Proof. intros a b Ha Hb. unfold all_space in *. rewrite forallb_app, Ha, Hb. reflexivity. Qed.
Lemma space_cons32 : forall a, all_space a -> all_space (32%N :: a).
Proof. intros a H. exact (space_app [32%N] a space_32 H). Qed.
Lemma space_cons10 : forall a, all_space a -> all_space (10%N :: a).
Proof. intros a H. exact (space_app [10%N] a space_10 H). Qed.

Lemma delim_space_head : forall c w X, is_space c = true -> tail_delim ((c :: w) ++ X).
Proof. intros c w X H. cbn. unfold delim. rewrite H. reflexivity. Qed.

Lemma lchain_punct : forall w k c X, all_space w -> punct_of k = Some c -> lchain [(w, k, [c])] X.
Proof.
  intros w k c X Hw Hp. cbn [lchain]. split; [exact Hw|].
  split; [destruct k; inversion Hp; subst; eexists; split; reflexivity|].
  split; [destruct k; inversion Hp; exact I|exact I].
Qed.

Lemma lchain_items : forall items w X,
  all_space w -> Forall exact_string items -> lchain (lt_items w items) X.
Proof.
  induction items as [|v r IH]; intros w X Hw Hall; [exact I|].
  inversion Hall as [|v' r' Hv Hr]; subst. cbn [lt_items lchain].
  split; [exact Hw|]. split; [exact Hv|]. split; [exact I|].
  destruct r as [|v2 r2]; [exact I|]. cbn [lchain].
  split; [exact space_nil|]. split; [exists 44%N; auto|]. split; [exact I|]. apply IH; [exact space_32|exact Hr].
Qed.

Lemma lt_arg_head : forall a, arg_pr a -> exists k v r, lt_arg [32%N] a = ([32%N], k, v) :: r.
Proof.
  intros [[] [s0|items|n0|ns0]] H; cbn in H; try contradiction; cbn [lt_arg]; eauto.
Qed.

Lemma lchain_arg : forall a w X,
  all_space w -> arg_pr a -> tail_delim X -> lchain (lt_arg w a) X.
Proof.
  intros [[] [s0|items|n0|ns0]] w X Hw H HX; cbn in H; try contradiction; cbn [lt_arg lchain lrender app];
    try (split; [exact Hw|]; split; [exact H|]; split; [first [exact HX|exact I]|exact I]).
  (* list *)
  destruct H as (Hne & Hall).
  split; [exact Hw|]. split; [exists 91%N; auto|]. split; [exact I|].
  apply lchain_app; [apply lchain_items; [exact space_nil|exact Hall]|].
  apply (lchain_punct [] TRightBracket 93%N); [exact space_nil|reflexivity].
Qed.

Lemma args_tail_delim : forall args X, Forall arg_pr args -> tail_delim X -> tail_delim (lrender (lt_args args) ++ X).
Proof.
  intros [|a r] X Hall HX; [exact HX|].
  inversion Hall as [|a' r' Ha Hr]; subst. unfold lt_args. cbn [flat_map].
  destruct (lt_arg_head a Ha) as (k & v & r0 & ->). cbn [app lrender]. apply delim_space_head. reflexivity.
Qed.

Lemma lchain_args : forall args X, Forall arg_pr args -> tail_delim X -> lchain (lt_args args) X.
Proof.
  induction args as [|a r IH]; intros X Hall HX; [exact I|].
  inversion Hall as [|a' r' Ha Hr]; subst. unfold lt_args in *. cbn [flat_map].
  apply lchain_app; [|apply IH; assumption].
  apply lchain_arg; [exact space_32|exact Ha|]. apply (args_tail_delim r X Hr HX).
Qed.

Lemma lt_test_head : forall t ind w, exists name r, lt_test ind w t = (w, TIdentifier, name) :: r.
Proof. intros [name args|name t'|name ts] ind w; cbn [lt_test]; eauto. Qed.

Lemma lchain_test : forall t ind w X,
  test_pr t -> all_space w -> tail_delim X -> lchain (lt_test ind w t) X.
Proof.
  fix IH 1. intros t ind w X Hp Hw HX. destruct t as [name args|name t'|name ts].
  - inversion Hp as [n a Hn Ha| |]; subst. cbn [lt_test lchain].
    split; [exact Hw|]. split; [exact Hn|]. split; [apply args_tail_delim; assumption|]. apply lchain_args; assumption.
  - inversion Hp as [|n t0 Hn Ht|]; subst. cbn [lt_test lchain].
    split; [exact Hw|]. split; [exact Hn|].
    split.
    { destruct (lt_test_head t' ind (32%N :: sp ind)) as (nm & r & ->). cbn [lrender app]. apply delim_space_head. reflexivity. }
    apply IH; [exact Ht|apply space_cons32; apply sp_space|exact HX].
  - inversion Hp as [| |n l Hn Hne Hall]; subst. rewrite lt_test_list. cbn [lchain lrender app].
    split; [exact Hw|]. split; [exact Hn|]. split; [reflexivity|].
    split; [exact space_32|]. split; [exists 40%N; auto|]. split; [exact I|].
    apply lchain_app; [|apply (lchain_punct [] TRightParen 41%N); [exact space_nil|reflexivity]].
    cbn [lrender app].
    assert (G : forall l w1 Y, Forall test_pr l -> all_space w1 -> tail_delim Y -> lchain (lt_tests w1 l) Y).
    { induction l as [|x r IHr]; intros w1 Y Hl Hw1 HY; [exact I|].
      inversion Hl as [|x' r' Hx Hr]; subst. cbn [lt_tests]. destruct r as [|y r2]; [apply IH; assumption|].
      apply lchain_app.
      - apply IH; [exact Hx|exact Hw1|]. reflexivity.
      - cbn [lchain]. split; [exact space_nil|]. split; [exists 44%N; auto|]. split; [exact I|].
        apply IHr; [exact Hr|exact space_32|exact HY]. }
    apply G; [exact Hall|exact space_nil|reflexivity].
Qed.

Lemma lchain_cmd : forall c ind w X, cmd_pr c -> all_space w -> lchain (lt_cmd ind w c) X.
Proof.
  fix IH 1. intros c ind w X Hp Hw.
  assert (Hbody : forall body i Y, Forall cmd_pr body -> lchain (flat_map (lt_cmd i [10%N]) body) Y).
  { induction body as [|x r IHr]; intros i Y Hb; [exact I|]. inversion Hb as [|x' r' Hx Hr]; subst.
    cbn [flat_map]. apply lchain_app; [apply IH; [exact Hx|exact space_10]|apply IHr; exact Hr]. }
  assert (Hclose : forall i Y, lchain [(10%N :: sp i, TRightCBracket, [125%N])] Y).
  { intros i Y. apply (lchain_punct _ TRightCBracket 125%N); [apply space_cons10; apply sp_space|reflexivity]. }
  destruct c as [name args|name t body|name body]; cbn [lt_cmd lchain].
  - inversion Hp as [n a Hn Ha| |]; subst.
    split; [apply space_app; [exact Hw|apply sp_space]|]. split; [exact Hn|].
    assert (Hsemi : forall Y, tail_delim (lrender [([], TSemicolon, [59%N])] ++ Y)) by (intro Y; reflexivity).
    split.
    { rewrite lrender_app, <- app_assoc. apply args_tail_delim; [exact Ha|apply Hsemi]. }
    apply lchain_app; [apply lchain_args; [exact Ha|apply Hsemi]|].
    apply (lchain_punct [] TSemicolon 59%N); [exact space_nil|reflexivity].
  - inversion Hp as [|n t0 b Hn Ht Hb|]; subst.
    split; [apply space_app; [exact Hw|apply sp_space]|]. split; [exact Hn|].
    split.
    { destruct (lt_test_head t ind (32%N :: sp ind)) as (nm & r & ->). cbn [lrender app]. apply delim_space_head. reflexivity. }
    apply lchain_app.
    + apply lchain_test; [exact Ht|apply space_cons32; apply sp_space|]. reflexivity.
    + cbn [lchain]. split; [exact space_32|]. split; [exists 123%N; auto|]. split; [exact I|].
      apply lchain_app; [apply Hbody; exact Hb|apply Hclose].
  - inversion Hp as [| |n b Hn Hb]; subst.
    split; [apply space_app; [exact Hw|apply sp_space]|]. split; [exact Hn|].
    split; [reflexivity|].
    split; [exact space_32|]. split; [exists 123%N; auto|]. split; [exact I|].
    apply lchain_app; [apply Hbody; exact Hb|apply Hclose].
Qed.

Lemma lchain_cmds : forall cs ind w X, Forall cmd_pr cs -> all_space w -> lchain (lt_cmds ind w cs) X.
Proof.
  intros [|c r] ind w X Hall Hw; [exact I|]. inversion Hall as [|c' r' Hc Hr]; subst. unfold lt_cmds.
  apply lchain_app; [apply lchain_cmd; assumption|].
  clear Hc Hall. induction r as [|x r IHr]; [exact I|]. inversion Hr as [|x' r'' Hx Hr']; subst.
  cbn [flat_map]. apply lchain_app; [apply lchain_cmd; [exact Hx|exact space_10]|].
  apply IHr. exact Hr'.
Qed.

(* the text of a script: its layout, then a final line feed *)
Definition script_text (cs : list gcmd) : bytes := lrender (lt_cmds 0 [] cs) ++ [10%N].

(* the layout is lexed back as the tokens of the script *)
Theorem layout_lexes : forall cs,
  Forall cmd_pr cs ->
  snd (lex (script_text cs)) = None /\ map strip_pos (fst (lex (script_text cs))) = flat_map toks_cmd cs.
Proof.
  intros cs Hp. unfold script_text.
  destruct (lex_lrender (lt_cmds 0 [] cs) [10%N] (lchain_cmds cs 0 [] [10%N] Hp space_nil) space_10) as (A & B).
  rewrite ltoks_cmds in B. auto.
Qed.

(* C04 on the layout: the text of a well-formed script parses to exactly its tree *)
Theorem layout_parses : forall T cs ns L',
  twf_tables T = true -> wf_cmds T [] None cs ns L' -> Forall cmd_pr cs ->
  parse T (script_text cs) = Accept ns.
Proof.
  intros T cs ns L' HT Hwf Hp. destruct (layout_lexes cs Hp) as (A & B).
  exact (parse_script T (script_text cs) cs ns L' HT A B Hwf).
Qed.

Print Assumptions layout_parses.
