(* RejectFacts.v — the rejection side of C01 and the "offending token" clause of C18, as theorems.

   For every prefix of a script of the grammar — complete commands, `if <test> {` / `else {` openers, nested to any
   depth (wf_prefix) — the machine stands between commands (prefix_ready).  From there, and from the positions
   inside a command that the prefix grammar reaches (after a control name, after the name of a command with some of
   its arguments), each class of offending token named by C01 / C18 stops the parse at THAT token, whatever
   follows it:
     - an unknown command, a command whose extension is not loaded (command position and test position);
     - a test in command position; a non-test in test position; no test where one must follow;
     - a token that cannot start a command (string, number, tag, bracket, comma, semicolon, '{');
     - '}' with no block open;
     - an argument the definition does not take, in the wrong order, of the wrong type, surplus, or a bad value of
       a tag's parameter (legal = LReject: ArgCheckFacts.argcheck_correct), at the token of that argument;
     - '{' after a command that takes no block; an identifier where ';' is missing.
   reject_after_prefix turns each into: parse = Reject e (position of that token) (length of that token). *)
From Coq Require Import String.
From Coq Require Import List NArith Bool Arith Lia.
From SV Require Import Bytes Lexer Tables ArgCheck ArgSpec Machine ArgCheckFacts PositionFacts TotalFacts CompleteFacts
  CompleteTree.
Import ListNotations.
Local Open Scope nat_scope.

Local Arguments check_next_arg : simpl never.
Local Arguments iscomplete : simpl never.
Local Arguments get_command_instance : simpl never.
Local Arguments check_completion : simpl never.
Local Arguments up : simpl never.
Local Arguments attach_into : simpl never.

(* ====================================================================================== *)
(* Part 0: a valid prefix, then a token the machine refuses                                *)
(* ====================================================================================== *)

(* the transition refuses the token with error e (a False return is reported as "unexpected token") *)
Definition stops (r : mres) (e : perr) : Prop :=
  r = MErr e \/ ((exists s, r = MFalse s) /\ e = EUnexpectedToken).

Lemma process_strip : forall T st t, process T st (strip_pos t) = process T st t.
Proof. intros T st [k v p]. reflexivity. Qed.

Lemma steps_then_reject : forall T pre st st' fuel t rest err endpos lastlen e,
  steps T st (map strip_pos pre) = Some st' -> stops (process T st' t) e -> length pre < fuel ->
  run_tokens fuel T (pre ++ t :: rest) err endpos lastlen st = Reject e (t_pos t) (length (t_val t)).
Proof.
  intros T. induction pre as [|x pre IH]; intros st st' fuel t rest err endpos lastlen e H Hstop Hf.
  - cbn in H. inversion H; subst st'. destruct fuel as [|f]; [lia|]. cbn [app]. rewrite run_tokens_S_cons.
    destruct Hstop as [-> |((s & ->) & ->)]; reflexivity.
  - destruct fuel as [|f]; [cbn in Hf; lia|]. cbn [app]. rewrite run_tokens_S_cons.
    cbn [map steps] in H. rewrite process_strip in H.
    destruct (process T st x); try discriminate.
    apply (IH _ _ f t rest err endpos (length (t_val x)) e H Hstop). cbn in Hf. lia.
Qed.

(* the lexer moves forward: every token (and a lexical error) lies at or after the end of the tokens before it *)
Lemma lex_all_order : forall fl pos l toks err,
  lex_all fl pos l = (toks, err) ->
  (forall t, In t toks -> pos <= t_pos t) /\ (forall p, err = Some p -> pos <= p) /\
  (forall a t b, toks = a ++ t :: b ->
     (forall u, In u b -> t_pos t + length (t_val t) <= t_pos u) /\
     (forall p, err = Some p -> t_pos t + length (t_val t) <= p)).
Proof.
  induction fl as [|f IH]; intros pos l toks err H.
  - cbn in H. inversion H; subst. split; [intros t []|]. split; [intros p E; inversion E; lia|].
    intros a t b E. destruct a; discriminate.
  - cbn [lex_all] in H. destruct (next_token pos l) as [|t after|p0] eqn:E.
    + inversion H; subst. split; [intros t []|]. split; [discriminate|]. intros a t b E'. destruct a; discriminate.
    + destruct (lex_all f (t_pos t + length (t_val t)) after) as [ts e] eqn:E2. inversion H; subst toks err. clear H.
      destruct (next_token_progress _ _ _ _ E) as (_ & _ & P3 & P4 & _).
      destruct (IH _ _ _ _ E2) as (I1 & I2 & I3).
      split; [intros u [<-|Hu]; [exact P4|specialize (I1 u Hu); lia]|].
      split; [intros p Hp; specialize (I2 p Hp); lia|].
      intros a u b Eq. destruct a as [|x a]; cbn [app] in Eq; inversion Eq; subst.
      * split; [intros w Hw; apply (I1 w Hw)|intros p Hp; apply (I2 p Hp)].
      * apply (I3 a u b eq_refl).
    + inversion H; subst. split; [intros t []|].
      destruct (next_token_err _ _ _ E) as (k0 & K1 & _).
      split; [intros p Hp; inversion Hp; lia|]. intros a t b E'. destruct a; discriminate.
Qed.

Lemma lex_order : forall text a t b,
  fst (lex text) = a ++ t :: b ->
  (forall u, In u b -> t_pos t < t_pos u) /\ (forall p, snd (lex text) = Some p -> t_pos t < p).
Proof.
  intros text a t b H. unfold lex in *.
  destruct (lex_all (S (length text)) 0 text) as [toks err] eqn:E. cbn [fst snd] in *.
  destruct (lex_all_order _ _ _ _ _ E) as (_ & _ & I3).
  destruct (I3 a t b H) as (J1 & J2).
  assert (Hin : In t toks) by (rewrite H; apply in_or_app; right; left; reflexivity).
  assert (Hlen : 1 <= length (t_val t)).
  { pose proof (lex_token_at text t) as X. unfold lex in X. rewrite E in X. apply X. exact Hin. }
  split; [intros u Hu; specialize (J1 u Hu); lia|intros p Hp; specialize (J2 p Hp); lia].
Qed.

(* the tokens the machine takes are consumed: the run goes on from the state they lead to *)
Lemma steps_then_run : forall T pre st st' fuel rest err endpos lastlen,
  steps T st (map strip_pos pre) = Some st' -> length pre < fuel ->
  exists ll, run_tokens fuel T (pre ++ rest) err endpos lastlen st =
             run_tokens (fuel - length pre) T rest err endpos ll st'.
Proof.
  intros T. induction pre as [|x pre IH]; intros st st' fuel rest err endpos lastlen H Hf.
  - cbn in H. inversion H; subst st'. exists lastlen. cbn [app length]. rewrite Nat.sub_0_r. reflexivity.
  - destruct fuel as [|f]; [cbn in Hf; lia|]. cbn [app]. rewrite run_tokens_S_cons.
    cbn [map steps] in H. rewrite process_strip in H.
    destruct (process T st x); try discriminate.
    destruct (IH _ _ f rest err endpos (length (t_val x)) H ltac:(cbn in Hf; lia)) as (ll & E).
    exists ll. rewrite E. reflexivity.
Qed.

Theorem reject_after_prefix : forall T text pre t rest st e,
  fst (lex text) = pre ++ t :: rest ->
  steps T p_init (map strip_pos pre) = Some st -> stops (process T st t) e ->
  parse T text = Reject e (t_pos t) (length (t_val t)).
Proof.
  intros T text pre t rest st e Hl Hs Hstop.
  rewrite parse_run_tokens, Hl.
  apply (steps_then_reject T pre p_init st _ t rest _ _ _ e Hs Hstop).
  pose proof (token_count text) as Hc. rewrite Hl, app_length in Hc. cbn in Hc. lia.
Qed.

(* ====================================================================================== *)
(* Part 1: offending tokens between commands                                               *)
(* ====================================================================================== *)

Section Between.
  Variable T : tables.

  (* an identifier that names no usable command: unknown, or its extension is not loaded *)
  Lemma cmd_unknown : forall st t e,
    ready st -> t_kind t = TIdentifier -> get_command_instance T (p_loaded st) (t_val t) = inr e ->
    stops (process T st t) e.
  Proof.
    intros st t e (Hc & He & _) Hk Hg. left.
    unfold process. rewrite Hk, He. unfold m_command. rewrite Hc, Hk, Hg. reflexivity.
  Qed.

  (* a test where a command must start *)
  Lemma cmd_is_test : forall st t d,
    ready st -> t_kind t = TIdentifier -> get_command_instance T (p_loaded st) (t_val t) = inl d -> d_type d = CTest ->
    stops (process T st t) (EFirstCommand (d_name d)).
  Proof.
    intros st t d (Hc & He & _) Hk Hg Hty. left.
    unfold process. rewrite Hk, He. unfold m_command. rewrite Hc, Hk, Hg, Hty. reflexivity.
  Qed.

  (* a token that cannot start a command *)
  Definition starts_nothing (k : tkind) : bool :=
    match k with
    | TIdentifier | TRightCBracket | THashComment | TBracketComment => false
    | _ => true
    end.

  Lemma cmd_bad_token : forall st t,
    ready st -> starts_nothing (t_kind t) = true -> stops (process T st t) EUnexpectedToken.
  Proof.
    intros st t (Hc & He & _) Hk. right. split; [|reflexivity]. exists st.
    unfold process. rewrite He. unfold m_command. rewrite Hc.
    destruct (t_kind t); try discriminate; reflexivity.
  Qed.

  (* '}' with no block open (or closing something else) *)
  Lemma cmd_stray_rcb : forall st t,
    ready st -> t_kind t = TRightCBracket ->
    match p_brackets st with BRCBracket :: _ => False | _ => True end ->
    exists e, (e = EBracketNone \/ e = EBracketMismatch) /\ stops (process T st t) e.
  Proof.
    intros st t (Hc & He & _) Hk Hb.
    unfold process. rewrite Hk, He. unfold m_command. rewrite Hc, Hk. unfold pop_bracket.
    destruct (p_brackets st) as [|[] b]; try contradiction.
    - exists EBracketNone. split; [auto|left; reflexivity].
    - exists EBracketMismatch. split; [auto|left; reflexivity].
    - exists EBracketMismatch. split; [auto|left; reflexivity].
  Qed.
End Between.

(* ====================================================================================== *)
(* Part 2: the prefixes of scripts of the grammar                                          *)
(* ====================================================================================== *)

Section Prefix.
  Variable T : tables.
  Hypothesis HT : twf_tables T = true.

  (* `name <test> {` : the machine stands between commands inside the new block *)
  Lemma open_ctl : forall L name d a t nt st,
    get_command_instance T L name = inl d -> d_type d = CControl -> d_accept_children d = true ->
    d_args d = [a] -> is_t1 a = true -> wf_test T L t nt ->
    ready st -> p_loaded st = L ->
    exists stD, steps T st (mk TIdentifier name :: toks_test t ++ [tk_lcb]) = Some stD /\
                ready stD /\ p_loaded stD = L /\ prev_name (place_of stD) = None /\
                p_brackets stD = BRCBracket :: p_brackets st /\
                exists C, p_stack stD = C :: p_stack st /\ f_def C = d /\ p_result stD = p_result st.
  Proof.
    intros L name d a t nt st Hg Hty Hch Ha Ht1 Hwt Hr Hl.
    pose proof (run_test T L HT t nt Hwt) as IHt.
    pose proof Hr as (Hc & He & Ho).
    assert (Htw : twf d = true) by (eapply gci_twf; eauto).
    destruct (slot_facts d a Htw Ha (or_introl Ht1)) as (Hreq & Hnv & Hnoex & Hts & Hv1 & _).
    set (S0 := p_stack st) in *.
    set (C := new_frame d (at_in S0)).
    set (stC := with_cstate CArgs (with_stack (C :: S0) (with_expected (Some [TIdentifier]) st))).
    assert (P0 : process T st (mk TIdentifier name) = MTrue stC).
    { rewrite (push_cmd T st name d Hr); [|rewrite Hl; exact Hg|congruence]. rewrite Hty, Hch. unfold has_arguments.
      rewrite Ha. reflexivity. }
    destruct (cna_t1_new L d (at_in S0) a Htw Ha Ht1) as (C1 & EC & HcC1 & HdC1 & HaC1 & HargsC1 & HexC1 & HchC1 & HfC1).
    fold C in EC.
    assert (HfC : fi C) by (apply fi_new_frame; exact Htw).
    assert (HlC : p_loaded stC = L) by (unfold stC; pcbn; exact Hl).
    destruct (IHt stC C S0 C1 a eq_refl eq_refl ltac:(unfold stC; pcbn; reflexivity) HlC HfC EC)
      as (F & stX & PX & CX & VX & UX & FX & AX & NX & TX & KX).
    rewrite (t1_not_tl a Ht1) in AX.
    set (C2 := attach_into F C1).
    assert (HC2 : fi C2 /\ f_def C2 = d /\ f_attach C2 = at_in S0 /\ iscomplete C2 None = true /\ f_children C2 = []).
    { destruct (fi_attach F C1 HfC1) as (B1 & B2 & B3 & B4 & B5 & B6).
      { rewrite AX, HdC1. exact Hts. }
      fold C2 in B1, B2, B3, B4, B5, B6.
      split; [exact B1|]. split; [congruence|]. split; [congruence|].
      split; [rewrite (iscomplete_ext C1 C2 None B2 B4 B5); exact HcC1|].
      unfold C2, attach_into. rewrite AX. unfold set_arg. cbn. exact HchC1. }
    destruct HC2 as (G1 & G2 & G3 & G4 & G7).
    assert (HctlC2 : is_control C2 = true) by (unfold is_control; rewrite G2, Hty; reflexivity).
    assert (HntC2 : is_test C2 = false) by (unfold is_test; rewrite G2, Hty; reflexivity).
    assert (Hleave : exists stB, leave (kind_of t) F (C1 :: S0) stX = MTrue stB /\ p_stack stB = C2 :: S0 /\
                       p_cstate stB = CArgs /\ passes (p_expected stB) TLeftCBracket /\ same_env stX stB).
    { unfold leave. destruct (kind_of t) eqn:Ek.
      - cbn [cc_loop]. fold C2. rewrite HctlC2, G4. cbn [orb].
        eexists. split; [reflexivity|]. pcbn. split; [reflexivity|]. split; [exact CX|]. split; [reflexivity|].
        unfold same_env. pcbn. auto.
      - fold C2. rewrite up_loop_eq, HntC2. cbn [andb].
        eexists. split; [reflexivity|]. pcbn. split; [reflexivity|]. split; [exact CX|]. split; [exact I|].
        unfold same_env. pcbn. auto. }
    destruct Hleave as (stB & HLB & SB & CB & EB & VB).
    assert (Hvv : same_env st stB).
    { apply (same_env_trans st stC stB); [unfold same_env, stC; pcbn; auto|]. apply (same_env_trans _ _ _ VX VB). }
    destruct Hvv as (V1 & V2 & V3 & V4).
    assert (Hnd : d_non_deterministic_args (f_def C2) = false) by (rewrite G2; apply twf_children_det; assumption).
    pose proof (process_lcb T stB C2 S0 SB CB EB HctlC2 ltac:(rewrite G2; exact Hch) G4 Hnd) as PL.
    set (stD := with_cstate CNone (with_brackets (BRCBracket :: p_brackets stB) (with_expected None stB))) in *.
    exists stD. cbn [steps]. rewrite P0, steps_app, PX, HLB. cbn [ostep steps]. rewrite PL.
    split; [reflexivity|].
    split; [unfold ready, stD; pcbn; rewrite SB; split; [reflexivity|]; split; [reflexivity|]; split; [rewrite G2; exact Hch|exact HntC2]|].
    split; [unfold stD; pcbn; congruence|].
    split; [unfold place_of, stD; pcbn; rewrite SB; cbn; rewrite G7; reflexivity|].
    split; [unfold stD; pcbn; rewrite V1; reflexivity|].
    exists C2. unfold stD. pcbn. rewrite SB, V4. auto.
  Qed.

  (* `name <test>` with a test that ends without a parenthesis: the control is complete and waits for its block *)
  Lemma ctl_test_done : forall L name d a t nt st,
    get_command_instance T L name = inl d -> d_type d = CControl -> d_accept_children d = true ->
    d_args d = [a] -> is_t1 a = true -> wf_test T L t nt -> kind_of t = Kcc ->
    ready st -> p_loaded st = L ->
    exists stB, steps T st (mk TIdentifier name :: toks_test t) = Some stB /\ p_expected stB = Some [TLeftCBracket].
  Proof.
    intros L name d a t nt st Hg Hty Hch Ha Ht1 Hwt Hkc Hr Hl.
    pose proof (run_test T L HT t nt Hwt) as IHt.
    pose proof Hr as (Hc & He & Ho).
    assert (Htw : twf d = true) by (eapply gci_twf; eauto).
    destruct (slot_facts d a Htw Ha (or_introl Ht1)) as (Hreq & Hnv & Hnoex & Hts & Hv1 & _).
    set (S0 := p_stack st) in *.
    set (C := new_frame d (at_in S0)).
    set (stC := with_cstate CArgs (with_stack (C :: S0) (with_expected (Some [TIdentifier]) st))).
    assert (P0 : process T st (mk TIdentifier name) = MTrue stC).
    { rewrite (push_cmd T st name d Hr); [|rewrite Hl; exact Hg|congruence]. rewrite Hty, Hch. unfold has_arguments.
      rewrite Ha. reflexivity. }
    destruct (cna_t1_new L d (at_in S0) a Htw Ha Ht1) as (C1 & EC & HcC1 & HdC1 & HaC1 & HargsC1 & HexC1 & HchC1 & HfC1).
    fold C in EC.
    assert (HfC : fi C) by (apply fi_new_frame; exact Htw).
    assert (HlC : p_loaded stC = L) by (unfold stC; pcbn; exact Hl).
    destruct (IHt stC C S0 C1 a eq_refl eq_refl ltac:(unfold stC; pcbn; reflexivity) HlC HfC EC)
      as (F & stX & PX & CX & VX & UX & FX & AX & NX & TX & KX).
    rewrite (t1_not_tl a Ht1) in AX.
    set (C2 := attach_into F C1).
    assert (HC2 : fi C2 /\ f_def C2 = d /\ f_attach C2 = at_in S0 /\ iscomplete C2 None = true /\ f_children C2 = []).
    { destruct (fi_attach F C1 HfC1) as (B1 & B2 & B3 & B4 & B5 & B6).
      { rewrite AX, HdC1. exact Hts. }
      fold C2 in B1, B2, B3, B4, B5, B6.
      split; [exact B1|]. split; [congruence|]. split; [congruence|].
      split; [rewrite (iscomplete_ext C1 C2 None B2 B4 B5); exact HcC1|].
      unfold C2, attach_into. rewrite AX. unfold set_arg. cbn. exact HchC1. }
    destruct HC2 as (G1 & G2 & G3 & G4 & G7).
    assert (HctlC2 : is_control C2 = true) by (unfold is_control; rewrite G2, Hty; reflexivity).
    assert (HntC2 : is_test C2 = false) by (unfold is_test; rewrite G2, Hty; reflexivity).
    unfold leave in PX. rewrite Hkc in PX. cbn [cc_loop] in PX. fold C2 in PX. rewrite HctlC2, G4 in PX. cbn [orb ostep] in PX.
    eexists. split; [cbn [steps]; rewrite P0; exact PX|]. reflexivity.
  Qed.

  (* `name {` for a control without arguments (else) *)
  Lemma open_else : forall L name d st,
    get_command_instance T L name = inl d -> d_type d = CControl -> d_accept_children d = true ->
    d_args d = [] -> ready st -> p_loaded st = L ->
    exists stD, steps T st [mk TIdentifier name; tk_lcb] = Some stD /\
                ready stD /\ p_loaded stD = L /\ prev_name (place_of stD) = None /\
                p_brackets stD = BRCBracket :: p_brackets st /\
                exists C, p_stack stD = C :: p_stack st /\ f_def C = d /\ p_result stD = p_result st.
  Proof.
    intros L name d st Hg Hty Hch Ha Hr Hl.
    pose proof Hr as (Hc & He & Ho).
    assert (Htw : twf d = true) by (eapply gci_twf; eauto).
    set (S0 := p_stack st) in *.
    set (C := new_frame d (at_in S0)).
    set (stC := with_cstate CArgs (with_stack (C :: S0) st)).
    assert (P0 : process T st (mk TIdentifier name) = MTrue stC).
    { rewrite (push_cmd T st name d Hr); [|rewrite Hl; exact Hg|congruence]. rewrite Hty, Hch. unfold has_arguments.
      rewrite Ha. reflexivity. }
    assert (Hnts : has_test_slot d = false) by (unfold has_test_slot; rewrite Ha; reflexivity).
    assert (Hcomp : iscomplete C None = true).
    { unfold iscomplete, C. cbn. rewrite (twf_no_test_slot d Htw Hnts). unfold required_args. rewrite Ha. reflexivity. }
    assert (Hctl : is_control C = true) by (unfold is_control, C; cbn; rewrite Hty; reflexivity).
    assert (HntC : is_test C = false) by (unfold is_test, C; cbn; rewrite Hty; reflexivity).
    assert (Hnd : d_non_deterministic_args (f_def C) = false) by (apply twf_children_det; assumption).
    pose proof (process_lcb T stC C S0 eq_refl eq_refl ltac:(unfold stC; pcbn; rewrite He; exact I) Hctl Hch Hcomp Hnd) as PL.
    set (stD := with_cstate CNone (with_brackets (BRCBracket :: p_brackets stC) (with_expected None stC))) in *.
    exists stD. cbn [steps]. rewrite P0, PL.
    split; [reflexivity|].
    split; [unfold ready, stD, stC; pcbn; split; [reflexivity|]; split; [reflexivity|]; split; [exact Hch|exact HntC]|].
    split; [unfold stD, stC; pcbn; exact Hl|].
    split; [unfold place_of, stD, stC; pcbn; reflexivity|].
    split; [unfold stD, stC; pcbn; reflexivity|].
    exists C. unfold stD, stC. pcbn. auto.
  Qed.

  (* prefixes: complete commands and block openers, nested to any depth.  wf_prefix toks L prev depth *)
  Inductive wf_prefix : list token -> list bytes -> option bytes -> nat -> Prop :=
  | wp_nil : wf_prefix [] [] None 0
  | wp_cmd : forall pre L prev k c n L',
      wf_prefix pre L prev k -> wf_cmd T L prev c n L' ->
      wf_prefix (pre ++ toks_cmd c) L' (Some (d_name (node_def n))) k
  | wp_open : forall pre L prev k name d a t nt,
      wf_prefix pre L prev k ->
      get_command_instance T L name = inl d -> d_type d = CControl -> d_accept_children d = true ->
      d_args d = [a] -> is_t1 a = true -> wf_test T L t nt ->
      wf_prefix (pre ++ mk TIdentifier name :: toks_test t ++ [tk_lcb]) L None (S k)
  | wp_open_else : forall pre L prev k name d,
      wf_prefix pre L prev k ->
      get_command_instance T L name = inl d -> d_type d = CControl -> d_accept_children d = true ->
      d_args d = [] ->
      wf_prefix (pre ++ [mk TIdentifier name; tk_lcb]) L None (S k).

  (* after such a prefix the machine stands between commands, with the extensions required so far, the name of the
     previous command of the block and k blocks open *)
  Theorem prefix_ready : forall pre L prev k,
    wf_prefix pre L prev k ->
    exists st, steps T p_init pre = Some st /\ ready st /\ p_loaded st = L /\ prev_name (place_of st) = prev /\
               length (p_brackets st) = k /\ Forall (fun b => b = BRCBracket) (p_brackets st).
  Proof.
    intros pre L prev k H. induction H as [|pre L prev k c n L' Hp IH Hc|pre L prev k name d a t nt Hp IH Hg Hty Hch Ha Ht1 Hwt
                                          |pre L prev k name d Hp IH Hg Hty Hch Ha].
    - exists p_init. unfold ready, p_init. cbn. repeat split; constructor.
    - destruct IH as (st & S1 & R1 & L1 & P1 & B1 & A1).
      destruct (run_cmds T HT L prev [c] [n] L' (wf_cons T _ _ _ _ _ _ _ _ Hc (wf_nil T _ _)) st R1 L1 P1)
        as (st' & S2 & C2 & E2 & L2 & B2 & PL2).
      cbn [flat_map] in S2. rewrite app_nil_r in S2. cbn [fold_left] in PL2.
      exists st'. rewrite steps_app, S1, S2.
      destruct R1 as (_ & _ & Ho).
      destruct (emit1_facts (place_of st) n Ho) as (Ho' & Hprev').
      split; [reflexivity|].
      assert (Hst : p_stack st' = fst (fst (emit1 (place_of st) n))) by (rewrite <- PL2; reflexivity).
      split; [unfold ready; rewrite Hst; auto|].
      split; [exact L2|]. split; [rewrite PL2; exact Hprev'|]. rewrite B2. auto.
    - destruct IH as (st & S1 & R1 & L1 & P1 & B1 & A1).
      destruct (open_ctl L name d a t nt st Hg Hty Hch Ha Ht1 Hwt R1 L1) as (stD & S2 & R2 & L2 & P2 & B2 & _).
      exists stD. rewrite steps_app, S1, S2. rewrite B2. cbn [length].
      split; [reflexivity|]. split; [exact R2|]. split; [exact L2|]. split; [exact P2|]. split; [congruence|]. constructor; [reflexivity|exact A1].
    - destruct IH as (st & S1 & R1 & L1 & P1 & B1 & A1).
      destruct (open_else L name d st Hg Hty Hch Ha R1 L1) as (stD & S2 & R2 & L2 & P2 & B2 & _).
      exists stD. rewrite steps_app, S1, S2. rewrite B2. cbn [length].
      split; [reflexivity|]. split; [exact R2|]. split; [exact L2|]. split; [exact P2|]. split; [congruence|]. constructor; [reflexivity|exact A1].
  Qed.
End Prefix.

(* ====================================================================================== *)
(* Part 3: offending tokens inside a command                                               *)
(* ====================================================================================== *)

Section Inside.
  Variable T : tables.

  Definition not_comment (k : tkind) : bool :=
    match k with THashComment | TBracketComment => false | _ => true end.

  (* a token of a kind other than the one(s) the machine waits for: "X found while Y expected" *)
  Lemma expected_mismatch : forall st t l,
    p_expected st = Some l -> kind_mem (t_kind t) l = false -> not_comment (t_kind t) = true ->
    stops (process T st t) EExpected.
  Proof.
    intros st t l He Hk Hc. left. unfold process.
    destruct (t_kind t); try discriminate; rewrite He, Hk; reflexivity.
  Qed.

  (* an identifier where an argument (or a test) may come: it must name a test *)
  Lemma ident_unknown : forall st t cur rest e,
    p_cstate st = CArgs -> p_stack st = cur :: rest -> passes (p_expected st) TIdentifier ->
    t_kind t = TIdentifier -> get_command_instance T (p_loaded st) (t_val t) = inr e ->
    stops (process T st t) e.
  Proof.
    intros st t cur rest e Hc Es Hp Hk Hg. left.
    assert (Hm : m_command T (with_expected None st) t = MErr e).
    { unfold m_command. pcbn. rewrite Hc. unfold m_arguments. rewrite Hk. pcbn. rewrite Es, Hg. reflexivity. }
    unfold process. rewrite Hk. destruct (p_expected st) as [l|] eqn:He.
    - cbn in Hp. rewrite Hp. exact Hm.
    - unfold m_command. rewrite Hc. unfold m_arguments. rewrite Hk, Es, Hg. reflexivity.
  Qed.

  Lemma ident_not_test : forall st t cur rest d,
    p_cstate st = CArgs -> p_stack st = cur :: rest -> passes (p_expected st) TIdentifier ->
    t_kind t = TIdentifier -> get_command_instance T (p_loaded st) (t_val t) = inl d -> d_type d <> CTest ->
    stops (process T st t) (ENotTest (d_name d)).
  Proof.
    intros st t cur rest d Hc Es Hp Hk Hg Hty. left.
    assert (Hm : forall st0, p_cstate st0 = CArgs -> p_stack st0 = cur :: rest -> p_loaded st0 = p_loaded st ->
                             m_command T st0 t = MErr (ENotTest (d_name d))).
    { intros st0 Hc0 Es0 Hl0. unfold m_command. rewrite Hc0. unfold m_arguments. rewrite Hk, Es0, Hl0, Hg.
      destruct (d_type d); try congruence; reflexivity. }
    unfold process. rewrite Hk. destruct (p_expected st) as [l|] eqn:He.
    - cbn in Hp. rewrite Hp. apply Hm; pcbn; auto.
    - apply Hm; auto.
  Qed.

  (* ---- arguments of a command that is neither a test nor the owner of a block *)

  Definition flat (f : frame) : bool := is_action f || (is_control f && negb (d_accept_children (f_def f))).

  Lemma cc_flat : forall st f rest ts,
    p_stack st = f :: rest -> flat f = true ->
    check_completion st ts = MTrue (if iscomplete f None && ts then with_expected (Some [TSemicolon]) st else st).
  Proof.
    intros st f rest ts Es Hf. unfold check_completion. rewrite Es. unfold flat in Hf.
    destruct (iscomplete f None); cbn [negb andb]; [|reflexivity]. rewrite Hf. reflexivity.
  Qed.

  Record at_args (st : pstate) (f : frame) (rest : list frame) : Prop := {
    aa_stack : p_stack st = f :: rest;
    aa_cstate : p_cstate st = CArgs;
    aa_expected : p_expected st = None \/ (p_expected st = Some [TSemicolon] /\ iscomplete f None = true);
    aa_flat : flat f = true;
    aa_fi : fi f
  }.

  Lemma arg_first_token : forall a, arg_ok a ->
    exists t more, arg_toks a = t :: more /\ not_comment (t_kind t) = true /\ kind_mem (t_kind t) [TSemicolon] = false.
  Proof.
    intros [ty v] H. destruct ty as [| | | | | |o]; destruct v as [x|l|n|ns]; cbn in H; try contradiction; cbn [arg_toks].
    - eexists. eexists. split; [reflexivity|]. cbn. auto.
    - eexists. eexists. split; [reflexivity|]. unfold mk. cbn [t_kind].
      destruct (str_kind_cases x) as [-> | ->]; cbn; auto.
    - eexists. eexists. split; [reflexivity|]. cbn. auto.
    - eexists. eexists. split; [reflexivity|]. cbn. auto.
  Qed.

  (* the closing bracket of a string list, whatever the table interpreter says *)
  Lemma process_rbracket : forall stB f rest b items,
    in_list stB f rest b items -> p_expected stB = Some [TComma; TRightBracket] ->
    process T stB (mk TRightBracket [93%N]) =
    let st1 := with_brackets b (with_expected None stB) in
    match check_next_arg f TyStringList (VList items) true true (p_loaded stB) with
    | CnaOk f1 _ => check_completion (with_cstate CArgs (replace_top f1 st1)) true
    | CnaFalse => MFalse st1
    | CnaErr e => MErr e
    | CnaCrash => MCrash
    end.
  Proof.
    intros stB f rest b items [EsB HcB HbB HlB] EB. cbv zeta.
    unfold process, mk. cbn [t_kind]. rewrite EB. cbn [kind_mem tkind_eqb orb].
    unfold m_command. pcbn. rewrite HcB. unfold m_stringlist. pcbn. cbn [t_kind]. rewrite EsB.
    unfold pop_bracket. pcbn. rewrite HbB. cbn [bracket_eqb].
    unfold lift_cna. pcbn. rewrite HlB.
    destruct (check_next_arg f TyStringList (VList items) true true (p_loaded stB)) as [f1 slot| | |]; try reflexivity.
    destruct (check_completion (with_cstate CArgs (replace_top f1 (with_brackets b (with_expected None stB)))) true); reflexivity.
  Qed.

  (* one string, number or tag that the current command (of any kind) does not take *)
  Lemma scalar_refused : forall st f rest t ty,
    cur_is st f rest ->
    (((t_kind t = TString \/ t_kind t = TMultiline) /\ ty = TyString /\ utf8_valid (t_val t) = true) \/
     (t_kind t = TNumber /\ ty = TyNumber) \/ (t_kind t = TTag /\ ty = TyTag)) ->
    match check_next_arg f ty (VStr (t_val t)) true true (p_loaded st) with
    | CnaFalse => stops (process T st t) EUnexpectedToken
    | CnaErr e => stops (process T st t) e
    | _ => True
    end.
  Proof.
    intros st f rest t ty [Es Hc He Hfi] Hk.
    assert (Hcmd : m_command T st t =
                   match check_next_arg f ty (VStr (t_val t)) true true (p_loaded st) with
                   | CnaOk f1 _ => check_completion (replace_top f1 st) false
                   | CnaFalse => MFalse st
                   | CnaErr e0 => MErr e0
                   | CnaCrash => MCrash
                   end).
    { unfold m_command. rewrite Hc. unfold m_arguments, m_argument. rewrite Es.
      destruct Hk as [([Ek|Ek] & -> & Hu)|[(Ek & ->)|(Ek & ->)]]; rewrite Ek; try rewrite Hu; cbn [negb]; unfold lift_cna;
        destruct (check_next_arg f _ (VStr (t_val t)) true true (p_loaded st)) as [f1 slot| | |]; try reflexivity;
        destruct (check_completion (replace_top f1 st) false); reflexivity. }
    assert (Hproc : process T st t = m_command T st t).
    { unfold process. rewrite He. destruct Hk as [([Ek|Ek] & _)|[(Ek & _)|(Ek & _)]]; rewrite Ek; reflexivity. }
    rewrite Hproc, Hcmd.
    destruct (check_next_arg f ty (VStr (t_val t)) true true (p_loaded st)); try exact I.
    - right. split; [eexists; reflexivity|reflexivity].
    - left. reflexivity.
  Qed.

  (* an argument list the table interpreter refuses: the machine stops at a token of one of the arguments *)
  Theorem args_stop : forall args st f rest e,
    at_args st f rest -> Forall arg_ok args -> feed f args (p_loaded st) = FStop e ->
    exists pre t more st' e',
      flat_map arg_toks args = pre ++ t :: more /\ steps T st pre = Some st' /\ stops (process T st' t) e'.
  Proof.
    induction args as [|a args IH]; intros st f rest e Haa Hall Hfeed; [discriminate|].
    inversion Hall as [|a' t' Ha Ht]; subst.
    destruct Haa as [Es Hc Hex Hflat Hfi].
    destruct Hex as [He|(He & _)].
    2:{ (* ';' is expected: the first token of the argument is refused *)
        destruct (arg_first_token a Ha) as (t0 & more0 & E0 & N0 & K0).
        exists [], t0, (more0 ++ flat_map arg_toks args), st, EExpected.
        cbn [flat_map app steps]. rewrite E0. split; [reflexivity|]. split; [reflexivity|].
        apply (expected_mismatch st t0 [TSemicolon] He K0 N0). }
    cbn [feed] in Hfeed.
    assert (Hscalar : forall k s ty,
              a = (ty, VStr s) -> arg_toks a = [mk k s] ->
              (((k = TString \/ k = TMultiline) /\ ty = TyString /\ utf8_valid s = true) \/ (k = TNumber /\ ty = TyNumber) \/ (k = TTag /\ ty = TyTag)) ->
              exists pre t more st' e',
                flat_map arg_toks (a :: args) = pre ++ t :: more /\ steps T st pre = Some st' /\ stops (process T st' t) e').
    { intros k s ty -> Etoks Hk. cbn [fst snd] in Hfeed.
      assert (Hproc : process T st (mk k s) =
                      match check_next_arg f ty (VStr s) true true (p_loaded st) with
                      | CnaOk f1 _ => check_completion (replace_top f1 st) false
                      | CnaFalse => MFalse st
                      | CnaErr e0 => MErr e0
                      | CnaCrash => MCrash
                      end).
      { assert (Hcmd : m_command T st (mk k s) =
                       match check_next_arg f ty (VStr s) true true (p_loaded st) with
                       | CnaOk f1 _ => check_completion (replace_top f1 st) false
                       | CnaFalse => MFalse st
                       | CnaErr e0 => MErr e0
                       | CnaCrash => MCrash
                       end).
        { unfold m_command. rewrite Hc. unfold m_arguments, m_argument. unfold mk. cbn [t_kind t_val]. rewrite Es.
          destruct Hk as [([->| ->] & -> & Hu)|[(-> & ->)|(-> & ->)]]; try rewrite Hu; cbn [negb]; unfold lift_cna;
            destruct (check_next_arg f _ (VStr s) true true (p_loaded st)) as [f1 slot| | |]; try reflexivity;
            destruct (check_completion (replace_top f1 st) false); reflexivity. }
        unfold process. unfold mk at 1. cbn [t_kind]. rewrite He.
        destruct Hk as [([->| ->] & _)|[(-> & _)|(-> & _)]]; exact Hcmd. }
      cbn [flat_map]. rewrite Etoks. cbn [app].
      destruct (check_next_arg f ty (VStr s) true true (p_loaded st)) as [f1 slot| | |] eqn:E; try discriminate.
      - (* taken: go on with the next argument *)
        assert (Hsh : shape_ok ty (VStr s)) by (apply (arg_ok_shape (ty, VStr s) Ha)).
        destruct (cna_keeps _ _ _ _ _ _ _ _ Hfi Hsh E) as (Hf1 & Hd1 & _ & _).
        assert (Hflat1 : flat f1 = true) by (unfold flat, is_action, is_control in *; rewrite Hd1; exact Hflat).
        assert (Es1 : p_stack (replace_top f1 st) = f1 :: rest) by (unfold replace_top; rewrite Es; reflexivity).
        rewrite (cc_flat (replace_top f1 st) f1 rest false Es1 Hflat1), andb_false_r in Hproc.
        assert (Haa1 : at_args (replace_top f1 st) f1 rest).
        { constructor; auto; unfold replace_top; rewrite Es; pcbn; auto. }
        assert (Hl1 : p_loaded (replace_top f1 st) = p_loaded st) by (unfold replace_top; rewrite Es; reflexivity).
        rewrite <- Hl1 in Hfeed.
        destruct (IH _ _ _ _ Haa1 Ht Hfeed) as (pre & t & more & st' & e' & E1 & S1 & X1).
        exists (mk k s :: pre), t, more, st', e'. rewrite E1. split; [reflexivity|].
        split; [cbn [steps]; rewrite Hproc; exact S1|exact X1].
      - exists [], (mk k s), (flat_map arg_toks args), st, EUnexpectedToken.
        split; [reflexivity|]. split; [reflexivity|]. right. split; [|reflexivity]. exists st. exact Hproc.
      - exists [], (mk k s), (flat_map arg_toks args), st, e0.
        split; [reflexivity|]. split; [reflexivity|]. left. exact Hproc. }
    destruct a as [ty v].
    destruct ty as [| | | | | |o]; destruct v as [x|l|n|ns]; cbn in Ha; try contradiction.
    - apply (Hscalar TTag x TyTag eq_refl eq_refl). right. right. split; reflexivity.
    - apply (Hscalar (str_kind x) x TyString eq_refl eq_refl). left. split; [apply str_kind_cases|]. split; [reflexivity|exact Ha].
    - (* a string list: '[' items ']' *)
      destruct Ha as (Hne & Hallu). cbn [fst snd] in Hfeed. cbn [flat_map arg_toks].
      set (stA := with_expected (Some [TString]) (with_curlist [] (with_cstate CStrList (with_brackets (BRBracket :: p_brackets st) st)))).
      assert (EsA : p_stack stA = f :: rest) by (unfold stA; pcbn; exact Es).
      assert (PA : process T st (mk TLeftBracket [91%N]) = MTrue stA).
      { unfold process, mk. cbn [t_kind]. rewrite He.
        unfold m_command. rewrite Hc. unfold m_arguments, m_argument. cbn [t_kind]. rewrite Es.
        fold stA. rewrite (cc_flat stA f rest false EsA Hflat), andb_false_r. reflexivity. }
      assert (IA : in_list stA f rest (p_brackets st) []) by (constructor; unfold stA; pcbn; auto).
      destruct (items_steps T l stA f rest (p_brackets st) [] Hne Hallu IA eq_refl) as (stB & PB & IB & EB & LB & HB & RB).
      cbn [app] in IB.
      pose proof (process_rbracket stB f rest (p_brackets st) l IB EB) as PC. cbv zeta in PC.
      assert (LB' : p_loaded stB = p_loaded st) by (rewrite LB; unfold stA; pcbn; reflexivity).
      rewrite LB' in PC.
      set (st1 := with_brackets (p_brackets st) (with_expected None stB)) in *.
      destruct (check_next_arg f TyStringList (VList l) true true (p_loaded st)) as [f1 slot| | |] eqn:E; try discriminate.
      + assert (Hsh : shape_ok TyStringList (VList l)) by (apply (arg_ok_shape (TyStringList, VList l)); cbn; auto).
        destruct (cna_keeps _ _ _ _ _ _ _ _ Hfi Hsh E) as (Hf1 & Hd1 & _ & _).
        assert (Hflat1 : flat f1 = true) by (unfold flat, is_action, is_control in *; rewrite Hd1; exact Hflat).
        destruct IB as [EsB HcB HbB HlB].
        set (stC := with_cstate CArgs (replace_top f1 st1)) in *.
        assert (EsC : p_stack stC = f1 :: rest) by (unfold stC, replace_top, st1; pcbn; rewrite EsB; reflexivity).
        rewrite (cc_flat stC f1 rest true EsC Hflat1), andb_true_r in PC.
        set (stN := if iscomplete f1 None then with_expected (Some [TSemicolon]) stC else stC) in *.
        assert (Haa1 : at_args stN f1 rest).
        { unfold stN. destruct (iscomplete f1 None) eqn:Eic; constructor; pcbn; auto;
            try (unfold stC, replace_top, st1; pcbn; rewrite EsB; pcbn; auto). }
        assert (Hl1 : p_loaded stN = p_loaded st).
        { unfold stN. destruct (iscomplete f1 None); pcbn; unfold stC, replace_top, st1; pcbn; rewrite EsB; pcbn; exact LB'. }
        rewrite <- Hl1 in Hfeed.
        destruct (IH _ _ _ _ Haa1 Ht Hfeed) as (pre & t & more & st' & e' & E1 & S1 & X1).
        exists (mk TLeftBracket [91%N] :: item_toks l ++ mk TRightBracket [93%N] :: pre), t, more, st', e'.
        split; [rewrite E1; cbn [app]; rewrite <- !app_assoc; reflexivity|].
        split; [|exact X1].
        cbn [steps]. rewrite PA, steps_app, PB. cbn [steps]. rewrite PC. exact S1.
      + exists (mk TLeftBracket [91%N] :: item_toks l), (mk TRightBracket [93%N]), (flat_map arg_toks args), stB, EUnexpectedToken.
        split; [cbn [app]; rewrite <- app_assoc; reflexivity|].
        split; [cbn [steps]; rewrite PA; exact PB|]. right. split; [|reflexivity]. eexists. exact PC.
      + exists (mk TLeftBracket [91%N] :: item_toks l), (mk TRightBracket [93%N]), (flat_map arg_toks args), stB, e0.
        split; [cbn [app]; rewrite <- app_assoc; reflexivity|].
        split; [cbn [steps]; rewrite PA; exact PB|]. left. exact PC.
    - apply (Hscalar TNumber x TyNumber eq_refl eq_refl). right. left. split; reflexivity.
  Qed.

  (* the positive run under the same invariant: legal arguments leave the machine at the command, ready for more *)
  Theorem args_run : forall args st f rest fN,
    at_args st f rest -> Forall arg_ok args -> feed f args (p_loaded st) = FOk fN ->
    exists st', steps T st (flat_map arg_toks args) = Some st' /\ at_args st' fN rest /\
                p_loaded st' = p_loaded st /\ p_brackets st' = p_brackets st.
  Proof.
    induction args as [|a args IH]; intros st f rest fN Haa Hall Hfeed.
    - cbn in Hfeed. inversion Hfeed; subst fN. exists st. cbn [flat_map steps]. auto.
    - inversion Hall as [|a' t' Ha Ht]; subst.
      destruct Haa as [Es Hc Hex Hflat Hfi].
      cbn [feed] in Hfeed.
      destruct (check_next_arg f (fst a) (snd a) true true (p_loaded st)) as [f1 slot| | |] eqn:E; try discriminate.
      pose proof (cna_ok_incomplete _ _ _ _ _ _ _ _ E) as Hinc.
      destruct Hex as [He|(_ & Hcomp)]; [|congruence].
      destruct (cna_keeps _ _ _ _ _ _ _ _ Hfi (arg_ok_shape a Ha) E) as (Hf1 & Hd1 & _ & _).
      assert (Hflat1 : flat f1 = true) by (unfold flat, is_action, is_control in *; rewrite Hd1; exact Hflat).
      assert (Hci : cur_is st f rest) by (constructor; assumption).
      destruct (one_arg_gen T st f rest a f1 slot Hci Ha E) as (stX & ts & P1 & S1 & C1 & E1 & V1).
      rewrite (cc_flat stX f1 rest ts S1 Hflat1) in P1. cbn [ostep] in P1.
      set (stN := if iscomplete f1 None && ts then with_expected (Some [TSemicolon]) stX else stX) in *.
      assert (Haa1 : at_args stN f1 rest).
      { unfold stN. destruct (iscomplete f1 None) eqn:Eic; destruct ts; cbn [andb]; constructor; pcbn; auto. }
      destruct V1 as (V1 & V2 & V3 & V4).
      assert (Hl1 : p_loaded stN = p_loaded st) by (unfold stN; destruct (iscomplete f1 None && ts); pcbn; exact V2).
      assert (Hb1 : p_brackets stN = p_brackets st) by (unfold stN; destruct (iscomplete f1 None && ts); pcbn; exact V1).
      rewrite <- Hl1 in Hfeed.
      destruct (IH stN f1 rest fN Haa1 Ht Hfeed) as (st' & S2 & A2 & L2 & B2).
      exists st'. cbn [flat_map]. rewrite steps_app, P1. split; [exact S2|]. split; [exact A2|]. split; congruence.
  Qed.

  (* ---- malformed string lists: after '[' a string must come, after a string ',' or ']', after ',' a string *)

  Definition list_open (st : pstate) : pstate :=
    with_expected (Some [TString]) (with_curlist [] (with_cstate CStrList (with_brackets (BRBracket :: p_brackets st) st))).

  Lemma open_list : forall st f rest,
    at_args st f rest -> p_expected st = None ->
    process T st (mk TLeftBracket [91%N]) = MTrue (list_open st).
  Proof.
    intros st f rest [Es Hc _ Hflat _] He.
    unfold process, mk. cbn [t_kind]. rewrite He.
    unfold m_command. rewrite Hc. unfold m_arguments, m_argument. cbn [t_kind]. rewrite Es.
    fold (list_open st).
    assert (EsA : p_stack (list_open st) = f :: rest) by (unfold list_open; pcbn; exact Es).
    rewrite (cc_flat (list_open st) f rest false EsA Hflat), andb_false_r. reflexivity.
  Qed.

  (* the tokens of a string list that is still open: items with commas, possibly a trailing comma *)
  Definition open_items (items : list bytes) (trailing_comma : bool) : list token :=
    item_toks items ++ (if trailing_comma then [mk TComma [44%N]] else []).

  Theorem malformed_list_stop : forall st f rest items tc t,
    at_args st f rest -> p_expected st = None ->
    Forall (fun s => utf8_valid s = true) items -> (items = [] -> tc = false) ->
    not_comment (t_kind t) = true ->
    (* what may come here: a string after '[' or ','; ',' or ']' after a string *)
    (if match items with [] => true | _ => tc end
     then kind_mem (t_kind t) [TString] = false
     else kind_mem (t_kind t) [TComma; TRightBracket] = false) ->
    exists st', steps T st (mk TLeftBracket [91%N] :: open_items items tc) = Some st' /\ stops (process T st' t) EExpected.
  Proof.
    intros st f rest items tc t Haa He Hall Htc Hnc Hbad.
    pose proof (open_list st f rest Haa He) as PA.
    destruct Haa as [Es Hc _ Hflat _].
    assert (IA : in_list (list_open st) f rest (p_brackets st) []) by (constructor; unfold list_open; pcbn; auto).
    unfold open_items. cbn [steps]. rewrite PA.
    destruct items as [|i0 items'].
    - rewrite (Htc eq_refl). cbn [item_toks app steps]. eexists. split; [reflexivity|].
      apply (expected_mismatch (list_open st) t [TString]); [reflexivity|exact Hbad|exact Hnc].
    - destruct (items_steps T (i0 :: items') (list_open st) f rest (p_brackets st) [] ltac:(discriminate) Hall IA eq_refl)
        as (stB & PB & IB & EB & LB & HB & RB).
      rewrite steps_app, PB.
      destruct tc.
      + (* after the comma a string is expected *)
        cbn [steps].
        assert (PCm : process T stB (mk TComma [44%N]) = MTrue (with_expected (Some [TString]) stB)).
        { destruct IB as [EsB HcB HbB HlB].
          unfold process, mk. cbn [t_kind]. rewrite EB. cbn [kind_mem tkind_eqb orb].
          unfold m_command. pcbn. rewrite HcB. unfold m_stringlist. pcbn. cbn [t_kind]. rewrite EsB. reflexivity. }
        rewrite PCm. eexists. split; [reflexivity|].
        apply (expected_mismatch _ t [TString]); [reflexivity|exact Hbad|exact Hnc].
      + cbn [steps]. eexists. split; [reflexivity|].
        apply (expected_mismatch stB t [TComma; TRightBracket] EB Hbad Hnc).
  Qed.

  (* the same for a command of any kind that still needs arguments (a test, a control) *)
  Theorem malformed_list_stop_incomplete : forall st f rest items tc t,
    cur_is st f rest -> iscomplete f None = false ->
    Forall (fun s => utf8_valid s = true) items -> (items = [] -> tc = false) ->
    not_comment (t_kind t) = true ->
    (if match items with [] => true | _ => tc end
     then kind_mem (t_kind t) [TString] = false
     else kind_mem (t_kind t) [TComma; TRightBracket] = false) ->
    exists st', steps T st (mk TLeftBracket [91%N] :: open_items items tc) = Some st' /\ stops (process T st' t) EExpected.
  Proof.
    intros st f rest items tc t [Es Hc He Hfi] Hinc Hall Htc Hnc Hbad.
    assert (PA : process T st (mk TLeftBracket [91%N]) = MTrue (list_open st)).
    { unfold process, mk. cbn [t_kind]. rewrite He.
      unfold m_command. rewrite Hc. unfold m_arguments, m_argument. cbn [t_kind]. rewrite Es.
      fold (list_open st).
      assert (EsA : p_stack (list_open st) = f :: rest) by (unfold list_open; pcbn; exact Es).
      rewrite (cc_incomplete (list_open st) f rest false EsA Hinc). reflexivity. }
    assert (IA : in_list (list_open st) f rest (p_brackets st) []) by (constructor; unfold list_open; pcbn; auto).
    unfold open_items. cbn [steps]. rewrite PA.
    destruct items as [|i0 items'].
    - rewrite (Htc eq_refl). cbn [item_toks app steps]. eexists. split; [reflexivity|].
      apply (expected_mismatch (list_open st) t [TString]); [reflexivity|exact Hbad|exact Hnc].
    - destruct (items_steps T (i0 :: items') (list_open st) f rest (p_brackets st) [] ltac:(discriminate) Hall IA eq_refl)
        as (stB & PB & IB & EB & LB & HB & RB).
      rewrite steps_app, PB.
      destruct tc.
      + cbn [steps].
        assert (PCm : process T stB (mk TComma [44%N]) = MTrue (with_expected (Some [TString]) stB)).
        { destruct IB as [EsB HcB HbB HlB].
          unfold process, mk. cbn [t_kind]. rewrite EB. cbn [kind_mem tkind_eqb orb].
          unfold m_command. pcbn. rewrite HcB. unfold m_stringlist. pcbn. cbn [t_kind]. rewrite EsB. reflexivity. }
        rewrite PCm. eexists. split; [reflexivity|].
        apply (expected_mismatch _ t [TString]); [reflexivity|exact Hbad|exact Hnc].
      + cbn [steps]. eexists. split; [reflexivity|].
        apply (expected_mismatch stB t [TComma; TRightBracket] EB Hbad Hnc).
  Qed.

  (* '{' after a command that takes no block *)
  Lemma block_after_flat : forall st f rest t,
    at_args st f rest -> t_kind t = TLeftCBracket -> d_non_deterministic_args (f_def f) = false ->
    exists e, stops (process T st t) e.
  Proof.
    intros st f rest t [Es Hc Hex Hflat Hfi] Hk Hnd.
    destruct Hex as [He|(He & _)].
    - exists EUnexpectedToken. right. split; [|reflexivity]. exists st.
      unfold process. rewrite Hk, He. unfold m_command. rewrite Hc. unfold m_arguments, m_argument. rewrite Hk, Es, Hnd. cbv iota. rewrite ?Es.
      unfold flat in Hflat. destruct (is_control f && d_accept_children (f_def f)) eqn:E; [|reflexivity].
      apply andb_true_iff in E. destruct E as (E1 & E2). rewrite E1, E2 in Hflat. cbn in Hflat.
      unfold is_action, is_control in *. destruct (d_type (f_def f)); discriminate.
    - exists EExpected. apply (expected_mismatch st t [TSemicolon] He); rewrite Hk; reflexivity.
  Qed.
End Inside.

(* ====================================================================================== *)
(* Part 4: whole texts                                                                     *)
(* ====================================================================================== *)

Section Texts.
  Variable T : tables.
  Hypothesis HT : twf_tables T = true.

  (* what is known of the machine after a prefix of the grammar *)
  Definition stands (st : pstate) (L : list bytes) (prev : option bytes) (k : nat) : Prop :=
    ready st /\ p_loaded st = L /\ prev_name (place_of st) = prev /\
    length (p_brackets st) = k /\ Forall (fun b => b = BRCBracket) (p_brackets st).

  (* a prefix of the grammar, then a token refused by every state in which the machine can stand there: the parse
     is rejected with that error at the first byte of that token, with its length, whatever follows it *)
  Theorem reject_at_ready : forall text pre t rest L prev k e,
    wf_prefix T (map strip_pos pre) L prev k ->
    fst (lex text) = pre ++ t :: rest ->
    (forall st, stands st L prev k -> stops (process T st t) e) ->
    parse T text = Reject e (t_pos t) (length (t_val t)).
  Proof.
    intros text pre t rest L prev k e Hp Hl Hstop.
    destruct (prefix_ready T HT _ L prev k Hp) as (st & S1 & R1 & L1 & P1 & B1 & A1).
    apply (reject_after_prefix T text pre t rest st e Hl S1). apply Hstop.
    split; [exact R1|]. split; [exact L1|]. split; [exact P1|]. split; [exact B1|exact A1].
  Qed.

  (* C18, second clause: a rejection is never reported inside a prefix of the grammar -- it is reported at a token
     that comes after it, at the place of the lexical error (which lies after every token), or at the end *)
  Theorem reject_not_in_prefix : forall text pre rest L prev k e pos tlen,
    wf_prefix T (map strip_pos pre) L prev k ->
    fst (lex text) = pre ++ rest ->
    parse T text = Reject e pos tlen ->
    (e = EUnknownToken /\ snd (lex text) = Some pos) \/
    ((e = EEndExpected \/ e = EEndUnfinished) /\ pos = length text) \/
    (exists t, In t rest /\ t_pos t = pos /\ tlen = length (t_val t)).
  Proof.
    intros text pre rest L prev k e pos tlen Hp Hl Hrej.
    destruct (prefix_ready T HT _ L prev k Hp) as (st & S1 & _).
    rewrite parse_run_tokens, Hl in Hrej.
    assert (Hlen : length pre < 2 * length text + 2).
    { pose proof (token_count text) as Hc. rewrite Hl, app_length in Hc. lia. }
    destruct (steps_then_run T pre p_init st _ rest (snd (lex text)) (length text) 0 S1 Hlen) as (ll & E).
    rewrite E in Hrej.
    destruct (run_tokens_reject _ _ _ _ _ _ _ _ _ _ Hrej) as [(He & Herr)|[(He & Hpos & _)|(n & Hn & R)]].
    - left. auto.
    - right. left. auto.
    - right. right. destruct (run_prefix_reject_token _ _ _ _ _ _ _ _ R) as (t & Hin & Hpos & Hlen' & _).
      exists t. split; [|auto]. eapply In_firstn. exact Hin.
  Qed.

  (* the same in byte offsets: nothing is reported before the first token after the prefix *)
  Theorem reject_not_before : forall text pre t0 rest L prev k e pos tlen,
    wf_prefix T (map strip_pos pre) L prev k ->
    fst (lex text) = pre ++ t0 :: rest ->
    parse T text = Reject e pos tlen ->
    t_pos t0 <= pos.
  Proof.
    intros text pre t0 rest L prev k e pos tlen Hp Hl Hrej.
    destruct (lex_order text pre t0 rest Hl) as (O1 & O2).
    destruct (reject_not_in_prefix text pre (t0 :: rest) L prev k e pos tlen Hp Hl Hrej)
      as [(_ & Herr)|[(_ & Hpos)|(t & [<-|Hin] & Hpos & _)]].
    - specialize (O2 pos Herr). lia.
    - assert (Hin : In t0 (fst (lex text))) by (rewrite Hl; apply in_or_app; right; left; reflexivity).
      pose proof (lex_token_at text t0 Hin) as (_ & X & _). lia.
    - lia.
    - specialize (O1 t Hin). lia.
  Qed.

  (* ---- between commands *)

  Theorem unknown_command_rejected : forall text pre t rest L prev k e,
    wf_prefix T (map strip_pos pre) L prev k -> fst (lex text) = pre ++ t :: rest ->
    t_kind t = TIdentifier -> get_command_instance T L (t_val t) = inr e ->
    parse T text = Reject e (t_pos t) (length (t_val t)).
  Proof.
    intros text pre t rest L prev k e Hp Hl Hk Hg. apply (reject_at_ready text pre t rest L prev k e Hp Hl).
    intros st (R & Ld & _). apply cmd_unknown; [exact R|exact Hk|rewrite Ld; exact Hg].
  Qed.

  Theorem test_as_command_rejected : forall text pre t rest L prev k d,
    wf_prefix T (map strip_pos pre) L prev k -> fst (lex text) = pre ++ t :: rest ->
    t_kind t = TIdentifier -> get_command_instance T L (t_val t) = inl d -> d_type d = CTest ->
    parse T text = Reject (EFirstCommand (d_name d)) (t_pos t) (length (t_val t)).
  Proof.
    intros text pre t rest L prev k d Hp Hl Hk Hg Hty. apply (reject_at_ready text pre t rest L prev k _ Hp Hl).
    intros st (R & Ld & _). apply cmd_is_test; [exact R|exact Hk|rewrite Ld; exact Hg|exact Hty].
  Qed.

  Theorem no_command_start_rejected : forall text pre t rest L prev k,
    wf_prefix T (map strip_pos pre) L prev k -> fst (lex text) = pre ++ t :: rest ->
    starts_nothing (t_kind t) = true ->
    parse T text = Reject EUnexpectedToken (t_pos t) (length (t_val t)).
  Proof.
    intros text pre t rest L prev k Hp Hl Hk. apply (reject_at_ready text pre t rest L prev k _ Hp Hl).
    intros st (R & _). apply cmd_bad_token; assumption.
  Qed.

  (* '}' at the top level *)
  Theorem stray_rcb_rejected : forall text pre t rest L prev,
    wf_prefix T (map strip_pos pre) L prev 0 -> fst (lex text) = pre ++ t :: rest ->
    t_kind t = TRightCBracket ->
    parse T text = Reject EBracketNone (t_pos t) (length (t_val t)).
  Proof.
    intros text pre t rest L prev Hp Hl Hk. apply (reject_at_ready text pre t rest L prev 0 _ Hp Hl).
    intros st ((Hc & He & _) & _ & _ & B & _). left.
    destruct (p_brackets st) eqn:Eb; [|discriminate].
    unfold process. rewrite Hk, He. unfold m_command. rewrite Hc, Hk. unfold pop_bracket. rewrite Eb. reflexivity.
  Qed.

  (* ---- after the name of a command *)

  Lemma after_name : forall st L name d,
    ready st -> p_loaded st = L -> get_command_instance T L name = inl d -> d_type d <> CTest ->
    exists st1, process T st (mk TIdentifier name) = MTrue st1 /\
                p_cstate st1 = CArgs /\ p_stack st1 = new_frame d (at_in (p_stack st)) :: p_stack st /\
                p_loaded st1 = L /\
                p_expected st1 = (if match d_type d with CControl => d_accept_children d && has_arguments d | _ => false end
                                  then Some [TIdentifier] else None).
  Proof.
    intros st L name d Hr Hl Hg Hty. pose proof Hr as (_ & He & _).
    rewrite (push_cmd T st name d Hr); [|rewrite Hl; exact Hg|exact Hty].
    eexists. split; [reflexivity|]. pcbn.
    destruct (match d_type d with CControl => d_accept_children d && has_arguments d | _ => false end); pcbn; auto.
  Qed.

  (* the token after `if` / `elsif` (a control that needs a test): anything that is not the name of a test *)
  Theorem test_position_rejected : forall text pre tn t rest L prev k d,
    wf_prefix T (map strip_pos pre) L prev k -> fst (lex text) = pre ++ tn :: t :: rest ->
    t_kind tn = TIdentifier -> get_command_instance T L (t_val tn) = inl d ->
    d_type d = CControl -> d_accept_children d = true -> has_arguments d = true ->
    not_comment (t_kind t) = true ->
    match t_kind t with
    | TIdentifier =>
        match get_command_instance T L (t_val t) with
        | inr e => parse T text = Reject e (t_pos t) (length (t_val t))
        | inl d' => d_type d' <> CTest -> parse T text = Reject (ENotTest (d_name d')) (t_pos t) (length (t_val t))
        end
    | _ => parse T text = Reject EExpected (t_pos t) (length (t_val t))
    end.
  Proof.
    intros text pre tn t rest L prev k d Hp Hl Hkn Hg Hty Hch Hha Hnc.
    destruct (prefix_ready T HT _ L prev k Hp) as (st & S1 & R1 & L1 & _).
    destruct (after_name st L (t_val tn) d R1 L1 Hg ltac:(congruence)) as (st1 & P1 & C1 & K1 & Ld1 & E1).
    rewrite Hty, Hch, Hha in E1. cbn in E1.
    assert (S2 : steps T p_init (map strip_pos (pre ++ [tn])) = Some st1).
    { rewrite map_app, steps_app, S1. cbn [map steps]. rewrite process_strip.
      assert (Etn : tn = mkTok TIdentifier (t_val tn) (t_pos tn)) by (destruct tn; cbn in *; congruence).
      rewrite Etn. rewrite (process_pos T st TIdentifier (t_val tn) (t_pos tn) 0). fold (mk TIdentifier (t_val tn)).
      cbn [t_val]. rewrite P1. reflexivity. }
    assert (Hl' : fst (lex text) = (pre ++ [tn]) ++ t :: rest) by (rewrite <- app_assoc; exact Hl).
    destruct (t_kind t) eqn:Ek; try (cbn in Hnc; discriminate Hnc);
      try (apply (reject_after_prefix T text (pre ++ [tn]) t rest st1 _ Hl' S2);
           apply (expected_mismatch T st1 t [TIdentifier] E1); rewrite Ek; reflexivity).
    destruct (get_command_instance T L (t_val t)) as [d'|e] eqn:Eg.
    - intro Hnt. apply (reject_after_prefix T text (pre ++ [tn]) t rest st1 _ Hl' S2).
      apply (ident_not_test T st1 t _ _ d' C1 K1); [rewrite E1; reflexivity|exact Ek|rewrite Ld1; exact Eg|exact Hnt].
    - apply (reject_after_prefix T text (pre ++ [tn]) t rest st1 _ Hl' S2).
      apply (ident_unknown T st1 t _ _ e C1 K1); [rewrite E1; reflexivity|exact Ek|rewrite Ld1; exact Eg].
  Qed.

  (* ---- the arguments of an action (or of a control without a block) *)

  Definition flat_def (d : cmddef) : bool :=
    match d_type d with CAction => true | CControl => negb (d_accept_children d) | CTest => false end.

  Lemma after_flat_name : forall st L name d,
    ready st -> p_loaded st = L -> get_command_instance T L name = inl d -> flat_def d = true ->
    exists st1, process T st (mk TIdentifier name) = MTrue st1 /\ p_loaded st1 = L /\
                at_args st1 (new_frame d (at_in (p_stack st))) (p_stack st) /\ p_expected st1 = None.
  Proof.
    intros st L name d Hr Hl Hg Hf.
    assert (Hty : d_type d <> CTest) by (unfold flat_def in Hf; destruct (d_type d); congruence).
    destruct (after_name st L name d Hr Hl Hg Hty) as (st1 & P1 & C1 & K1 & Ld1 & E1).
    assert (E1' : p_expected st1 = None).
    { rewrite E1. unfold flat_def in Hf. destruct (d_type d); try reflexivity. destruct (d_accept_children d); [discriminate|reflexivity]. }
    exists st1. split; [exact P1|]. split; [exact Ld1|]. split; [|exact E1'].
    constructor; auto.
    - unfold flat, is_action, is_control. cbn [f_def new_frame]. unfold flat_def in Hf. destruct (d_type d); auto; discriminate.
    - apply fi_new_frame. eapply gci_twf; eauto.
  Qed.

  (* an argument list that the specification of the command refuses (wrong type, wrong order, unknown tag, surplus
     argument, bad value of a tag's parameter): the parse is rejected at a token of one of the arguments *)
  Theorem illegal_arguments_rejected : forall text pre tn atoks rest L prev k d args e,
    wf_prefix T (map strip_pos pre) L prev k ->
    fst (lex text) = pre ++ tn :: atoks ++ rest ->
    t_kind tn = TIdentifier -> get_command_instance T L (t_val tn) = inl d -> flat_def d = true ->
    wf_def d = true -> fixed_arity d = true -> Forall arg_ok args ->
    map strip_pos atoks = flat_map arg_toks args ->
    legal d L args = LReject e ->
    exists t e', In t atoks /\ parse T text = Reject e' (t_pos t) (length (t_val t)).
  Proof.
    intros text pre tn atoks rest L prev k d args e Hp Hl Hkn Hg Hf Hwf Hfa Hall Hat Hleg.
    destruct (prefix_ready T HT _ L prev k Hp) as (st & S1 & R1 & L1 & _).
    destruct (after_flat_name st L (t_val tn) d R1 L1 Hg Hf) as (st1 & P1 & Ld1 & A1 & E1).
    assert (Hsh : Forall (fun x => arg_shape_ok x = true) args).
    { apply Forall_forall. intros x Hx. rewrite Forall_forall in Hall. apply arg_ok_spec_shape. apply Hall. exact Hx. }
    pose proof (argcheck_correct_gen d (at_in (p_stack st)) L args Hwf Hfa Hsh) as C.
    unfold corr_stmt in C. rewrite Hleg in C. cbn [corr] in C. rewrite <- Ld1 in C.
    destruct (args_stop T args st1 _ _ e A1 Hall C) as (apre & at_ & amore & st' & e' & Ea & Sa & Xa).
    (* split the real tokens like the position-free ones *)
    rewrite <- Hat in Ea.
    assert (Hsplit : exists p1 t1 m1, atoks = p1 ++ t1 :: m1 /\ map strip_pos p1 = apre /\ strip_pos t1 = at_).
    { clear -Ea. revert apre Ea. induction atoks as [|x xs IH]; intros apre Ea.
      - destruct apre; discriminate.
      - destruct apre as [|y ys]; cbn [map app] in Ea.
        + inversion Ea. exists [], x, xs. auto.
        + inversion Ea as [[E1 E2]]. destruct (IH ys E2) as (p1 & t1 & m1 & A & B & C).
          exists (x :: p1), t1, m1. rewrite A. cbn [map]. rewrite B. auto. }
    destruct Hsplit as (p1 & t1 & m1 & Eat & Ep1 & Et1).
    exists t1, e'. split; [rewrite Eat; apply in_or_app; right; left; reflexivity|].
    assert (S2 : steps T p_init (map strip_pos (pre ++ tn :: p1)) = Some st').
    { rewrite map_app, steps_app, S1. cbn [map steps]. rewrite process_strip.
      assert (Etn : tn = mkTok TIdentifier (t_val tn) (t_pos tn)) by (destruct tn; cbn in *; congruence).
      rewrite Etn. rewrite (process_pos T st TIdentifier (t_val tn) (t_pos tn) 0). fold (mk TIdentifier (t_val tn)).
      cbn [t_val]. rewrite P1, Ep1. exact Sa. }
    assert (Hl' : fst (lex text) = (pre ++ tn :: p1) ++ t1 :: (m1 ++ rest)).
    { rewrite Hl, Eat. repeat (rewrite <- app_assoc; cbn [app]). reflexivity. }
    apply (reject_after_prefix T text (pre ++ tn :: p1) t1 (m1 ++ rest) st' e' Hl' S2).
    rewrite <- Et1, process_strip in Xa. exact Xa.
  Qed.

  (* a block after a command that takes none, an identifier where ';' is missing: right after the name *)
  Theorem after_flat_name_rejected : forall text pre tn t rest L prev k d,
    wf_prefix T (map strip_pos pre) L prev k -> fst (lex text) = pre ++ tn :: t :: rest ->
    t_kind tn = TIdentifier -> get_command_instance T L (t_val tn) = inl d -> flat_def d = true ->
    (t_kind t = TLeftCBracket /\ d_non_deterministic_args d = false) \/
    (t_kind t = TIdentifier /\ match get_command_instance T L (t_val t) with inl d' => d_type d' <> CTest | inr _ => True end) ->
    exists e, parse T text = Reject e (t_pos t) (length (t_val t)).
  Proof.
    intros text pre tn t rest L prev k d Hp Hl Hkn Hg Hf Hcase.
    destruct (prefix_ready T HT _ L prev k Hp) as (st & S1 & R1 & L1 & _).
    destruct (after_flat_name st L (t_val tn) d R1 L1 Hg Hf) as (st1 & P1 & Ld1 & A1 & E1).
    assert (S2 : steps T p_init (map strip_pos (pre ++ [tn])) = Some st1).
    { rewrite map_app, steps_app, S1. cbn [map steps]. rewrite process_strip.
      assert (Etn : tn = mkTok TIdentifier (t_val tn) (t_pos tn)) by (destruct tn; cbn in *; congruence).
      rewrite Etn. rewrite (process_pos T st TIdentifier (t_val tn) (t_pos tn) 0). fold (mk TIdentifier (t_val tn)).
      cbn [t_val]. rewrite P1. reflexivity. }
    assert (Hl' : fst (lex text) = (pre ++ [tn]) ++ t :: rest) by (rewrite <- app_assoc; exact Hl).
    destruct Hcase as [(Hk & Hnd)|(Hk & Hgt)].
    - destruct (block_after_flat T st1 _ _ t A1 Hk Hnd) as (e & X).
      exists e. apply (reject_after_prefix T text (pre ++ [tn]) t rest st1 e Hl' S2 X).
    - destruct A1 as [Es Hc _ _ _].
      destruct (get_command_instance T L (t_val t)) as [d'|e] eqn:Eg.
      + exists (ENotTest (d_name d')). apply (reject_after_prefix T text (pre ++ [tn]) t rest st1 _ Hl' S2).
        apply (ident_not_test T st1 t _ _ d' Hc Es); [rewrite E1; exact I|exact Hk|rewrite Ld1; exact Eg|exact Hgt].
      + exists e. apply (reject_after_prefix T text (pre ++ [tn]) t rest st1 _ Hl' S2).
        apply (ident_unknown T st1 t _ _ e Hc Es); [rewrite E1; exact I|exact Hk|rewrite Ld1; exact Eg].
  Qed.
  (* ---- elsif / else not after if / elsif: detected when the command is closed *)

  Lemma close_misplaced : forall stD C S0 b L body ns L' t,
    ready stD -> p_stack stD = C :: S0 -> p_loaded stD = L -> prev_name (place_of stD) = None ->
    p_brackets stD = BRCBracket :: b ->
    wf_cmds T L None body ns L' ->
    follows_name (f_def C) (prev_name (S0, p_hash stD, p_result stD)) = false ->
    t_kind t = TRightCBracket ->
    exists stE, steps T stD (flat_map toks_cmd body) = Some stE /\ stops (process T stE t) EMustFollow.
  Proof.
    intros stD C S0 b L body ns L' t Hr Es Hl Hp Hb Hw Hfol Hk.
    destruct (run_cmds T HT L None body ns L' Hw stD Hr Hl Hp) as (stE & PE & CE & EE & LE & BE & PLE).
    exists stE. split; [exact PE|]. left.
    unfold place_of in PLE. rewrite Es, fold_emit_nested in PLE. inversion PLE as [[SE HE RE]].
    destruct (add_children_facts ns C) as (F1 & _).
    unfold process. rewrite Hk, EE. unfold m_command. rewrite CE, Hk. unfold pop_bracket. rewrite BE, Hb. cbn [bracket_eqb].
    unfold up. pcbn. rewrite SE, F1, RE.
    unfold follows_name, prev_name in Hfol.
    destruct (d_must_follow (f_def C)) as [mf|]; [|discriminate].
    destruct S0 as [|parent rest'].
    - destruct (last_opt (p_result stD)) as [n|]; cbn [option_map] in Hfol; [rewrite Hfol|]; reflexivity.
    - destruct (last_opt (f_children parent)) as [n|]; cbn [option_map] in Hfol; [rewrite Hfol|]; reflexivity.
  Qed.

  (* `elsif <test> { body }` / `else { body }` where the previous command of the block is not one they may follow:
     rejected at the closing brace *)
  Theorem misplaced_follower_rejected : forall text pre tn otoks btoks t rest L prev k d body ns L',
    wf_prefix T (map strip_pos pre) L prev k ->
    fst (lex text) = pre ++ tn :: otoks ++ btoks ++ t :: rest ->
    t_kind tn = TIdentifier -> get_command_instance T L (t_val tn) = inl d ->
    d_type d = CControl -> d_accept_children d = true ->
    follows_name d prev = false ->
    ((exists a tst nt, d_args d = [a] /\ is_t1 a = true /\ wf_test T L tst nt /\ map strip_pos otoks = toks_test tst ++ [tk_lcb]) \/
     (d_args d = [] /\ map strip_pos otoks = [tk_lcb])) ->
    wf_cmds T L None body ns L' -> map strip_pos btoks = flat_map toks_cmd body ->
    t_kind t = TRightCBracket ->
    parse T text = Reject EMustFollow (t_pos t) (length (t_val t)).
  Proof.
    intros text pre tn otoks btoks t rest L prev k d body ns L' Hp Hl Hkn Hg Hty Hch Hfol Hopen Hw Hbt Hk.
    destruct (prefix_ready T HT _ L prev k Hp) as (st & S1 & R1 & L1 & P1 & _).
    assert (Etn : strip_pos tn = mk TIdentifier (t_val tn)) by (destruct tn; cbn in *; unfold strip_pos, mk; cbn; congruence).
    assert (Hopened : exists stD C, steps T st (strip_pos tn :: map strip_pos otoks) = Some stD /\ ready stD /\ p_loaded stD = L /\
                        prev_name (place_of stD) = None /\ p_brackets stD = BRCBracket :: p_brackets st /\
                        p_stack stD = C :: p_stack st /\ f_def C = d /\ p_result stD = p_result st).
    { rewrite Etn. destruct Hopen as [(a & tst & nt & Ha & Ht1 & Hwt & Eo)|(Ha & Eo)]; rewrite Eo.
      - destruct (open_ctl T HT L (t_val tn) d a tst nt st Hg Hty Hch Ha Ht1 Hwt R1 L1) as (stD & S2 & R2 & L2 & P2 & B2 & C & X1 & X2 & X3).
        exists stD, C. auto 10.
      - destruct (open_else T HT L (t_val tn) d st Hg Hty Hch Ha R1 L1) as (stD & S2 & R2 & L2 & P2 & B2 & C & X1 & X2 & X3).
        exists stD, C. auto 10. }
    destruct Hopened as (stD & C & S2 & R2 & L2 & P2 & B2 & X1 & X2 & X3).
    assert (Hfol' : follows_name (f_def C) (prev_name (p_stack st, p_hash stD, p_result stD)) = false).
    { rewrite X2, X3. unfold prev_name in *. unfold place_of in P1. rewrite <- Hfol, <- P1.
      destruct (p_stack st); reflexivity. }
    destruct (close_misplaced stD C (p_stack st) (p_brackets st) L body ns L' t R2 X1 L2 P2 B2 Hw Hfol' Hk) as (stE & S3 & X).
    assert (Hl' : fst (lex text) = (pre ++ tn :: otoks ++ btoks) ++ t :: rest).
    { rewrite Hl. repeat (rewrite <- app_assoc; cbn [app]). reflexivity. }
    apply (reject_after_prefix T text (pre ++ tn :: otoks ++ btoks) t rest stE EMustFollow Hl'); [|exact X].
    rewrite map_app, steps_app, S1. cbn [map]. rewrite map_app, app_comm_cons, steps_app, S2, Hbt. exact S3.
  Qed.
  (* ---- malformed string lists in the arguments of an action *)

  Lemma split_strip : forall (toks : list token) (a b : list token),
    map strip_pos toks = a ++ b -> exists ta tb, toks = ta ++ tb /\ map strip_pos ta = a /\ map strip_pos tb = b.
  Proof.
    intros toks a. revert toks. induction a as [|x a IH]; intros toks b H.
    - exists [], toks. auto.
    - destruct toks as [|t toks]; [discriminate|]. cbn [map app] in H. inversion H as [[E1 E2]].
      destruct (IH toks b E2) as (ta & tb & A & B & C). exists (t :: ta), tb. cbn [map app]. rewrite A, B, C. auto.
  Qed.

  (* `name args0 [ items...` then a token that cannot continue the list: an empty list, a missing comma, a comma
     before the closing bracket, a list that is not closed *)
  Theorem malformed_string_list_rejected : forall text pre tn a0toks lb ltoks t rest L prev k d args0 am em items tc,
    wf_prefix T (map strip_pos pre) L prev k ->
    fst (lex text) = pre ++ tn :: a0toks ++ lb :: ltoks ++ t :: rest ->
    t_kind tn = TIdentifier -> get_command_instance T L (t_val tn) = inl d -> flat_def d = true ->
    wf_def d = true -> fixed_arity d = true -> Forall arg_ok args0 ->
    map strip_pos a0toks = flat_map arg_toks args0 -> legal d L args0 = LIncomplete am em ->
    strip_pos lb = mk TLeftBracket [91%N] -> map strip_pos ltoks = open_items items tc ->
    Forall (fun s => utf8_valid s = true) items -> (items = [] -> tc = false) ->
    not_comment (t_kind t) = true ->
    (if match items with [] => true | _ => tc end
     then kind_mem (t_kind t) [TString] = false
     else kind_mem (t_kind t) [TComma; TRightBracket] = false) ->
    parse T text = Reject EExpected (t_pos t) (length (t_val t)).
  Proof.
    intros text pre tn a0toks lb ltoks t rest L prev k d args0 am em items tc
           Hp Hl Hkn Hg Hf Hwf Hfa Hall Hat Hleg Hlb Hlt Hu Htc Hnc Hbad.
    destruct (prefix_ready T HT _ L prev k Hp) as (st & S1 & R1 & L1 & _).
    destruct (after_flat_name st L (t_val tn) d R1 L1 Hg Hf) as (st1 & P1 & Ld1 & A1 & E1).
    assert (Hsh : Forall (fun x => arg_shape_ok x = true) args0).
    { apply Forall_forall. intros x Hx. rewrite Forall_forall in Hall. apply arg_ok_spec_shape. apply Hall. exact Hx. }
    pose proof (argcheck_correct_gen d (at_in (p_stack st)) L args0 Hwf Hfa Hsh) as C.
    unfold corr_stmt in C. rewrite Hleg in C. cbn [corr] in C. destruct C as (fN & Hfeed & Hinc & _).
    rewrite <- Ld1 in Hfeed.
    destruct (args_run T args0 st1 _ _ fN A1 Hall Hfeed) as (st2 & S2 & A2 & L2 & B2).
    assert (E2 : p_expected st2 = None).
    { destruct A2 as [_ _ [X|(_ & X)] _ _]; [exact X|congruence]. }
    destruct (malformed_list_stop T st2 fN _ items tc t A2 E2 Hu Htc Hnc Hbad) as (st3 & S3 & X).
    assert (Etn : strip_pos tn = mk TIdentifier (t_val tn)) by (destruct tn; cbn in *; unfold strip_pos, mk; cbn; congruence).
    assert (Hl' : fst (lex text) = (pre ++ tn :: a0toks ++ lb :: ltoks) ++ t :: rest).
    { rewrite Hl. repeat (rewrite <- app_assoc; cbn [app]). reflexivity. }
    apply (reject_after_prefix T text (pre ++ tn :: a0toks ++ lb :: ltoks) t rest st3 EExpected Hl'); [|exact X].
    rewrite map_app, steps_app, S1. cbn [map steps]. rewrite Etn, P1.
    rewrite map_app, steps_app, Hat, S2. cbn [map]. rewrite Hlb, Hlt. exact S3.
  Qed.

  (* ---- a missing block: after `if <test>` (a test that ends without a parenthesis) anything but '{' *)
  Theorem missing_block_rejected : forall text pre tn ttoks t rest L prev k d a tst nt,
    wf_prefix T (map strip_pos pre) L prev k ->
    fst (lex text) = pre ++ tn :: ttoks ++ t :: rest ->
    t_kind tn = TIdentifier -> get_command_instance T L (t_val tn) = inl d ->
    d_type d = CControl -> d_accept_children d = true -> d_args d = [a] -> is_t1 a = true ->
    wf_test T L tst nt -> kind_of tst = Kcc -> map strip_pos ttoks = toks_test tst ->
    not_comment (t_kind t) = true -> kind_mem (t_kind t) [TLeftCBracket] = false ->
    parse T text = Reject EExpected (t_pos t) (length (t_val t)).
  Proof.
    intros text pre tn ttoks t rest L prev k d a tst nt Hp Hl Hkn Hg Hty Hch Ha Ht1 Hwt Hkc Htt Hnc Hbad.
    destruct (prefix_ready T HT _ L prev k Hp) as (st & S1 & R1 & L1 & _).
    destruct (ctl_test_done T HT L (t_val tn) d a tst nt st Hg Hty Hch Ha Ht1 Hwt Hkc R1 L1) as (stB & S2 & EB).
    assert (Etn : strip_pos tn = mk TIdentifier (t_val tn)) by (destruct tn; cbn in *; unfold strip_pos, mk; cbn; congruence).
    assert (Hl' : fst (lex text) = (pre ++ tn :: ttoks) ++ t :: rest).
    { rewrite Hl. repeat (rewrite <- app_assoc; cbn [app]). reflexivity. }
    apply (reject_after_prefix T text (pre ++ tn :: ttoks) t rest stB EExpected Hl').
    - rewrite map_app, steps_app, S1. cbn [map]. rewrite Etn, Htt. exact S2.
    - apply (expected_mismatch T stB t [TLeftCBracket] EB Hbad Hnc).
  Qed.

  (* ---- bytes that are no token: after a prefix of the grammar, the parse is rejected at the place where no lexer
     rule matches *)
  Theorem lexical_error_rejected : forall text L prev k p,
    wf_prefix T (map strip_pos (fst (lex text))) L prev k -> snd (lex text) = Some p ->
    exists ll, parse T text = Reject EUnknownToken p ll.
  Proof.
    intros text L prev k p Hp Herr.
    destruct (prefix_ready T HT _ L prev k Hp) as (st & S1 & _).
    rewrite parse_run_tokens, Herr.
    assert (Hlen : length (fst (lex text)) < 2 * length text + 2) by (pose proof (token_count text); lia).
    destruct (steps_then_run T (fst (lex text)) p_init st _ [] (Some p) (length text) 0 S1 Hlen) as (ll & E).
    rewrite app_nil_r in E. rewrite E. exists ll.
    destruct (2 * length text + 2 - length (fst (lex text))) as [|f] eqn:Ef; [lia|]. reflexivity.
  Qed.

  (* ---- the end of the text *)

  (* blocks still open at the end of the text *)
  Theorem unclosed_block_rejected : forall text L prev k,
    wf_prefix T (map strip_pos (fst (lex text))) L prev (S k) -> snd (lex text) = None ->
    exists ll, parse T text = Reject EEndExpected (length text) ll.
  Proof.
    intros text L prev k Hp Herr.
    destruct (prefix_ready T HT _ L prev (S k) Hp) as (st & S1 & R1 & L1 & P1 & B1 & A1).
    rewrite parse_run_tokens, Herr.
    destruct (steps_run_tokens T (fst (lex text)) p_init st (2 * length text + 2) (length text) 0 S1) as (ll & ->).
    { pose proof (token_count text). lia. }
    exists ll. unfold finish. destruct (p_brackets st) as [|b bs]; [discriminate B1|]. reflexivity.
  Qed.

  (* a command that is not finished at the end of the text: `name args` without ';' *)
  Theorem unfinished_command_rejected : forall text pre tn a0toks L prev k d args0 fN,
    wf_prefix T (map strip_pos pre) L prev k ->
    fst (lex text) = pre ++ tn :: a0toks -> snd (lex text) = None ->
    t_kind tn = TIdentifier -> get_command_instance T L (t_val tn) = inl d -> flat_def d = true ->
    Forall arg_ok args0 -> map strip_pos a0toks = flat_map arg_toks args0 ->
    (forall at_, feed (new_frame d at_) args0 L = FOk (fN at_)) ->
    exists e ll, (e = EEndExpected \/ e = EEndUnfinished) /\ parse T text = Reject e (length text) ll.
  Proof.
    intros text pre tn a0toks L prev k d args0 fN Hp Hl Herr Hkn Hg Hf Hall Hat Hfeed.
    destruct (prefix_ready T HT _ L prev k Hp) as (st & S1 & R1 & L1 & _).
    destruct (after_flat_name st L (t_val tn) d R1 L1 Hg Hf) as (st1 & P1 & Ld1 & A1 & E1).
    specialize (Hfeed (at_in (p_stack st))). rewrite <- Ld1 in Hfeed.
    destruct (args_run T args0 st1 _ _ _ A1 Hall Hfeed) as (st2 & S2 & A2 & L2 & B2).
    assert (Etn : strip_pos tn = mk TIdentifier (t_val tn)) by (destruct tn; cbn in *; unfold strip_pos, mk; cbn; congruence).
    assert (S3 : steps T p_init (map strip_pos (fst (lex text))) = Some st2).
    { rewrite Hl, map_app, steps_app, S1. cbn [map steps]. rewrite Etn, P1, Hat. exact S2. }
    rewrite parse_run_tokens, Herr.
    destruct (steps_run_tokens T (fst (lex text)) p_init st2 (2 * length text + 2) (length text) 0 S3) as (ll & ->).
    { pose proof (token_count text). lia. }
    destruct A2 as [Es _ _ _ _].
    unfold finish. rewrite Es.
    destruct (match p_brackets st2 with b :: _ => Some [closing_kind b] | [] => p_expected st2 end).
    - exists EEndExpected, ll. auto.
    - exists EEndUnfinished, ll. auto.
  Qed.

  (* ---- an empty or malformed test list: after `if anyof (` the name of a test must come *)
  Theorem empty_test_list_rejected : forall text pre tn tl lp t rest L prev k d a dl,
    wf_prefix T (map strip_pos pre) L prev k ->
    fst (lex text) = pre ++ tn :: tl :: lp :: t :: rest ->
    t_kind tn = TIdentifier -> get_command_instance T L (t_val tn) = inl d ->
    d_type d = CControl -> d_accept_children d = true -> d_args d = [a] -> is_t1 a = true ->
    t_kind tl = TIdentifier -> get_command_instance T L (t_val tl) = inl dl -> d_type dl = CTest ->
    d_expected_first dl = Some [TLeftParen] -> iscomplete (new_frame dl (at_of a)) None = false ->
    t_kind lp = TLeftParen ->
    not_comment (t_kind t) = true -> kind_mem (t_kind t) [TIdentifier] = false ->
    parse T text = Reject EExpected (t_pos t) (length (t_val t)).
  Proof.
    intros text pre tn tl lp t rest L prev k d a dl Hp Hl Hkn Hg Hty Hch Ha Ht1 Hkl Hgl Htyl Hef Hinc Hklp Hnc Hbad.
    destruct (prefix_ready T HT _ L prev k Hp) as (st & S1 & R1 & L1 & _).
    assert (Htw : twf d = true) by (eapply gci_twf; eauto).
    destruct (after_name st L (t_val tn) d R1 L1 Hg ltac:(congruence)) as (st1 & P1 & C1 & K1 & Ld1 & E1).
    assert (Hha : has_arguments d = true) by (unfold has_arguments; rewrite Ha; reflexivity).
    rewrite Hty, Hch, Hha in E1. cbn in E1.
    destruct (cna_t1_new L d (at_in (p_stack st)) a Htw Ha Ht1) as (N1 & EC & _).
    pose proof (push_test T L st1 _ _ N1 a (t_val tl) dl K1 C1 ltac:(rewrite E1; reflexivity) Ld1 EC Hgl Htyl) as P2.
    set (stL := with_stack (new_frame dl (at_of a) :: N1 :: p_stack st) (with_expected (d_expected_first dl) st1)) in *.
    assert (EsL : p_stack stL = new_frame dl (at_of a) :: N1 :: p_stack st) by reflexivity.
    rewrite (cc_incomplete stL _ _ false EsL Hinc) in P2.
    (* '(' *)
    set (stP := with_expected (Some [TIdentifier]) (with_brackets (BRParen :: p_brackets stL) (with_expected None stL))).
    assert (P3 : process T stL lp = MTrue stP).
    { unfold process. rewrite Hklp. unfold stL at 1. pcbn. rewrite Hef. cbn [kind_mem tkind_eqb orb].
      unfold m_command. pcbn. unfold stL at 1. pcbn. rewrite C1. unfold m_arguments. rewrite Hklp. reflexivity. }
    assert (Etn : strip_pos tn = mk TIdentifier (t_val tn)) by (destruct tn; cbn in *; unfold strip_pos, mk; cbn; congruence).
    assert (Etl : strip_pos tl = mk TIdentifier (t_val tl)) by (destruct tl; cbn in *; unfold strip_pos, mk; cbn; congruence).
    assert (Hl' : fst (lex text) = (pre ++ [tn; tl; lp]) ++ t :: rest).
    { rewrite Hl. repeat (rewrite <- app_assoc; cbn [app]). reflexivity. }
    apply (reject_after_prefix T text (pre ++ [tn; tl; lp]) t rest stP EExpected Hl').
    - rewrite map_app, steps_app, S1. cbn [map steps]. rewrite Etn, P1, Etl, P2, process_strip, P3. reflexivity.
    - apply (expected_mismatch T stP t [TIdentifier]); [reflexivity|exact Hbad|exact Hnc].
  Qed.

  (* ---- the first position of a test list, and the position after `not`: the name of a test must come *)

  (* after `<control> <test-list-test> (`, or after `<control> <one-test test>` : the machine waits for a test *)
  Lemma inner_test_position : forall st L tn tl d a dl more,
    ready st -> p_loaded st = L ->
    get_command_instance T L (t_val tn) = inl d -> t_kind tn = TIdentifier ->
    d_type d = CControl -> d_accept_children d = true -> d_args d = [a] -> is_t1 a = true ->
    t_kind tl = TIdentifier -> get_command_instance T L (t_val tl) = inl dl -> d_type dl = CTest ->
    iscomplete (new_frame dl (at_of a)) None = false ->
    ((d_expected_first dl = Some [TLeftParen] /\ exists lp, more = [lp] /\ t_kind lp = TLeftParen) \/
     (d_expected_first dl = Some [TIdentifier] /\ more = [])) ->
    exists stP cur rest,
      steps T st (map strip_pos (tn :: tl :: more)) = Some stP /\
      p_cstate stP = CArgs /\ p_stack stP = cur :: rest /\ p_expected stP = Some [TIdentifier] /\ p_loaded stP = L.
  Proof.
    intros st L tn tl d a dl more R1 L1 Hg Hkn Hty Hch Ha Ht1 Hkl Hgl Htyl Hinc Hcase.
    assert (Htw : twf d = true) by (eapply gci_twf; eauto).
    destruct (after_name st L (t_val tn) d R1 L1 Hg ltac:(congruence)) as (st1 & P1 & C1 & K1 & Ld1 & E1).
    assert (Hha : has_arguments d = true) by (unfold has_arguments; rewrite Ha; reflexivity).
    rewrite Hty, Hch, Hha in E1. cbn in E1.
    destruct (cna_t1_new L d (at_in (p_stack st)) a Htw Ha Ht1) as (N1 & EC & _).
    pose proof (push_test T L st1 _ _ N1 a (t_val tl) dl K1 C1 ltac:(rewrite E1; reflexivity) Ld1 EC Hgl Htyl) as P2.
    set (stL := with_stack (new_frame dl (at_of a) :: N1 :: p_stack st) (with_expected (d_expected_first dl) st1)) in *.
    assert (EsL : p_stack stL = new_frame dl (at_of a) :: N1 :: p_stack st) by reflexivity.
    rewrite (cc_incomplete stL _ _ false EsL Hinc) in P2.
    assert (Etn : strip_pos tn = mk TIdentifier (t_val tn)) by (destruct tn; cbn in *; unfold strip_pos, mk; cbn; congruence).
    assert (Etl : strip_pos tl = mk TIdentifier (t_val tl)) by (destruct tl; cbn in *; unfold strip_pos, mk; cbn; congruence).
    destruct Hcase as [(Hef & lp & -> & Hklp)|(Hef & ->)].
    - set (stP := with_expected (Some [TIdentifier]) (with_brackets (BRParen :: p_brackets stL) (with_expected None stL))).
      assert (P3 : process T stL lp = MTrue stP).
      { unfold process. rewrite Hklp. unfold stL at 1. pcbn. rewrite Hef. cbn [kind_mem tkind_eqb orb].
        unfold m_command. pcbn. unfold stL at 1. pcbn. rewrite C1. unfold m_arguments. rewrite Hklp. reflexivity. }
      exists stP, (new_frame dl (at_of a)), (N1 :: p_stack st).
      split; [cbn [map steps]; rewrite Etn, P1, Etl, P2, process_strip, P3; reflexivity|].
      unfold stP, stL. pcbn. auto.
    - exists stL, (new_frame dl (at_of a)), (N1 :: p_stack st).
      split; [cbn [map steps]; rewrite Etn, P1, Etl, P2; reflexivity|].
      unfold stL. pcbn. auto.
  Qed.

  (* an unknown name, the name of an action, or no name at all where a test list or `not` needs its (first) test *)
  Theorem inner_test_rejected : forall text pre tn tl more t rest L prev k d a dl,
    wf_prefix T (map strip_pos pre) L prev k ->
    fst (lex text) = pre ++ tn :: tl :: more ++ t :: rest ->
    t_kind tn = TIdentifier -> get_command_instance T L (t_val tn) = inl d ->
    d_type d = CControl -> d_accept_children d = true -> d_args d = [a] -> is_t1 a = true ->
    t_kind tl = TIdentifier -> get_command_instance T L (t_val tl) = inl dl -> d_type dl = CTest ->
    iscomplete (new_frame dl (at_of a)) None = false ->
    ((d_expected_first dl = Some [TLeftParen] /\ exists lp, more = [lp] /\ t_kind lp = TLeftParen) \/
     (d_expected_first dl = Some [TIdentifier] /\ more = [])) ->
    not_comment (t_kind t) = true ->
    match t_kind t with
    | TIdentifier =>
        match get_command_instance T L (t_val t) with
        | inr e => parse T text = Reject e (t_pos t) (length (t_val t))
        | inl d' => d_type d' <> CTest -> parse T text = Reject (ENotTest (d_name d')) (t_pos t) (length (t_val t))
        end
    | _ => parse T text = Reject EExpected (t_pos t) (length (t_val t))
    end.
  Proof.
    intros text pre tn tl more t rest L prev k d a dl Hp Hl Hkn Hg Hty Hch Ha Ht1 Hkl Hgl Htyl Hinc Hcase Hnc.
    destruct (prefix_ready T HT _ L prev k Hp) as (st & S1 & R1 & L1 & _).
    destruct (inner_test_position st L tn tl d a dl more R1 L1 Hg Hkn Hty Hch Ha Ht1 Hkl Hgl Htyl Hinc Hcase)
      as (stP & cur & rest0 & S2 & CP & KP & EP & LP).
    assert (Hl' : fst (lex text) = (pre ++ tn :: tl :: more) ++ t :: rest).
    { rewrite Hl. repeat (rewrite <- app_assoc; cbn [app]). reflexivity. }
    assert (S3 : steps T p_init (map strip_pos (pre ++ tn :: tl :: more)) = Some stP).
    { rewrite map_app, steps_app, S1. exact S2. }
    destruct (t_kind t) eqn:Ek; try (cbn in Hnc; discriminate Hnc);
      try (apply (reject_after_prefix T text (pre ++ tn :: tl :: more) t rest stP _ Hl' S3);
           apply (expected_mismatch T stP t [TIdentifier] EP); rewrite Ek; reflexivity).
    destruct (get_command_instance T L (t_val t)) as [d'|e] eqn:Eg.
    - intro Hnt. apply (reject_after_prefix T text (pre ++ tn :: tl :: more) t rest stP _ Hl' S3).
      apply (ident_not_test T stP t _ _ d' CP KP); [rewrite EP; reflexivity|exact Ek|rewrite LP; exact Eg|exact Hnt].
    - apply (reject_after_prefix T text (pre ++ tn :: tl :: more) t rest stP _ Hl' S3).
      apply (ident_unknown T stP t _ _ e CP KP); [rewrite EP; reflexivity|exact Ek|rewrite LP; exact Eg].
  Qed.

  (* ---- later positions of a test list: after `<control> <list-test> ( t1, .., tk` a comma or ')' must come, and after
     the comma the name of a test *)
  Theorem test_list_later_rejected : forall text pre tn tl lp ttoks cm t rest L prev k d a dl al ts ns,
    wf_prefix T (map strip_pos pre) L prev k ->
    fst (lex text) = pre ++ tn :: tl :: lp :: ttoks ++ cm ++ t :: rest ->
    t_kind tn = TIdentifier -> get_command_instance T L (t_val tn) = inl d ->
    d_type d = CControl -> d_accept_children d = true -> d_args d = [a] -> is_t1 a = true ->
    t_kind tl = TIdentifier -> get_command_instance T L (t_val tl) = inl dl -> d_type dl = CTest ->
    d_args dl = [al] -> is_tl al = true -> d_expected_first dl = Some [TLeftParen] ->
    t_kind lp = TLeftParen ->
    ts <> [] -> Forall2 (wf_test T L) ts ns -> map strip_pos ttoks = toks_tests ts ->
    (cm = [] \/ exists c, cm = [c] /\ strip_pos c = mk TComma [44%N]) ->
    not_comment (t_kind t) = true ->
    match cm with
    | [] => kind_mem (t_kind t) [TComma; TRightParen] = false ->
            parse T text = Reject EExpected (t_pos t) (length (t_val t))
    | _ =>
        match t_kind t with
        | TIdentifier =>
            match get_command_instance T L (t_val t) with
            | inr e => parse T text = Reject e (t_pos t) (length (t_val t))
            | inl d' => d_type d' <> CTest -> parse T text = Reject (ENotTest (d_name d')) (t_pos t) (length (t_val t))
            end
        | _ => parse T text = Reject EExpected (t_pos t) (length (t_val t))
        end
    end.
  Proof.
    intros text pre tn tl lp ttoks cm t rest L prev k d a dl al ts ns
           Hp Hl Hkn Hg Hty Hch Ha Ht1 Hkl Hgl Htyl Hal Htl Hef Hklp Hne HF Htt Hcm Hnc.
    destruct (prefix_ready T HT _ L prev k Hp) as (st & S1 & R1 & L1 & _).
    assert (Htwl : twf dl = true) by (eapply gci_twf; eauto).
    assert (HlN : listf dl al (at_of a) [] (new_frame dl (at_of a))).
    { unfold listf. split; [apply fi_new_frame; exact Htwl|]. cbn. repeat split; reflexivity. }
    destruct (listf_facts dl al (at_of a) Htwl Htyl Hal Htl [] _ HlN) as (_ & _ & _ & Hinc).
    destruct (inner_test_position st L tn tl d a dl [lp] R1 L1 Hg Hkn Hty Hch Ha Ht1 Hkl Hgl Htyl Hinc
                (or_introl (conj Hef (ex_intro _ lp (conj eq_refl Hklp)))))
      as (stP & cur & rest0 & S2 & CP & KP & EP & LP).
    (* the frames: the list test on top of the control that took it *)
    assert (Hstack : exists N1, p_stack stP = new_frame dl (at_of a) :: N1 :: p_stack st).
    { clear -S2 Hg Hkn Hty Hch Ha Ht1 Hkl Hgl Htyl Hinc Hef Hklp R1 L1 HT.
      assert (Htw : twf d = true) by (eapply gci_twf; eauto).
      destruct (after_name st L (t_val tn) d R1 L1 Hg ltac:(congruence)) as (st1 & P1 & C1 & K1 & Ld1 & E1).
      assert (Hha : has_arguments d = true) by (unfold has_arguments; rewrite Ha; reflexivity).
      rewrite Hty, Hch, Hha in E1. cbn in E1.
      destruct (cna_t1_new L d (at_in (p_stack st)) a Htw Ha Ht1) as (N1 & EC & _).
      pose proof (push_test T L st1 _ _ N1 a (t_val tl) dl K1 C1 ltac:(rewrite E1; reflexivity) Ld1 EC Hgl Htyl) as P2.
      set (stL := with_stack (new_frame dl (at_of a) :: N1 :: p_stack st) (with_expected (d_expected_first dl) st1)) in *.
      assert (EsL : p_stack stL = new_frame dl (at_of a) :: N1 :: p_stack st) by reflexivity.
      rewrite (cc_incomplete stL _ _ false EsL Hinc) in P2.
      assert (Etn : strip_pos tn = mk TIdentifier (t_val tn)) by (destruct tn; cbn in *; unfold strip_pos, mk; cbn; congruence).
      assert (Etl : strip_pos tl = mk TIdentifier (t_val tl)) by (destruct tl; cbn in *; unfold strip_pos, mk; cbn; congruence).
      assert (P3 : process T stL lp = MTrue (with_expected (Some [TIdentifier]) (with_brackets (BRParen :: p_brackets stL) (with_expected None stL)))).
      { unfold process. rewrite Hklp. unfold stL at 1. pcbn. rewrite Hef. cbn [kind_mem tkind_eqb orb].
        unfold m_command. pcbn. unfold stL at 1. pcbn. rewrite C1. unfold m_arguments. rewrite Hklp. reflexivity. }
      cbn [map steps] in S2. rewrite Etn, P1, Etl, P2, process_strip, P3 in S2. inversion S2; subst stP.
      exists N1. reflexivity. }
    destruct Hstack as (N1 & EsP).
    assert (HFp : Forall2 (Pst T L) ts ns).
    { clear -HF HT. induction HF; constructor; [apply (run_test T L HT); assumption|assumption]. }
    destruct (tests_loop T L dl al (at_of a) N1 (p_stack st) Htwl Htyl Hal Htl ts ns HFp Hne [] _ stP HlN eq_refl
                (fun F HF0 => eq_trans HF0 (tl_at al Htl)) EsP CP EP LP)
      as (Nf & stE & PE & LE & SE & CE & EE & VE).
    assert (LdE : p_loaded stE = L) by (destruct VE as (_ & V2 & _); congruence).
    assert (S3 : steps T p_init (map strip_pos (pre ++ tn :: tl :: lp :: ttoks)) = Some stE).
    { rewrite map_app, steps_app, S1.
      change (tn :: tl :: lp :: ttoks) with ((tn :: tl :: [lp]) ++ ttoks). rewrite map_app, steps_app, S2, Htt. exact PE. }
    destruct Hcm as [-> |(c & -> & Hc)].
    - intro Hbad. cbn [app] in Hl.
      assert (Hl' : fst (lex text) = (pre ++ tn :: tl :: lp :: ttoks) ++ t :: rest).
      { rewrite Hl. repeat (rewrite <- app_assoc; cbn [app]). reflexivity. }
      apply (reject_after_prefix T text _ t rest stE EExpected Hl' S3).
      apply (expected_mismatch T stE t [TComma; TRightParen] EE Hbad Hnc).
    - set (stC := with_expected (Some [TIdentifier]) (with_expected None stE)).
      assert (PCm : process T stE c = MTrue stC).
      { rewrite <- process_strip, Hc. apply (process_comma_args T N1 (p_stack st) stE Nf SE CE EE). }
      assert (Hl' : fst (lex text) = (pre ++ tn :: tl :: lp :: ttoks ++ [c]) ++ t :: rest).
      { rewrite Hl. repeat (rewrite <- app_assoc; cbn [app]). reflexivity. }
      assert (S4 : steps T p_init (map strip_pos (pre ++ tn :: tl :: lp :: ttoks ++ [c])) = Some stC).
      { replace (pre ++ tn :: tl :: lp :: ttoks ++ [c]) with ((pre ++ tn :: tl :: lp :: ttoks) ++ [c])
          by (repeat (rewrite <- app_assoc; cbn [app]); reflexivity).
        rewrite map_app, steps_app, S3. cbn [map steps]. rewrite process_strip, PCm. reflexivity. }
      assert (CC : p_cstate stC = CArgs) by (unfold stC; pcbn; exact CE).
      assert (KC : p_stack stC = Nf :: N1 :: p_stack st) by (unfold stC; pcbn; exact SE).
      assert (LC : p_loaded stC = L) by (unfold stC; pcbn; exact LdE).
      destruct (t_kind t) eqn:Ek; try (cbn in Hnc; discriminate Hnc);
        try (apply (reject_after_prefix T text _ t rest stC _ Hl' S4);
             apply (expected_mismatch T stC t [TIdentifier] eq_refl); rewrite Ek; reflexivity).
      destruct (get_command_instance T L (t_val t)) as [d'|e] eqn:Eg.
      + intro Hnt. apply (reject_after_prefix T text _ t rest stC _ Hl' S4).
        apply (ident_not_test T stC t _ _ d' CC KC); [reflexivity|exact Ek|rewrite LC; exact Eg|exact Hnt].
      + apply (reject_after_prefix T text _ t rest stC _ Hl' S4).
        apply (ident_unknown T stC t _ _ e CC KC); [reflexivity|exact Ek|rewrite LC; exact Eg].
  Qed.

  (* ---- malformed string lists in the arguments of a test that still needs arguments *)
  Theorem malformed_string_list_in_test_rejected : forall text pre tn tl a0toks lb ltoks t rest L prev k d a dl args0 fN items tc,
    wf_prefix T (map strip_pos pre) L prev k ->
    fst (lex text) = pre ++ tn :: tl :: a0toks ++ lb :: ltoks ++ t :: rest ->
    t_kind tn = TIdentifier -> get_command_instance T L (t_val tn) = inl d ->
    d_type d = CControl -> d_accept_children d = true -> d_args d = [a] -> is_t1 a = true ->
    t_kind tl = TIdentifier -> get_command_instance T L (t_val tl) = inl dl -> d_type dl = CTest ->
    d_expected_first dl = None -> iscomplete (new_frame dl (at_of a)) None = false ->
    Forall arg_ok args0 -> map strip_pos a0toks = flat_map arg_toks args0 ->
    feed (new_frame dl (at_of a)) args0 L = FOk fN -> iscomplete fN None = false ->
    strip_pos lb = mk TLeftBracket [91%N] -> map strip_pos ltoks = open_items items tc ->
    Forall (fun s => utf8_valid s = true) items -> (items = [] -> tc = false) ->
    not_comment (t_kind t) = true ->
    (if match items with [] => true | _ => tc end
     then kind_mem (t_kind t) [TString] = false
     else kind_mem (t_kind t) [TComma; TRightBracket] = false) ->
    parse T text = Reject EExpected (t_pos t) (length (t_val t)).
  Proof.
    intros text pre tn tl a0toks lb ltoks t rest L prev k d a dl args0 fN items tc
           Hp Hl Hkn Hg Hty Hch Ha Ht1 Hkl Hgl Htyl Hef Hinc0 Hall Hat Hfeed Hinc Hlb Hlt Hu Htc Hnc Hbad.
    destruct (prefix_ready T HT _ L prev k Hp) as (st & S1 & R1 & L1 & _).
    assert (Htw : twf d = true) by (eapply gci_twf; eauto).
    assert (Htwl : twf dl = true) by (eapply gci_twf; eauto).
    destruct (after_name st L (t_val tn) d R1 L1 Hg ltac:(congruence)) as (st1 & P1 & C1 & K1 & Ld1 & E1).
    assert (Hha : has_arguments d = true) by (unfold has_arguments; rewrite Ha; reflexivity).
    rewrite Hty, Hch, Hha in E1. cbn in E1.
    destruct (cna_t1_new L d (at_in (p_stack st)) a Htw Ha Ht1) as (N1 & EC & _).
    pose proof (push_test T L st1 _ _ N1 a (t_val tl) dl K1 C1 ltac:(rewrite E1; reflexivity) Ld1 EC Hgl Htyl) as P2.
    set (stL := with_stack (new_frame dl (at_of a) :: N1 :: p_stack st) (with_expected (d_expected_first dl) st1)) in *.
    assert (EsL : p_stack stL = new_frame dl (at_of a) :: N1 :: p_stack st) by reflexivity.
    rewrite (cc_incomplete stL _ _ false EsL Hinc0) in P2.
    assert (HciL : cur_is stL (new_frame dl (at_of a)) (N1 :: p_stack st)).
    { constructor; [exact EsL|unfold stL; pcbn; exact C1|unfold stL; pcbn; exact Hef|apply fi_new_frame; exact Htwl]. }
    assert (LdL : p_loaded stL = L) by (unfold stL; pcbn; exact Ld1).
    assert (Hmid : exists st2, steps T stL (flat_map arg_toks args0) = Some st2 /\ cur_is st2 fN (N1 :: p_stack st)).
    { destruct args0 as [|a0 args'].
      - cbn in Hfeed. inversion Hfeed; subst fN. exists stL. cbn [flat_map steps]. auto.
      - rewrite <- LdL in Hfeed.
        destruct (run_args_gen T (a0 :: args') stL _ _ fN HciL Hall ltac:(discriminate) Hfeed)
          as (stX & ts & PX & SX & CX & EX & VX & FX & _).
        rewrite (cc_incomplete stX fN _ ts SX Hinc) in PX. cbn [ostep] in PX.
        exists stX. split; [exact PX|]. constructor; assumption. }
    destruct Hmid as (st2 & S2 & Hci2).
    destruct (malformed_list_stop_incomplete T st2 fN _ items tc t Hci2 Hinc Hu Htc Hnc Hbad) as (st3 & S3 & X).
    assert (Etn : strip_pos tn = mk TIdentifier (t_val tn)) by (destruct tn; cbn in *; unfold strip_pos, mk; cbn; congruence).
    assert (Etl : strip_pos tl = mk TIdentifier (t_val tl)) by (destruct tl; cbn in *; unfold strip_pos, mk; cbn; congruence).
    assert (Hl' : fst (lex text) = (pre ++ tn :: tl :: a0toks ++ lb :: ltoks) ++ t :: rest).
    { rewrite Hl. repeat (rewrite <- app_assoc; cbn [app]). reflexivity. }
    apply (reject_after_prefix T text _ t rest st3 EExpected Hl'); [|exact X].
    rewrite map_app, steps_app, S1. cbn [map steps]. rewrite Etn, P1, Etl, P2.
    rewrite map_app, steps_app, Hat, S2. cbn [map]. rewrite Hlb, Hlt. exact S3.
  Qed.

  (* ---- the arguments of a test: a string, number or tag that the test does not take at that point (an unknown
     tag, a tag whose extension is not loaded, a value of the wrong type), while the test still needs arguments *)
  Theorem test_argument_rejected : forall text pre tn tl a0toks t rest L prev k d a dl args0 fN ty,
    wf_prefix T (map strip_pos pre) L prev k ->
    fst (lex text) = pre ++ tn :: tl :: a0toks ++ t :: rest ->
    t_kind tn = TIdentifier -> get_command_instance T L (t_val tn) = inl d ->
    d_type d = CControl -> d_accept_children d = true -> d_args d = [a] -> is_t1 a = true ->
    t_kind tl = TIdentifier -> get_command_instance T L (t_val tl) = inl dl -> d_type dl = CTest ->
    d_expected_first dl = None -> iscomplete (new_frame dl (at_of a)) None = false ->
    Forall arg_ok args0 -> map strip_pos a0toks = flat_map arg_toks args0 ->
    feed (new_frame dl (at_of a)) args0 L = FOk fN -> iscomplete fN None = false ->
    (((t_kind t = TString \/ t_kind t = TMultiline) /\ ty = TyString /\ utf8_valid (t_val t) = true) \/
     (t_kind t = TNumber /\ ty = TyNumber) \/ (t_kind t = TTag /\ ty = TyTag)) ->
    match check_next_arg fN ty (VStr (t_val t)) true true L with
    | CnaFalse => parse T text = Reject EUnexpectedToken (t_pos t) (length (t_val t))
    | CnaErr e => parse T text = Reject e (t_pos t) (length (t_val t))
    | _ => True
    end.
  Proof.
    intros text pre tn tl a0toks t rest L prev k d a dl args0 fN ty
           Hp Hl Hkn Hg Hty Hch Ha Ht1 Hkl Hgl Htyl Hef Hinc0 Hall Hat Hfeed Hinc Hk.
    destruct (prefix_ready T HT _ L prev k Hp) as (st & S1 & R1 & L1 & _).
    assert (Htw : twf d = true) by (eapply gci_twf; eauto).
    assert (Htwl : twf dl = true) by (eapply gci_twf; eauto).
    destruct (after_name st L (t_val tn) d R1 L1 Hg ltac:(congruence)) as (st1 & P1 & C1 & K1 & Ld1 & E1).
    assert (Hha : has_arguments d = true) by (unfold has_arguments; rewrite Ha; reflexivity).
    rewrite Hty, Hch, Hha in E1. cbn in E1.
    destruct (cna_t1_new L d (at_in (p_stack st)) a Htw Ha Ht1) as (N1 & EC & _).
    pose proof (push_test T L st1 _ _ N1 a (t_val tl) dl K1 C1 ltac:(rewrite E1; reflexivity) Ld1 EC Hgl Htyl) as P2.
    set (stL := with_stack (new_frame dl (at_of a) :: N1 :: p_stack st) (with_expected (d_expected_first dl) st1)) in *.
    assert (EsL : p_stack stL = new_frame dl (at_of a) :: N1 :: p_stack st) by reflexivity.
    rewrite (cc_incomplete stL _ _ false EsL Hinc0) in P2.
    assert (HciL : cur_is stL (new_frame dl (at_of a)) (N1 :: p_stack st)).
    { constructor; [exact EsL|unfold stL; pcbn; exact C1|unfold stL; pcbn; exact Hef|apply fi_new_frame; exact Htwl]. }
    assert (LdL : p_loaded stL = L) by (unfold stL; pcbn; exact Ld1).
    (* the arguments before the offending one *)
    assert (Hmid : exists st2, steps T stL (flat_map arg_toks args0) = Some st2 /\ cur_is st2 fN (N1 :: p_stack st) /\ p_loaded st2 = L).
    { destruct args0 as [|a0 args'].
      - cbn in Hfeed. inversion Hfeed; subst fN. exists stL. cbn [flat_map steps]. auto.
      - rewrite <- LdL in Hfeed.
        destruct (run_args_gen T (a0 :: args') stL _ _ fN HciL Hall ltac:(discriminate) Hfeed)
          as (stX & ts & PX & SX & CX & EX & VX & FX & _).
        rewrite (cc_incomplete stX fN _ ts SX Hinc) in PX. cbn [ostep] in PX.
        exists stX. split; [exact PX|]. split; [constructor; assumption|].
        destruct VX as (_ & V2 & _). congruence. }
    destruct Hmid as (st2 & S2 & Hci2 & Ld2).
    pose proof (scalar_refused T st2 fN _ t ty Hci2 Hk) as X. rewrite Ld2 in X.
    assert (Etn : strip_pos tn = mk TIdentifier (t_val tn)) by (destruct tn; cbn in *; unfold strip_pos, mk; cbn; congruence).
    assert (Etl : strip_pos tl = mk TIdentifier (t_val tl)) by (destruct tl; cbn in *; unfold strip_pos, mk; cbn; congruence).
    assert (Hl' : fst (lex text) = (pre ++ tn :: tl :: a0toks) ++ t :: rest).
    { rewrite Hl. repeat (rewrite <- app_assoc; cbn [app]). reflexivity. }
    assert (S3 : steps T p_init (map strip_pos (pre ++ tn :: tl :: a0toks)) = Some st2).
    { rewrite map_app, steps_app, S1. cbn [map steps]. rewrite Etn, P1, Etl, P2, Hat. exact S2. }
    destruct (check_next_arg fN ty (VStr (t_val t)) true true L); try exact I;
      apply (reject_after_prefix T text (pre ++ tn :: tl :: a0toks) t rest st2 _ Hl' S3 X).
  Qed.
End Texts.

Print Assumptions prefix_ready.
Print Assumptions args_stop.
Print Assumptions illegal_arguments_rejected.
Print Assumptions test_position_rejected.
