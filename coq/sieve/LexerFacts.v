(* LexerFacts.v — facts about the lexer (Lexer.v) and the printer's rendering of values (Printer.v)
   that property C04 "print/parse round trip" rests on: string and list values survive unchanged
   whatever characters they contain.

   (a) a string token found by the lexer is *exactly* a string token (its text, taken alone, is matched
       completely by the string rule);
   (b) an exact string token is printed as it is (print_item, the repaired list-item quoting) and is lexed
       back as the same single token whatever follows it;
   (c) a printed list of exact string tokens is lexed back as '[' token (',' token)* ']' — the separator
       ", " the printer writes disappears as whitespace — whatever the items contain. *)
From Coq Require Import String.
From Coq Require Import List NArith Bool Arith Lia.
From SV Require Import Bytes Lexer Tables Printer PositionFacts.
Import ListNotations.
Local Open Scope nat_scope.

(* ------------------------------------------------------------------ (a) exact string tokens *)

Definition exact_string (s : bytes) : Prop := scan_string s = Some (length s).

Lemma scan_string_body_prefix : forall l n r,
  scan_string_body l = Some n -> n <= length l /\ scan_string_body (l ++ r) = Some n.
Proof.
  fix IH 1. intros l n r H. destruct l as [|c t]; [discriminate|].
  cbn [scan_string_body] in H. cbn [app scan_string_body length].
  destruct (c =? 34)%N.
  - inversion H; subst. split; [lia|reflexivity].
  - destruct (c =? 92)%N.
    + destruct t as [|d t']; [discriminate|]. cbn [app length]. destruct (d =? 10)%N; [discriminate|].
      destruct (scan_string_body t') as [m|] eqn:E; [|discriminate]. inversion H; subst.
      destruct (IH t' m r E) as (A & B). rewrite B. split; [lia|reflexivity].
    + destruct (scan_string_body t) as [m|] eqn:E; [|discriminate]. inversion H; subst.
      destruct (IH t m r E) as (A & B). rewrite B. split; [lia|reflexivity].
Qed.

Lemma scan_string_cons : forall c t,
  scan_string (c :: t) =
  if (c =? 34)%N then match scan_string_body t with Some n => Some (S n) | None => None end else None.
Proof.
  intros c t. destruct c as [|p]; [reflexivity|].
  do 6 (destruct p as [p|p|]; try reflexivity).
Qed.

Lemma scan_string_prefix : forall l n r,
  scan_string l = Some n -> n <= length l /\ scan_string (l ++ r) = Some n.
Proof.
  intros [|c t] n r H; [discriminate|]. rewrite scan_string_cons in H. cbn [app length]. rewrite scan_string_cons.
  destruct (c =? 34)%N; [|discriminate].
  destruct (scan_string_body t) as [m|] eqn:Eb; [|discriminate]. inversion H; subst.
  destruct (scan_string_body_prefix t m r Eb) as (A & B). rewrite B. split; [lia|reflexivity].
Qed.

(* the matched prefix, taken alone, is matched completely *)
Lemma scan_string_body_firstn : forall l n,
  scan_string_body l = Some n -> scan_string_body (firstn n l) = Some n.
Proof.
  fix IH 1. intros l n H. destruct l as [|c t]; [discriminate|].
  cbn [scan_string_body] in H.
  destruct (c =? 34)%N eqn:E34.
  - inversion H; subst. cbn [firstn scan_string_body]. rewrite E34. reflexivity.
  - destruct (c =? 92)%N eqn:E92.
    + destruct t as [|d t']; [discriminate|]. destruct (d =? 10)%N eqn:E10; [discriminate|].
      destruct (scan_string_body t') as [m|] eqn:E; [|discriminate]. inversion H; subst.
      cbn [firstn scan_string_body]. rewrite E34, E92, E10, (IH t' m E). reflexivity.
    + destruct (scan_string_body t) as [m|] eqn:E; [|discriminate]. inversion H; subst.
      cbn [firstn scan_string_body]. rewrite E34, E92, (IH t m E). reflexivity.
Qed.

Lemma scan_string_firstn : forall l n,
  scan_string l = Some n -> exact_string (firstn n l).
Proof.
  intros l n H. destruct (scan_string_prefix l n [] H) as (Hle & _).
  unfold exact_string. rewrite firstn_length_le by exact Hle.
  destruct l as [|c t]; [discriminate|]. rewrite scan_string_cons in H.
  destruct (c =? 34)%N eqn:E; [|discriminate].
  destruct (scan_string_body t) as [m|] eqn:Eb; [|discriminate]. inversion H; subst.
  cbn [firstn]. rewrite scan_string_cons, E, (scan_string_body_firstn t m Eb). reflexivity.
Qed.

(* which rule fired: the string rule fires exactly when the text starts with a double quote and the
   earlier single-character / comment / text: rules do not *)
Lemma scan_rules_string : forall l n, scan_rules l = Some (TString, n) -> scan_string l = Some n.
Proof.
  intros l n H. unfold scan_rules in H.
  repeat match type of H with
         | orelse ?a ?b = _ =>
             let E := fresh "E" in
             destruct a as [[k m]|] eqn:E;
             [cbn [orelse] in H; inversion H; subst;
              (* the rule that fired has kind TString: only the string rule *)
              try (unfold scan_single in E; destruct l as [|x t]; [discriminate|];
                   destruct (x =? _)%N; discriminate);
              try (unfold with_kind in E;
                   match type of E with match ?s with _ => _ end = _ => destruct s; inversion E; subst end;
                   try discriminate; try reflexivity)
             |cbn [orelse] in H]
         end.
  unfold with_kind in H. destruct (scan_number l); discriminate.
Qed.

(* every string token the lexer delivers is an exact string token *)
Theorem lexed_strings_exact : forall pos l t rest,
  next_token pos l = LTok t rest -> t_kind t = TString -> exact_string (t_val t).
Proof.
  intros pos l t rest H Hk. unfold next_token in H.
  destruct (drop_while is_space l) as [|c l1] eqn:Ed; [discriminate|].
  destruct (scan_rules (c :: l1)) as [[k n]|] eqn:Er; [|discriminate].
  inversion H; subst. cbn [t_kind t_val] in *. subst k.
  apply scan_string_firstn. apply scan_rules_string. exact Er.
Qed.

(* ------------------------------------------------------------------ (b) printed as it is, lexed back *)

Lemma exact_string_shape : forall s, exact_string s -> exists body, s = 34%N :: body /\ body <> [] /\ ends_with [34%N] s = true.
Proof.
  intros s H. unfold exact_string in H. destruct s as [|c t]; [discriminate|]. rewrite scan_string_cons in H.
  destruct (c =? 34)%N eqn:E; [|discriminate]. apply N.eqb_eq in E. subst c.
  exists t. split; [reflexivity|].
  destruct (scan_string_body t) as [m|] eqn:Eb; [|discriminate]. inversion H as [Hm]. cbn [length] in Hm.
  assert (Hml : m = length t) by lia. subst m.
  split; [destruct t; [discriminate|discriminate]|].
  (* the body scanner stops at a double quote that is the last byte *)
  assert (G : forall l, scan_string_body l = Some (length l) -> exists l0, l = l0 ++ [34%N]).
  { fix IH 1. intros l Hl. destruct l as [|x r]; [discriminate|]. cbn [scan_string_body] in Hl.
    destruct (x =? 34)%N eqn:E34.
    - inversion Hl as [Hlen]. cbn [length] in Hlen. destruct r; [|cbn in Hlen; lia].
      apply N.eqb_eq in E34. subst. exists []. reflexivity.
    - destruct (x =? 92)%N.
      + destruct r as [|d r']; [discriminate|]. destruct (d =? 10)%N; [discriminate|].
        destruct (scan_string_body r') as [m|] eqn:E; [|discriminate]. inversion Hl as [Hlen]. cbn [length] in Hlen.
        assert (m = length r') by lia. subst m. destruct (IH r' E) as (l0 & ->). exists (x :: d :: l0). reflexivity.
      + destruct (scan_string_body r) as [m|] eqn:E; [|discriminate]. inversion Hl as [Hlen]. cbn [length] in Hlen.
        assert (m = length r) by lia. subst m. destruct (IH r E) as (l0 & ->). exists (x :: l0). reflexivity. }
  destruct (G t Eb) as (l0 & ->).
  unfold ends_with. change (34%N :: l0 ++ [34%N]) with ((34%N :: l0) ++ [34%N]). rewrite rev_app_distr. reflexivity.
Qed.

(* the repaired list-item printing leaves a string token alone, whatever it contains *)
Theorem print_item_exact : forall s, exact_string s -> print_item s = s.
Proof.
  intros s H. destruct (exact_string_shape s H) as (body & -> & Hne & He).
  unfold print_item. rewrite He.
  assert (Hl : Nat.ltb 1 (length (34%N :: body)) = true).
  { destruct body; [congruence|]. reflexivity. }
  rewrite Hl. cbn [starts_with N.eqb Pos.eqb andb]. reflexivity.
Qed.

Lemma scan_rules_exact : forall s rest, exact_string s -> scan_rules (s ++ rest) = Some (TString, length s).
Proof.
  intros s rest H. destruct (exact_string_shape s H) as (body & -> & _ & _).
  destruct (scan_string_prefix _ _ rest H) as (_ & Hp).
  cbn [app] in *. unfold scan_rules.
  cbn [scan_single N.eqb Pos.eqb orelse scan_hash scan_bracket_comment scan_multiline with_kind].
  rewrite Hp. reflexivity.
Qed.

Lemma next_token_nonspace : forall pos c l k n,
  is_space c = false -> scan_rules (c :: l) = Some (k, n) ->
  next_token pos (c :: l) = LTok (mkTok k (firstn n (c :: l)) pos) (skipn n (c :: l)).
Proof.
  intros pos c l k n Hs Hr. unfold next_token. cbn [take_while drop_while]. rewrite Hs.
  cbn [length]. rewrite Nat.add_0_r, Hr. reflexivity.
Qed.

Theorem next_token_exact : forall pos s rest,
  exact_string s -> next_token pos (s ++ rest) = LTok (mkTok TString s pos) rest.
Proof.
  intros pos s rest H. pose proof (scan_rules_exact s rest H) as Hr.
  destruct (exact_string_shape s H) as (body & Hs & _ & _).
  assert (Ht : s ++ rest = 34%N :: (body ++ rest)) by (rewrite Hs; reflexivity).
  rewrite Ht in Hr. rewrite Ht. rewrite (next_token_nonspace pos 34%N (body ++ rest) TString _ eq_refl Hr). rewrite <- Ht.
  rewrite firstn_app, Nat.sub_diag, firstn_all. cbn [firstn]. rewrite app_nil_r.
  rewrite skipn_app, Nat.sub_diag, skipn_all. cbn [skipn app]. reflexivity.
Qed.

(* ... also after the blank the printer writes between list items and before values *)
Theorem next_token_exact_sp : forall pos s rest,
  exact_string s -> next_token pos (32%N :: s ++ rest) = LTok (mkTok TString s (S pos)) rest.
Proof.
  intros pos s rest H. pose proof (next_token_exact (S pos) s rest H) as N1.
  destruct (exact_string_shape s H) as (body & Hs & _ & _).
  assert (Ht : s ++ rest = 34%N :: (body ++ rest)) by (rewrite Hs; reflexivity).
  unfold next_token in *. rewrite Ht in *.
  change (take_while is_space (32%N :: 34%N :: body ++ rest)) with [32%N].
  change (drop_while is_space (32%N :: 34%N :: body ++ rest)) with (34%N :: body ++ rest).
  change (take_while is_space (34%N :: body ++ rest)) with (@nil N) in N1.
  change (drop_while is_space (34%N :: body ++ rest)) with (34%N :: body ++ rest) in N1.
  cbn [length] in *. rewrite Nat.add_0_r in N1. replace (pos + 1) with (S pos) by lia. exact N1.
Qed.

(* ------------------------------------------------------------------ (c) printed lists *)

Fixpoint next_n (n : nat) (pos : nat) (l : bytes) : option (list (tkind * bytes) * bytes) :=
  match n with
  | O => Some ([], l)
  | S k =>
      match next_token pos l with
      | LTok t rest =>
          match next_n k (t_pos t + length (t_val t)) rest with
          | Some (ts, r) => Some ((t_kind t, t_val t) :: ts, r)
          | None => None
          end
      | _ => None
      end
  end.

Fixpoint commas (items : list bytes) : list (tkind * bytes) :=
  match items with
  | [] => []
  | [x] => [(TString, x)]
  | x :: t => (TString, x) :: (TComma, [44%N]) :: commas t
  end.

Lemma next_token_char : forall pos c k rest,
  is_space c = false -> scan_rules (c :: rest) = Some (k, 1) ->
  next_token pos (c :: rest) = LTok (mkTok k [c] pos) rest.
Proof.
  intros pos c k rest Hs Hr. unfold next_token. cbn [take_while drop_while]. rewrite Hs.
  cbn [length]. rewrite Nat.add_0_r, Hr. reflexivity.
Qed.

Lemma join_cons_ne : forall sep x (l : list bytes), l <> [] -> join sep (x :: l) = x ++ sep ++ join sep l.
Proof. intros sep x [|y t] H; [congruence|reflexivity]. Qed.

Lemma commas_cons_ne : forall x l, l <> [] -> commas (x :: l) = (TString, x) :: (TComma, [44%N]) :: commas l.
Proof. intros x [|y t] H; [congruence|reflexivity]. Qed.

Lemma next_n_S : forall k pos l,
  next_n (S k) pos l =
  match next_token pos l with
  | LTok t rest =>
      match next_n k (t_pos t + length (t_val t)) rest with
      | Some (ts, r) => Some ((t_kind t, t_val t) :: ts, r)
      | None => None
      end
  | _ => None
  end.
Proof. reflexivity. Qed.

(* items separated by ", " and closed by ']' *)
Lemma next_n_items : forall items pos rest,
  items <> [] -> Forall exact_string items ->
  next_n (2 * length items) pos (join [44%N; 32%N] items ++ 93%N :: rest) =
  Some (commas items ++ [(TRightBracket, [93%N])], rest).
Proof.
  induction items as [|s t IH]; intros pos rest Hne Hall; [congruence|].
  inversion Hall as [|s' t' Hs Ht]; subst.
  destruct t as [|w t2].
  - cbn [join length Nat.mul Nat.add]. rewrite next_n_S, (next_token_exact pos s _ Hs). cbn [t_pos t_val t_kind].
    rewrite next_n_S, (next_token_char _ 93%N TRightBracket rest); [|reflexivity|reflexivity].
    cbn [next_n commas app]. reflexivity.
  - replace (2 * length (s :: w :: t2)) with (S (S (2 * length (w :: t2)))) by (cbn [length]; lia).
    assert (Hne' : w :: t2 <> []) by discriminate.
    rewrite (join_cons_ne _ _ _ Hne'), (commas_cons_ne _ _ Hne').
    remember (w :: t2) as items' eqn:Ei. remember (2 * length items') as n2.
    rewrite next_n_S. rewrite <- !app_assoc. rewrite (next_token_exact pos s _ Hs). cbn [t_pos t_val t_kind app].
    rewrite next_n_S, (next_token_char _ 44%N TComma); [|reflexivity|reflexivity].
    cbn [t_pos t_val t_kind length].
    (* the blank after the comma is skipped: the next token is the next item *)
    assert (Hsp : forall p l0 k0, next_n (S k0) p (32%N :: l0) = next_n (S k0) (S p) l0 \/ True) by (intros; right; exact I).
    clear Hsp.
    specialize (IH (pos + length s + 1 + 1) rest Hne' Ht). subst n2.
    (* unfold one step on both sides to move the blank *)
    destruct items' as [|w' t3]; [congruence|]. inversion Ei; subst w' t3.
    inversion Ht as [|w0 t0 Hw Ht2]; subst.
    replace (2 * length (w :: t2)) with (S (S (2 * length t2))) in * by (cbn [length]; lia).
    rewrite next_n_S in IH |- *.
    destruct t2 as [|w2 t4].
    + cbn [join] in *. rewrite (next_token_exact_sp _ w _ Hw). rewrite (next_token_exact _ w _ Hw) in IH.
      cbn [t_pos t_val t_kind] in *.
      replace (S (pos + length s + 1) + length w) with (pos + length s + 1 + 1 + length w) by lia.
      rewrite IH. reflexivity.
    + rewrite (join_cons_ne _ w (w2 :: t4)) in * by discriminate. rewrite <- !app_assoc in *.
      rewrite (next_token_exact_sp _ w _ Hw). rewrite (next_token_exact _ w _ Hw) in IH.
      cbn [t_pos t_val t_kind] in *.
      replace (S (pos + length s + 1) + length w) with (pos + length s + 1 + 1 + length w) by lia.
      rewrite IH. reflexivity.
Qed.

(* a printed list of string tokens is lexed back as '[' items separated by ',' ']', whatever the items
   contain (escaped quotes, backslashes, brackets, commas, newlines, non-ASCII) and whatever follows *)
Theorem printed_list_lexes_back : forall items pos rest,
  items <> [] -> Forall exact_string items ->
  next_n (2 * length items + 1) pos (print_items items ++ rest) =
  Some ((TLeftBracket, [91%N]) :: commas items ++ [(TRightBracket, [93%N])], rest).
Proof.
  intros items pos rest Hne Hall. unfold print_items.
  assert (Hmap : map print_item items = items).
  { rewrite <- (map_id items) at 2. apply map_ext_in. intros s Hs. apply print_item_exact.
    rewrite Forall_forall in Hall. apply Hall. exact Hs. }
  rewrite Hmap. rewrite Nat.add_1_r, next_n_S. cbn [app].
  rewrite (next_token_char _ 91%N TLeftBracket); [|reflexivity|reflexivity].
  cbn [t_pos t_val t_kind length]. rewrite <- app_assoc. cbn [app].
  rewrite next_n_items by assumption. reflexivity.
Qed.

(* non-vacuity: hostile contents *)
Example exact_examples :
  Forall exact_string [bs """a\""b"""; bs """back\\slash"""; bs """[x], """; bs """two" ++ [10%N] ++ bs "lines"""; bs """"""].
Proof. repeat constructor; vm_compute; reflexivity. Qed.

Print Assumptions lexed_strings_exact.
Print Assumptions print_item_exact.
Print Assumptions next_token_exact.
Print Assumptions printed_list_lexes_back.
