(* ArgSpec.v — specification of the argument language of a command definition (definitions only):
   "optional tag groups in any order (each tag possibly followed by a typed parameter), then the
   required positional arguments in order"; a slot filled again takes the later tag and only its parameter.  This is what the property texts call legal,
   correctly typed and correctly ordered arguments; ArgCheckFacts.v proves that the table
   interpreter check_next_arg/iscomplete implements it for well-formed definitions. *)
From Coq Require Import List NArith Bool.
From SV Require Import Bytes Lexer Tables ArgCheck.
Import ListNotations.

Definition argument := (atype * aval)%type.

(* the arguments the parser can feed: string / number / tag tokens and bracketed string lists *)
Definition arg_shape_ok (a : argument) : bool :=
  match a with
  | (TyString, VStr _) | (TyNumber, VStr _) | (TyTag, VStr _) | (TyStringList, VList _) => true
  | _ => false
  end.

Inductive lres :=
| LComplete (args extra : list (bytes * aval))
| LIncomplete (args extra : list (bytes * aval))
| LReject (e : option perr).     (* Some e: a CommandError e; None: check_next_arg returned False *)

(* does value v select slot s (the test of __is_valid_value_for_arg)? *)
Inductive sel := SelYes | SelNo | SelExt (ext : bytes).   (* SelExt: yes but its extension is not loaded *)

Definition slot_selects (s : argdef) (v : bytes) (loaded : list bytes) : sel :=
  match a_values s, a_extension_values s with
  | None, None => SelYes
  | vals, exts =>
      let lv := lower v in
      if (match vals with Some l => mem lv l | None => false end) then SelYes
      else match exts with
           | Some m => match assoc_get lv m with
                       | Some (c :: e) => if mem (c :: e) loaded then SelYes else SelExt (c :: e)
                       | _ => SelNo
                       end
           | None => SelNo
           end
  end.

(* first optional slot (definition order) selected by tag v *)
Fixpoint find_opt (opts : list argdef) (v : bytes) (loaded : list bytes) : option (argdef * sel) :=
  match opts with
  | [] => None
  | s :: t => match slot_selects s v loaded with
              | SelNo => find_opt t v loaded
              | r => Some (s, r)
              end
  end.

Definition takes_param (s : argdef) (v : bytes) : option extra_arg :=
  match a_extra s with
  | None => None
  | Some ex => match ex_valid_for ex with
               | None => Some ex
               | Some vf => if mem (lower v) vf then Some ex else None
               end
  end.

Definition param_ok (ex : extra_arg) (a : argument) : bool :=
  extype_has (fst a) (ex_type ex)
  && match ex_values ex with None => true | Some l => aval_in (snd a) l end.

Definition req_ok (r : argdef) (a : argument) (loaded : list bytes) : sel :=
  if negb (is_valid_type (fst a) (a_type r)) then SelNo
  else match snd a with
       | VStr s => slot_selects r s loaded
       | _ => match a_values r, a_extension_values r with None, None => SelYes | _, _ => SelNo end
       end.

(* phase 2: required positionals in order *)
Fixpoint legal_req (reqs : list argdef) (args : list argument) (loaded : list bytes)
         (am em : list (bytes * aval)) : lres :=
  match reqs with
  | [] => match args with [] => LComplete am em | _ :: _ => LReject None end
  | r :: reqs' =>
      match args with
      | [] => LIncomplete am em
      | a :: args' =>
          match req_ok r a loaded with
          | SelYes => legal_req reqs' args' loaded (assoc_set (a_name r) (snd a) am) em
          | SelExt e => LReject (Some (EExtNotLoaded e))
          | SelNo => LReject (Some EBadArgument)
          end
      end
  end.

(* phase 1: optional tag groups in any order; fuel = length args *)
Fixpoint legal_opt (fuel : nat) (opts reqs : list argdef) (args : list argument) (loaded : list bytes)
         (am em : list (bytes * aval)) : lres :=
  match fuel with
  | O => legal_req reqs args loaded am em
  | S f =>
      match args with
      | (TyTag, VStr v) :: args' =>
          match find_opt opts v loaded with
          | None => legal_req reqs args loaded am em
          | Some (s, SelExt e) => LReject (Some (EExtNotLoaded e))
          | Some (s, _) =>
              match a_extension s with
              | Some (c :: e) =>
                  if mem (c :: e) loaded then
                    let am' := assoc_set (a_name s) (VStr v) am in
                    let em' := assoc_del (a_name s) em in
                    match takes_param s v with
                    | None => legal_opt f opts reqs args' loaded am' em'
                    | Some ex =>
                        match args' with
                        | [] => LIncomplete am' em'
                        | p :: args'' =>
                            if param_ok ex p
                            then legal_opt f opts reqs args'' loaded am' (assoc_set (a_name s) (snd p) em')
                            else LReject (Some EBadValue)
                        end
                    end
                  else LReject (Some (EExtNotLoaded (c :: e)))
              | _ =>
                  let am' := assoc_set (a_name s) (VStr v) am in
                  let em' := assoc_del (a_name s) em in
                  match takes_param s v with
                  | None => legal_opt f opts reqs args' loaded am' em'
                  | Some ex =>
                      match args' with
                      | [] => LIncomplete am' em'
                      | p :: args'' =>
                          if param_ok ex p
                          then legal_opt f opts reqs args'' loaded am' (assoc_set (a_name s) (snd p) em')
                          else LReject (Some EBadValue)
                      end
                  end
              end
          end
      | _ => legal_req reqs args loaded am em
      end
  end.

Definition opt_slots (d : cmddef) : list argdef := filter (fun a => negb (a_required a)) (d_args d).
Definition req_slots (d : cmddef) : list argdef := filter a_required (d_args d).

Definition legal (d : cmddef) (loaded : list bytes) (args : list argument) : lres :=
  match d_args d with
  | [] => match args with [] => LComplete [] [] | _ => LReject None end
  | _ => legal_opt (length args) (opt_slots d) (req_slots d) args loaded [] []
  end.

(* ---- well-formed definitions: optional tag slots first, then at least one required slot *)

Definition is_tag_only (a : argdef) : bool :=
  match a_type a with [TyTag] => true | _ => false end.

Definition has_value_test (a : argdef) : bool :=
  match a_values a, a_extension_values a with None, None => false | _, _ => true end.

Definition simple_type (t : atype) : bool :=
  match t with TyTag | TyString | TyNumber | TyStringList => true | _ => false end.

Definition req_slot_ok (a : argdef) : bool :=
  a_required a
  && forallb simple_type (a_type a)
  && match a_extra a with None => true | Some _ => false end
  (* a required slot that can take a tag must test its value, otherwise any tag would do *)
  && (if atype_mem TyTag (a_type a) then is_tag_only a && has_value_test a else negb (has_value_test a)).

Definition opt_slot_ok (a : argdef) : bool :=
  negb (a_required a) && is_tag_only a && has_value_test a.

Fixpoint split_opts (l : list argdef) : list argdef * list argdef :=
  match l with
  | a :: t => if a_required a then ([], l) else let '(o, r) := split_opts t in (a :: o, r)
  | [] => ([], [])
  end.

Definition wf_def (d : cmddef) : bool :=
  match d_args d with
  | [] => true
  | _ =>
      let '(o, r) := split_opts (d_args d) in
      negb (d_variable_args_nb d)
      && forallb opt_slot_ok o
      && forallb req_slot_ok r
      && match r with [] => false | _ => true end
  end.

(* feeding a sequence of arguments to a fresh instance, as the parser does *)
Inductive fres := FOk (f : frame) | FStop (e : option perr) | FCrash.

Fixpoint feed (f : frame) (args : list argument) (loaded : list bytes) : fres :=
  match args with
  | [] => FOk f
  | a :: t =>
      match check_next_arg f (fst a) (snd a) true true loaded with
      | CnaOk f' _ => feed f' t loaded
      | CnaFalse => FStop None
      | CnaErr e => FStop (Some e)
      | CnaCrash => FCrash
      end
  end.
