(* TotalFacts.v — property C02 "parsing always terminates with a verdict: no exception, no hang",
   proved about the executable model of sievelib.parser.Parser (Machine.v) over any command tables that
   satisfy a decidable structural condition [twf_tables] (checked on the tables generated from /repo).

   Part 1: the table condition.
   Part 2: frame-level facts about check_next_arg (no CnaCrash; counters; who accepts a test).
   Part 3: the state invariant [Inv] = Dead \/ Live and its preservation by [process]:
           no transition of a state satisfying it returns MCrash.
   Part 4: fuel: a rewound token is never rewound twice, tokens are non-empty, hence the fuel of [parse]
           (2 * length text + 2) is never exhausted.
   Part 5: the statement of C02 on the model: [parse T text] is Accept or Reject for every text. *)
From Coq Require Import String.
From Coq Require Import List NArith Bool Arith Lia.
From SV Require Import Bytes Lexer Tables ArgCheck Machine GenTables PositionFacts.
Import ListNotations.
Local Open Scope nat_scope.

Local Arguments up : simpl never.
Local Arguments check_completion : simpl never.
Local Arguments check_next_arg : simpl never.
Local Arguments complete_cb : simpl never.
Local Arguments get_command_instance : simpl never.
Local Arguments reassign_arguments : simpl never.
Local Arguments iscomplete : simpl never.
Local Arguments m_stringlist : simpl never.
Local Arguments m_argument : simpl never.
Local Arguments m_arguments : simpl never.
Local Arguments m_command : simpl never.
Local Arguments attach_into : simpl never.
Local Arguments pop_bracket : simpl never.

(* ====================================================================================== *)
(* Part 1: tables                                                                          *)
(* ====================================================================================== *)

Definition slot_is_test (a : argdef) : bool :=
  atype_mem TyTest (a_type a) || atype_mem TyTestList (a_type a).
Definition has_test_slot (d : cmddef) : bool := existsb slot_is_test (d_args d).
Definition is_tl (a : argdef) : bool := match a_type a with [TyTestList] => true | _ => false end.
Definition is_t1 (a : argdef) : bool := match a_type a with [TyTest] => true | _ => false end.

Definition has_vals (a : argdef) : bool :=
  match a_values a, a_extension_values a with None, None => false | _, _ => true end.

(* a slot whose value is compared (value.lower()) only ever receives str values; no tag parameter is typed
   "test" *)
Definition slot_val_ok (a : argdef) : bool :=
  (if has_vals a then negb (atype_mem TyStringList (a_type a)) && negb (slot_is_test a) else true)
  && match a_extra a with
     | Some ex => negb (extype_has TyTest (ex_type ex))
     | None => true
     end
  && (if a_required a then match a_extra a with None => true | Some _ => false end else true)
  && (if slot_is_test a then a_required a else true).

Definition kinds_eqb (a b : option (list tkind)) : bool :=
  match a, b with
  | None, None => true
  | Some x, Some y => (Nat.eqb (length x) (length y)) && forallb (fun p => tkind_eqb (fst p) (snd p)) (combine x y)
  | _, _ => false
  end.

Definition exp_has (k : tkind) (e : option (list tkind)) : bool :=
  match e with Some l => kind_mem k l | None => false end.

Definition is_ctest (d : cmddef) : bool := match d_type d with CTest => true | _ => false end.

Definition twf (d : cmddef) : bool :=
  forallb slot_val_ok (d_args d)
  && (if d_non_deterministic_args d
      then match d_reassign d with RNotImplemented => false | RHasflag => true end
           && is_ctest d && negb (has_test_slot d)
      else true)
  && (match d_complete d with HRequire => negb (has_test_slot d) | HNone => true end)
  && (if has_test_slot d then
        match d_args d with
        | [a] =>
            a_required a && negb (has_vals a)
            && ((is_t1 a && negb (d_variable_args_nb d)
                 && match d_type d with
                    | CControl => d_accept_children d
                    | CTest => kinds_eqb (d_expected_first d) (Some [TIdentifier])
                    | CAction => false
                    end)
                || (is_tl a && d_variable_args_nb d && is_ctest d
                    && kinds_eqb (d_expected_first d) (Some [TLeftParen])))
        | _ => false
        end
      else negb (d_variable_args_nb d)
           && negb (exp_has TLeftParen (d_expected_first d))
           && match d_type d with
              | CControl => negb (d_accept_children d) || match d_args d with [] => true | _ => false end
              | _ => true
              end)
  && (if d_accept_children d then negb (d_non_deterministic_args d) else true)
  && (match d_type d with CAction => negb (d_accept_children d) | _ => true end)
  && (match d_reassign d with RHasflag => Nat.eqb (required_args d) 1 | RNotImplemented => true end).

Definition twf_tables (T : tables) : bool := forallb (fun kd => twf (snd kd)) T.

Theorem twf_gen_tables : twf_tables gen_tables = true.
Proof. vm_compute. reflexivity. Qed.

(* ====================================================================================== *)
(* Part 2: frames and check_next_arg                                                       *)
(* ====================================================================================== *)

Definition count_req (l : list argdef) : nat := length (filter a_required l).

Lemma count_req_app : forall a b, count_req (a ++ b) = count_req a + count_req b.
Proof. intros a b. unfold count_req. rewrite filter_app, app_length. reflexivity. Qed.

Lemma required_args_split : forall d n,
  required_args d = count_req (firstn n (d_args d)) + count_req (skipn n (d_args d)).
Proof. intros d n. unfold required_args. fold (count_req (d_args d)). rewrite <- count_req_app, firstn_skipn. reflexivity. Qed.

(* counters: either the command already has all its required arguments, or the counters describe the
   slots consumed so far; a test-list command never advances *)
Definition ck (f : frame) : Prop :=
  (f_rargs f = required_args (f_def f) \/
   (f_nextargpos f <= length (d_args (f_def f)) /\
    f_rargs f = count_req (firstn (f_nextargpos f) (d_args (f_def f)))))
  /\ (d_variable_args_nb (f_def f) = true -> f_nextargpos f = 0 /\ f_rargs f = 0).

Definition is_test_val (v : aval) : bool := match v with VTest _ | VTests _ => true | _ => false end.

Definition no_tests_in (args : list (bytes * aval)) : Prop :=
  forall k v, In (k, v) args -> is_test_val v = false.

Definition fi (f : frame) : Prop :=
  twf (f_def f) = true /\ ck f
  /\ (has_test_slot (f_def f) = false -> no_tests_in (f_args f))
  /\ (forall ca, f_curarg f = Some ca -> In ca (d_args (f_def f))).

Definition shape_ok (t : atype) (v : aval) : Prop :=
  match t, v with
  | TyString, VStr _ | TyNumber, VStr _ | TyTag, VStr _ | TyStringList, VList _ => True
  | TyTest, VTests [] => True
  | _, _ => False
  end.

Lemma fi_new_frame : forall d a, twf d = true -> fi (new_frame d a).
Proof.
  intros d a H. unfold fi, ck, no_tests_in, new_frame. cbn.
  split; [exact H|]. split; [split; [right; split; [lia|reflexivity] | intros _; split; reflexivity]|].
  split; [intros _ k v []|intros ca Hc; discriminate].
Qed.

Lemma twf_slots : forall d a, twf d = true -> In a (d_args d) -> slot_val_ok a = true.
Proof.
  intros d a H Hin. unfold twf in H. repeat (apply andb_true_iff in H; destruct H as [H ?]).
  rewrite forallb_forall in H. apply H. exact Hin.
Qed.

(* the single-slot shape of commands that take tests *)
Lemma twf_test_slot : forall d, twf d = true -> has_test_slot d = true ->
  exists a, d_args d = [a] /\ a_required a = true /\ has_vals a = false /\
            ((is_t1 a = true /\ d_variable_args_nb d = false) \/
             (is_tl a = true /\ d_variable_args_nb d = true /\ is_ctest d = true)).
Proof.
  intros d H Ht. unfold twf in H. repeat (apply andb_true_iff in H; destruct H as [H ?]).
  rewrite Ht in *. destruct (d_args d) as [|a [|b l]]; try discriminate.
  exists a. match goal with H1 : (_ && _ && _)%bool = true |- _ => rename H1 into K end.
  apply andb_true_iff in K. destruct K as [K K3]. apply andb_true_iff in K. destruct K as [K1 K2].
  split; auto. split; auto. split; [apply negb_true_iff; exact K2|].
  apply orb_true_iff in K3. destruct K3 as [K3|K3].
  - left. apply andb_true_iff in K3. destruct K3 as [K3 _]. apply andb_true_iff in K3. destruct K3 as [A B].
    split; auto. apply negb_true_iff. exact B.
  - right. repeat (apply andb_true_iff in K3; destruct K3 as [K3 ?]). auto.
Qed.

Lemma twf_no_test_slot : forall d, twf d = true -> has_test_slot d = false -> d_variable_args_nb d = false.
Proof.
  intros d H Ht. unfold twf in H. repeat (apply andb_true_iff in H; destruct H as [H ?]).
  rewrite Ht in *.
  match goal with H1 : (negb (d_variable_args_nb d) && _ && _)%bool = true |- _ => rename H1 into K end.
  repeat (apply andb_true_iff in K; destruct K as [K ?]). apply negb_true_iff. exact K.
Qed.

Lemma is_valid_value_no_crash : forall a t v ce loaded,
  slot_val_ok a = true -> shape_ok t v ->
  (is_valid_type t (a_type a) = true \/ atype_mem t (a_type a) = true) ->
  is_valid_value a v ce loaded <> VCrash.
Proof.
  intros a t v ce loaded Hs Hsh Hty. unfold is_valid_value.
  destruct v as [s|l|n|ns].
  - destruct (a_values a), (a_extension_values a); try discriminate;
      repeat match goal with |- context [if ?c then _ else _] => destruct c
                         | |- context [match ?x with _ => _ end] => destruct x end; discriminate.
  - (* a list: only a stringlist argument; such a slot carries no value test *)
    destruct t; cbn in Hsh; try contradiction.
    unfold slot_val_ok in Hs. repeat (apply andb_true_iff in Hs; destruct Hs as [Hs ?]).
    unfold has_vals in Hs. destruct (a_values a), (a_extension_values a); try discriminate.
    all: exfalso; apply andb_true_iff in Hs; destruct Hs as [Hs _]; apply negb_true_iff in Hs;
      destruct Hty as [Hty|Hty];
      [unfold is_valid_type in Hty; apply orb_true_iff in Hty; destruct Hty as [Hty|Hty];
       [congruence|apply andb_true_iff in Hty; destruct Hty as [Hty _]; discriminate]|congruence].
  - destruct t; cbn in Hsh; contradiction.
  - (* the placeholder of a test argument *)
    destruct t; cbn in Hsh; try contradiction.
    unfold slot_val_ok in Hs. repeat (apply andb_true_iff in Hs; destruct Hs as [Hs ?]).
    unfold has_vals in Hs. destruct (a_values a), (a_extension_values a); try discriminate.
    all: exfalso; apply andb_true_iff in Hs; destruct Hs as [_ Hs]; apply negb_true_iff in Hs;
      unfold slot_is_test in Hs; apply orb_false_iff in Hs; destruct Hs as [Hs _];
      destruct Hty as [Hty|Hty];
      [unfold is_valid_type in Hty; apply orb_true_iff in Hty; destruct Hty as [Hty|Hty];
       [congruence|apply andb_true_iff in Hty; destruct Hty as [Hty _]; discriminate]|congruence].
Qed.

Lemma skipn_cons_facts : forall (A : Type) pos (l : list A) x rest,
  skipn pos l = x :: rest ->
  firstn (S pos) l = firstn pos l ++ [x] /\ S pos <= length l /\ skipn (S pos) l = rest /\ In x l.
Proof.
  intros A. induction pos as [|p IH]; intros l x rest H.
  - cbn in H. subst l. cbn. repeat split; auto. lia.
  - destruct l as [|y l]; [discriminate|]. cbn [skipn] in H. destruct (IH l x rest H) as (A1 & A2 & A3 & A4).
    change (firstn (S (S p)) (y :: l)) with (y :: firstn (S p) l). rewrite A1. cbn [firstn app length skipn].
    repeat split; auto. lia. right. exact A4.
Qed.

Lemma in_assoc_set_inv : forall (V : Type) n (v : V) l k x,
  In (k, x) (assoc_set n v l) -> In (k, x) l \/ x = v.
Proof.
  intros V n v. induction l as [|[k' v'] l IH]; intros k x H; cbn in H.
  - destruct H as [H|[]]. inversion H. auto.
  - destruct (beq n k').
    + destruct H as [H|H]; [inversion H; auto|left; right; exact H].
    + destruct H as [H|H]; [left; left; exact H|]. destruct (IH _ _ H); auto. left. right. assumption.
Qed.

Lemma match_tl : forall (X : Type) (l : list atype) (A B : X),
  match l with [TyTestList] => A | _ => B end =
  if (match l with [TyTestList] => true | _ => false end) then A else B.
Proof. intros X [|[] [|y l]] A B; reflexivity. Qed.

(* results of the scan over the remaining slots *)
Definition scan_post (f : frame) (t : atype) (defs : list argdef) (r : cna) : Prop :=
  match r with
  | CnaCrash => False
  | CnaOk f' None => f' = f /\ count_req defs = 0
  | CnaOk f' (Some ca) =>
      In ca (d_args (f_def f)) /\ f_def f' = f_def f /\ f_attach f' = f_attach f /\ f_children f' = f_children f /\
      fi f' /\
      (t = TyTest ->
       (is_tl ca = true /\ f' = f) \/
       (a_required ca = true /\ atype_mem TyTest (a_type ca) = true /\ is_tl ca = false /\
        f_curarg f' = Some ca /\ f_rargs f' = S (f_rargs f)))
  | _ => True
  end.

Lemma is_valid_type_test : forall l, is_valid_type TyTest l = atype_mem TyTest l.
Proof. intro l. unfold is_valid_type. change (atype_eqb TyTest TyString) with false. cbn. apply orb_false_r. Qed.

Lemma slot_in_has_test : forall d ca, In ca (d_args d) -> slot_is_test ca = true -> has_test_slot d = true.
Proof. intros d ca Hin Hs. unfold has_test_slot. apply existsb_exists. exists ca. auto. Qed.

Lemma atype_mem_test_slot : forall ca, atype_mem TyTest (a_type ca) = true -> slot_is_test ca = true.
Proof. intros ca H. unfold slot_is_test. rewrite H. reflexivity. Qed.

(* the value stored for a non-test argument is not a test value *)
Lemma shape_not_test : forall t v, shape_ok t v -> t <> TyTest -> is_test_val v = false.
Proof. intros t v H Ht. destruct t, v; cbn in H; try contradiction; try reflexivity; congruence. Qed.

Definition upd_req (f : frame) (ca : argdef) (pos : nat) (add : bool) (v : aval) : frame :=
  let f1 := set_counters (set_curarg f (Some ca)) (S pos) (S (f_rargs f)) in
  if add then set_arg f1 (a_name ca) v else f1.

Lemma fi_upd_req : forall f ca pos rest add t v,
  fi f -> skipn pos (d_args (f_def f)) = ca :: rest -> a_required ca = true -> is_tl ca = false ->
  count_req (firstn pos (d_args (f_def f))) = f_rargs f ->
  shape_ok t v -> is_valid_type t (a_type ca) = true ->
  fi (upd_req f ca pos add v).
Proof.
  intros f ca pos rest add t v (Htw & Hck & Hnt & Hcur) Hsk Ereq Etl Hcnt Hsh Hty.
  destruct (skipn_cons_facts _ _ _ _ _ Hsk) as (F1 & F2 & F3 & F4).
  assert (Hdef : f_def (upd_req f ca pos add v) = f_def f) by (unfold upd_req; destruct add; reflexivity).
  unfold fi. rewrite Hdef. split; [exact Htw|]. split; [|split].
  - unfold ck. rewrite Hdef. split.
    + right. unfold upd_req.
      destruct add; cbn [f_nextargpos f_rargs f_def set_arg set_counters set_curarg]; (split; [exact F2|]);
        rewrite F1, count_req_app, Hcnt; unfold count_req; cbn [filter]; rewrite Ereq; cbn [length]; lia.
    + intro Hv. exfalso.
      assert (Ht : has_test_slot (f_def f) = true).
      { destruct (has_test_slot (f_def f)) eqn:E; auto. rewrite (twf_no_test_slot _ Htw E) in Hv. discriminate. }
      destruct (twf_test_slot _ Htw Ht) as (a0 & Ha0 & _ & _ & [(Q1 & Q2)|(Q1 & Q2 & _)]); [congruence|].
      rewrite Ha0 in F4. destruct F4 as [->|[]]. congruence.
  - intros Hts k0 v0 Hin. unfold upd_req in Hin. destruct add; cbn in Hin.
    + apply in_assoc_set_inv in Hin. destruct Hin as [Hin| ->]; [apply (Hnt Hts k0 v0 Hin)|].
      apply (shape_not_test t v Hsh). intros ->. rewrite is_valid_type_test in Hty.
      rewrite (slot_in_has_test _ _ F4 (atype_mem_test_slot _ Hty)) in Hts. discriminate.
    + apply (Hnt Hts k0 v0 Hin).
  - intros ca0 Hc0. unfold upd_req in Hc0. destruct add; cbn in Hc0; inversion Hc0; subst; exact F4.
Qed.

Definition upd_opt (f : frame) (ca : argdef) (takes add : bool) (v : aval) : frame :=
  let f1 := if takes then set_curarg f (Some ca) else f in
  if add then del_extra (set_arg f1 (a_name ca) v) (a_name ca) else f1.

Lemma fi_upd_opt : forall f ca takes add t v,
  fi f -> In ca (d_args (f_def f)) -> a_required ca = false ->
  shape_ok t v -> atype_mem t (a_type ca) = true ->
  fi (upd_opt f ca takes add v).
Proof.
  intros f ca takes add t v (Htw & Hck & Hnt & Hcur) F4 Ereq Hsh Hty.
  assert (Hdef : f_def (upd_opt f ca takes add v) = f_def f) by (unfold upd_opt; destruct add, takes; reflexivity).
  assert (Hso := twf_slots _ _ Htw F4).
  assert (Hnott : t <> TyTest).
  { intros ->. unfold slot_val_ok in Hso. repeat (apply andb_true_iff in Hso; destruct Hso as [Hso ?]).
    rewrite (atype_mem_test_slot _ Hty), Ereq in *. discriminate. }
  unfold fi. rewrite Hdef. split; [exact Htw|]. split; [|split].
  - unfold ck in *. rewrite Hdef. unfold upd_opt. destruct add, takes; cbn; exact Hck.
  - intros Hts k0 v0 Hin. unfold upd_opt in Hin. destruct add.
    + assert (Hin' : In (k0, v0) (assoc_set (a_name ca) v (f_args f))) by (destruct takes; exact Hin).
      apply in_assoc_set_inv in Hin'. destruct Hin' as [Hin'| ->]; [apply (Hnt Hts k0 v0 Hin')|].
      apply (shape_not_test t v Hsh Hnott).
    + assert (Hin' : In (k0, v0) (f_args f)) by (destruct takes; exact Hin). apply (Hnt Hts k0 v0 Hin').
  - intros ca0 Hc0. unfold upd_opt in Hc0. destruct add, takes; cbn in Hc0;
      try (inversion Hc0; subst; exact F4); apply (Hcur _ Hc0).
Qed.

Lemma cna_scan_post : forall f t v add ce loaded,
  fi f -> shape_ok t v ->
  forall defs pos,
    skipn pos (d_args (f_def f)) = defs ->
    count_req (firstn pos (d_args (f_def f))) = f_rargs f ->
    scan_post f t defs (cna_scan f defs pos t v add ce loaded).
Proof.
  intros f t v add ce loaded Hfi Hsh.
  induction defs as [|ca rest IH]; intros pos Hsk Hcnt.
  - cbn. split; reflexivity.
  - destruct (skipn_cons_facts _ _ _ _ _ Hsk) as (F1 & F2 & F3 & F4).
    assert (Htw : twf (f_def f) = true) by apply Hfi.
    pose proof (twf_slots _ _ Htw F4) as Hso.
    cbn [cna_scan]. destruct (a_required ca) eqn:Ereq.
    + (* a required slot is never skipped *)
      rewrite match_tl. fold (is_tl ca). destruct (is_tl ca) eqn:Etl.
      * destruct (atype_eqb t TyTest) eqn:Et; cbn [negb]; [|exact I].
        cbn. split; [exact F4|]. split; [reflexivity|]. split; [reflexivity|]. split; [reflexivity|].
        split; [exact Hfi|]. intros _. left. split; [exact Etl|reflexivity].
      * destruct (is_valid_type t (a_type ca)) eqn:Evt; cbn [negb]; [|exact I].
        pose proof (is_valid_value_no_crash ca t v ce loaded Hso Hsh (or_introl Evt)) as Hnc.
        destruct (is_valid_value ca v ce loaded) eqn:Eiv; try exact I; try congruence.
        change (scan_post f t (ca :: rest) (CnaOk (upd_req f ca pos add v) (Some ca))).
        cbn. split; [exact F4|]. unfold upd_req.
        split; [destruct add; reflexivity|]. split; [destruct add; reflexivity|]. split; [destruct add; reflexivity|].
        split; [apply (fi_upd_req f ca pos rest add t v Hfi Hsk Ereq Etl Hcnt Hsh Evt)|].
        intros ->. right. rewrite is_valid_type_test in Evt. repeat split; auto; destruct add; reflexivity.
    + (* an optional slot: taken if the type and the value fit, skipped otherwise *)
      assert (Hskip : scan_post f t (ca :: rest) (cna_scan f rest (S pos) t v add ce loaded)).
      { specialize (IH (S pos) F3).
        assert (Hc' : count_req (firstn (S pos) (d_args (f_def f))) = f_rargs f).
        { rewrite F1, count_req_app, Hcnt. unfold count_req. cbn. rewrite Ereq. cbn. lia. }
        specialize (IH Hc'). unfold scan_post in *.
        destruct (cna_scan f rest (S pos) t v add ce loaded) as [f' [ca'|]| | |]; auto.
        destruct IH as (A & B). split; auto. unfold count_req in *. cbn. rewrite Ereq. exact B. }
      destruct (atype_mem t (a_type ca)) eqn:Emem; [|exact Hskip].
      pose proof (is_valid_value_no_crash ca t v ce loaded Hso Hsh (or_intror Emem)) as Hnc.
      destruct (is_valid_value ca v ce loaded) eqn:Eiv; try exact I; try congruence; try exact Hskip.
      match goal with |- context [match ?m with Some ext => CnaErr _ | None => _ end] => destruct m end; [exact I|].
      match goal with |- context [if ?tk then set_curarg f (Some ca) else f] => set (takes := tk) end.
      change (scan_post f t (ca :: rest) (CnaOk (upd_opt f ca takes add v) (Some ca))).
      cbn. split; [exact F4|]. unfold upd_opt.
      split; [destruct add, takes; reflexivity|]. split; [destruct add, takes; reflexivity|].
      split; [destruct add, takes; reflexivity|].
      split; [apply (fi_upd_opt f ca takes add t v Hfi F4 Ereq Hsh Emem)|].
      intros ->. exfalso. unfold slot_val_ok in Hso. repeat (apply andb_true_iff in Hso; destruct Hso as [Hso ?]).
      rewrite (atype_mem_test_slot _ Emem), Ereq in *. discriminate.
Qed.

Definition cna_post (f : frame) (t : atype) (r : cna) : Prop :=
  match r with
  | CnaCrash => False
  | CnaOk f' slot =>
      f_def f' = f_def f /\ f_attach f' = f_attach f /\ f_children f' = f_children f /\ fi f' /\
      (t = TyTest ->
       exists ca, slot = Some ca /\ d_args (f_def f) = [ca] /\
                  ((is_tl ca = true /\ f' = f) \/ (is_t1 ca = true /\ iscomplete f' None = true)))
  | _ => True
  end.

Lemma is_tl_slot_test : forall ca, is_tl ca = true -> slot_is_test ca = true.
Proof.
  intros ca H. unfold is_tl in H. unfold slot_is_test.
  destruct (a_type ca) as [|[] [|y l]]; try discriminate. reflexivity.
Qed.

(* in the states where check_next_arg scans, the counters describe the consumed slots *)
Lemma scan_counters : forall f arg,
  fi f -> iscomplete f arg = false ->
  (match f_curarg f with Some ca => match a_extra ca with Some _ => False | None => True end | None => True end) ->
  count_req (firstn (f_nextargpos f) (d_args (f_def f))) = f_rargs f /\
  count_req (skipn (f_nextargpos f) (d_args (f_def f))) <> 0.
Proof.
  intros f arg (Htw & (Hck & Hvar) & _ & _) Hic Hcur.
  unfold iscomplete in Hic. destruct (d_variable_args_nb (f_def f)) eqn:Ev.
  - destruct (Hvar eq_refl) as (Hp & Hr). rewrite Hp, Hr. cbn. split; [reflexivity|].
    assert (Ht : has_test_slot (f_def f) = true).
    { destruct (has_test_slot (f_def f)) eqn:E; auto. rewrite (twf_no_test_slot _ Htw E) in Ev. discriminate. }
    destruct (twf_test_slot _ Htw Ht) as (a0 & Ha0 & Hreq & _). rewrite Ha0. unfold count_req. cbn. rewrite Hreq. discriminate.
  - assert (Hne : Nat.eqb (f_rargs f) (required_args (f_def f)) = false).
    { destruct (f_curarg f) as [ca|]; [destruct (a_extra ca); [contradiction|]|]; cbn in Hic; exact Hic. }
    apply Nat.eqb_neq in Hne. destruct Hck as [Hck|(Hle & Hck)]; [congruence|].
    split; [symmetry; exact Hck|].
    rewrite (required_args_split (f_def f) (f_nextargpos f)) in Hne. lia.
Qed.

Lemma cna_post_holds : forall f t v add ce loaded,
  fi f -> shape_ok t v -> cna_post f t (check_next_arg f t v add ce loaded).
Proof.
  intros f t v add ce loaded Hfi Hsh. unfold check_next_arg.
  destruct (negb (has_arguments (f_def f))); [exact I|].
  destruct (iscomplete f (Some (t, v))) eqn:Eic; [exact I|].
  assert (Htw : twf (f_def f) = true) by apply Hfi.
  assert (Hscan : (match f_curarg f with Some ca => match a_extra ca with Some _ => False | None => True end | None => True end) ->
                  cna_post f t (cna_scan f (skipn (f_nextargpos f) (d_args (f_def f))) (f_nextargpos f) t v add ce loaded)).
  { intro Hc. destruct (scan_counters f _ Hfi Eic Hc) as (Hcnt & Hrem).
    pose proof (cna_scan_post f t v add ce loaded Hfi Hsh _ _ eq_refl Hcnt) as P.
    destruct (cna_scan f (skipn (f_nextargpos f) (d_args (f_def f))) (f_nextargpos f) t v add ce loaded) as [f' [ca|]| | |] eqn:Es;
      cbn in P |- *; auto.
    - destruct P as (Hin & Hd & Ha & Hch & Hf' & Htest).
      split; [exact Hd|]. split; [exact Ha|]. split; [exact Hch|]. split; [exact Hf'|].
      intros ->. specialize (Htest eq_refl). exists ca. split; [reflexivity|].
      assert (Hst : slot_is_test ca = true).
      { destruct Htest as [(Htl & _)|(_ & Hm & _)]; [apply is_tl_slot_test; exact Htl|apply atype_mem_test_slot; exact Hm]. }
      destruct (twf_test_slot _ Htw (slot_in_has_test _ _ Hin Hst)) as (a0 & Ha0 & Hreq & _ & Hkind).
      rewrite Ha0 in Hin. destruct Hin as [->|[]]. split; [exact Ha0|].
      destruct Htest as [(Htl & ->)|(_ & Hm & Hntl & Hcur' & Hr')]; [left; auto|].
      right. destruct Hkind as [(Ht1 & Hnv)|(Htl & _)]; [|congruence]. split; [exact Ht1|].
      (* the command now has its only argument *)
      assert (Hn0 : f_nextargpos f = 0).
      { destruct (f_nextargpos f) as [|n] eqn:En; auto. rewrite Ha0 in Es. cbn in Es. destruct n; cbn in Es; discriminate. }
      rewrite Hn0 in Hcnt. cbn in Hcnt.
      unfold iscomplete. rewrite Hd, Hnv, Hcur'.
      assert (Hnoex : a_extra ca = None).
      { assert (Hso : slot_val_ok ca = true) by (apply (twf_slots _ _ Htw); rewrite Ha0; left; reflexivity).
        unfold slot_val_ok in Hso. repeat (apply andb_true_iff in Hso; destruct Hso as [Hso ?]).
        rewrite Hreq in *. destruct (a_extra ca); [discriminate|reflexivity]. }
      rewrite Hnoex. cbn. unfold required_args. rewrite Ha0. cbn. rewrite Hreq. cbn. rewrite Hr', <- Hcnt. reflexivity.
    - destruct P as (-> & Hz). contradiction. }
  destruct (f_curarg f) as [ca|] eqn:Ecur; [|apply Hscan; exact I].
  destruct (a_extra ca) as [ex|] eqn:Eex; [|apply Hscan; exact I].
  match goal with |- cna_post _ _ (if ?c then _ else _) => destruct c eqn:Ec end; [|exact I].
  destruct Hfi as (_ & Hck & Hnt & Hcur).
  cbn. split; [destruct add; reflexivity|]. split; [destruct add; reflexivity|]. split; [destruct add; reflexivity|].
  split.
  - assert (G : forall g, f_def g = f_def f -> f_args g = f_args f -> f_nextargpos g = f_nextargpos f ->
                       f_rargs g = f_rargs f -> f_curarg g = None -> fi g).
    { intros g G1 G2 G3 G4 G5. unfold fi, ck. rewrite G1, G2, G3, G4, G5.
      split; [exact Htw|]. split; [exact Hck|]. split; [exact Hnt|]. intros ca0 Hc0. discriminate. }
    destruct add; apply G; reflexivity.
  - intros ->. exfalso. apply andb_true_iff in Ec. destruct Ec as [Ec _].
    pose proof (twf_slots _ _ Htw (Hcur _ Ecur)) as Hso.
    unfold slot_val_ok in Hso. repeat (apply andb_true_iff in Hso; destruct Hso as [Hso ?]).
    rewrite Eex in *. match goal with H : negb (extype_has TyTest (ex_type ex)) = true |- _ => apply negb_true_iff in H; congruence end.
Qed.

(* iscomplete only looks at the definition, the pending slot and the required-argument counter *)
Lemma iscomplete_ext : forall f g arg,
  f_def g = f_def f -> f_curarg g = f_curarg f -> f_rargs g = f_rargs f -> iscomplete g arg = iscomplete f arg.
Proof. intros f g arg H1 H2 H3. unfold iscomplete. rewrite H1, H2, H3. reflexivity. Qed.

Lemma iscomplete_test_arg : forall f v, fi f -> iscomplete f (Some (TyTest, v)) = iscomplete f None.
Proof.
  intros f v (Htw & _ & _ & Hcur). unfold iscomplete.
  destruct (d_variable_args_nb (f_def f)); auto.
  destruct (f_curarg f) as [ca|] eqn:Ec; auto.
  destruct (a_extra ca) as [ex|] eqn:Ee; auto.
  destruct (ex_valid_for ex); auto.
  pose proof (twf_slots _ _ Htw (Hcur _ eq_refl)) as Hso.
  unfold slot_val_ok in Hso. repeat (apply andb_true_iff in Hso; destruct Hso as [Hso ?]).
  rewrite Ee in *.
  match goal with H : negb (extype_has TyTest (ex_type ex)) = true |- _ => apply negb_true_iff in H; rewrite H end.
  reflexivity.
Qed.

Lemma accepts_no_test : forall f add ce loaded,
  fi f -> (has_test_slot (f_def f) = false \/ iscomplete f None = true) ->
  match check_next_arg f TyTest placeholder add ce loaded with
  | CnaOk _ _ => False | CnaCrash => False | _ => True
  end.
Proof.
  intros f add ce loaded Hfi H.
  pose proof (cna_post_holds f TyTest placeholder add ce loaded Hfi I) as P.
  destruct (check_next_arg f TyTest placeholder add ce loaded) as [f' slot| | |] eqn:E; auto.
  destruct P as (_ & _ & _ & _ & P). destruct (P eq_refl) as (ca & _ & Hargs & Hk).
  destruct H as [H|H].
  - assert (has_test_slot (f_def f) = true); [|congruence].
    apply (slot_in_has_test _ ca); [rewrite Hargs; left; reflexivity|].
    destruct Hk as [(Hk & _)|(Hk & _)]; [apply is_tl_slot_test; exact Hk|].
    unfold is_t1 in Hk. unfold slot_is_test. destruct (a_type ca) as [|[] [|y l]]; try discriminate. reflexivity.
  - unfold check_next_arg in E. destruct (negb (has_arguments (f_def f))); [discriminate|].
    rewrite (iscomplete_test_arg f _ Hfi), H in E. discriminate.
Qed.

(* a command that accepted a string / number / tag / string list takes no tests *)
Lemma cna_nontest : forall f t v add ce loaded f' slot,
  fi f -> shape_ok t v -> t <> TyTest ->
  check_next_arg f t v add ce loaded = CnaOk f' slot -> has_test_slot (f_def f) = false.
Proof.
  intros f t v add ce loaded f' slot Hfi Hsh Ht E.
  destruct (has_test_slot (f_def f)) eqn:Hts; auto. exfalso.
  assert (Htw : twf (f_def f) = true) by apply Hfi.
  destruct (twf_test_slot _ Htw Hts) as (a0 & Ha0 & Hreq & Hnv & Hkind).
  assert (Hso : slot_val_ok a0 = true) by (apply (twf_slots _ _ Htw); rewrite Ha0; left; reflexivity).
  assert (Hnoex : a_extra a0 = None).
  { unfold slot_val_ok in Hso. repeat (apply andb_true_iff in Hso; destruct Hso as [Hso ?]).
    rewrite Hreq in *. destruct (a_extra a0); [discriminate|reflexivity]. }
  unfold check_next_arg in E. destruct (negb (has_arguments (f_def f))); [discriminate|].
  destruct (iscomplete f (Some (t, v))) eqn:Eic; [discriminate|].
  assert (Hc : match f_curarg f with Some ca => match a_extra ca with Some _ => False | None => True end | None => True end).
  { destruct (f_curarg f) as [ca|] eqn:Ec; auto.
    destruct Hfi as (_ & _ & _ & Hcur). pose proof (Hcur _ Ec) as Hin. rewrite Ha0 in Hin.
    destruct Hin as [<-|[]]. rewrite Hnoex. exact I. }
  destruct (scan_counters f _ Hfi Eic Hc) as (Hcnt & Hrem).
  assert (Hn0 : f_nextargpos f = 0).
  { destruct (f_nextargpos f) as [|n]; auto. rewrite Ha0 in Hrem. destruct n; cbn in Hrem; congruence. }
  assert (Es : cna_scan f [a0] 0 t v add ce loaded = CnaOk f' slot).
  { destruct (f_curarg f) as [ca|] eqn:Ec.
    - destruct (a_extra ca); [contradiction|]. rewrite Hn0, Ha0 in E. exact E.
    - rewrite Hn0, Ha0 in E. exact E. }
  cbn [cna_scan] in Es. rewrite Hreq, match_tl in Es. fold (is_tl a0) in Es.
  assert (Hneq : atype_eqb t TyTest = false) by (destruct t, v; cbn in Hsh; try contradiction; try reflexivity; congruence).
  destruct Hkind as [(Ht1 & _)|(Htl & _)].
  - assert (Htl : is_tl a0 = false) by (unfold is_tl, is_t1 in *; destruct (a_type a0) as [|[] [|y l]]; try discriminate; reflexivity).
    rewrite Htl in Es.
    assert (Hvt : is_valid_type t (a_type a0) = false).
    { unfold is_t1 in Ht1. destruct (a_type a0) as [|[] [|y l]]; try discriminate.
      unfold is_valid_type. cbn [atype_mem]. rewrite Hneq. cbn. rewrite andb_false_r. reflexivity. }
    rewrite Hvt in Es. discriminate.
  - rewrite Htl, Hneq in Es. discriminate.
Qed.

Lemma assoc_get_In : forall (V : Type) k (l : list (bytes * V)) v, assoc_get k l = Some v -> exists k', In (k', v) l.
Proof.
  intros V k. induction l as [|[k' v'] l IH]; intros v H; cbn in H; [discriminate|].
  destruct (beq k k'); [inversion H; subst; exists k'; left; reflexivity|].
  destruct (IH _ H) as (k2 & Hin). exists k2. right. exact Hin.
Qed.

Lemma assoc_del_incl : forall (V : Type) k (l : list (bytes * V)) x, In x (assoc_del k l) -> In x l.
Proof.
  intros V k. induction l as [|[k' v'] l IH]; intros x H; cbn in H; [contradiction|].
  destruct (beq k k'); [right; exact H|]. destruct H as [H|H]; [left; exact H|right; apply IH; exact H].
Qed.

Lemma twf_reassign : forall d, twf d = true -> d_reassign d = RHasflag -> required_args d = 1.
Proof.
  intros d H Hr. unfold twf in H. repeat (apply andb_true_iff in H; destruct H as [H ?]).
  rewrite Hr in *. apply Nat.eqb_eq. assumption.
Qed.

Lemma fi_reassign : forall f f',
  fi f -> has_test_slot (f_def f) = false -> reassign_arguments f = Some f' ->
  fi f' /\ f_def f' = f_def f /\ f_attach f' = f_attach f /\ f_children f' = f_children f.
Proof.
  intros f f' Hfi Hts H. pose proof Hfi as (Htw & Hck & Hnt & Hcur). unfold reassign_arguments in H.
  destruct (d_reassign (f_def f)) eqn:Er; [discriminate|].
  match type of H with context [assoc_get ?vl (f_args f)] => destruct (assoc_get vl (f_args f)) as [v|] eqn:Ev end.
  - match type of H with context [assoc_get ?lf (f_args f)] => destruct (assoc_get lf (f_args f)) as [w|] eqn:Ew end;
      inversion H; subst f'; clear H.
    + split; [exact Hfi|repeat split].
    + split; [|repeat split]. unfold fi, ck. cbn. split; [exact Htw|]. split.
      * split; [left; symmetry; apply twf_reassign; assumption|].
        intro Hv. rewrite (twf_no_test_slot _ Htw Hts) in Hv. discriminate.
      * split; [|exact Hcur].
        intros _ k x Hin. apply in_app_or in Hin. destruct Hin as [Hin|[Hin|[]]].
        -- apply (Hnt Hts k x). eapply assoc_del_incl. exact Hin.
        -- inversion Hin; subst. destruct (assoc_get_In _ _ _ _ Ev) as (k' & Hk'). apply (Hnt Hts k' x Hk').
  - inversion H; subst f'. split; [exact Hfi|repeat split].
Qed.

Lemma fi_attach : forall c p,
  fi p ->
  (match f_attach c with AtTest _ | AtTestList _ => has_test_slot (f_def p) = true | _ => True end) ->
  fi (attach_into c p) /\ f_def (attach_into c p) = f_def p /\ f_attach (attach_into c p) = f_attach p /\
  f_curarg (attach_into c p) = f_curarg p /\ f_rargs (attach_into c p) = f_rargs p /\
  f_nextargpos (attach_into c p) = f_nextargpos p.
Proof.
  intros c p Hfi Ha. pose proof Hfi as (Htw & Hck & Hnt & Hcur). unfold attach_into.
  destruct (f_attach c) as [| |slot|slot].
  - split; [exact Hfi|repeat split].
  - split; [|repeat split]. unfold fi, ck in *. cbn. exact Hfi.
  - split; [|repeat split]. unfold fi, ck in *. cbn. split; [exact Htw|]. split; [exact Hck|]. split; [|exact Hcur].
    intro Hts. rewrite Ha in Hts. discriminate.
  - split; [|repeat split]. unfold append_test. unfold fi, ck in *. cbn. split; [exact Htw|]. split; [exact Hck|]. split; [|exact Hcur].
    intro Hts. rewrite Ha in Hts. discriminate.
Qed.

(* ====================================================================================== *)
(* Part 3: the state invariant                                                             *)
(* ====================================================================================== *)

Definition is_vartest (f : frame) : bool := is_test f && d_variable_args_nb (f_def f).
Definition n_vartest (s : list frame) : nat := length (filter is_vartest s).
Definition n_nontest (s : list frame) : nat := length (filter (fun f => negb (is_test f)) s).
Definition n_paren (b : list bracket) : nat := length (filter (bracket_eqb BRParen) b).
(* the brackets above the topmost string-list bracket *)
Fixpoint seg (b : list bracket) : list bracket :=
  match b with
  | [] => []
  | BRBracket :: _ => []
  | x :: t => x :: seg t
  end.
Definition n_cbr (b : list bracket) : nat := length (filter (bracket_eqb BRCBracket) (seg b)).

Definition plain_attach (f : frame) : Prop :=
  match f_attach f with AtTop | AtChild => True | _ => False end.

(* a frame [c] directly above its parent [p] *)
Definition adj_ok (c p : frame) : Prop :=
  d_non_deterministic_args (f_def p) = false /\
  (if is_test c
   then has_test_slot (f_def p) = true /\ (iscomplete p None = true \/ d_variable_args_nb (f_def p) = true)
   else is_control p = true /\ iscomplete p None = true /\ plain_attach c).

Fixpoint stack_ok (s : list frame) : Prop :=
  match s with
  | [] => True
  | c :: t => fi c /\ match t with [] => is_test c = false | p :: _ => adj_ok c p end /\ stack_ok t
  end.

Lemma stack_ok_tail : forall c t, stack_ok (c :: t) -> stack_ok t.
Proof. intros c t (_ & _ & H). exact H. Qed.

Lemma stack_ok_top : forall c t, stack_ok (c :: t) -> fi c.
Proof. intros c t (H & _). exact H. Qed.

Lemma stack_ok_replace : forall c c' t,
  stack_ok (c :: t) -> fi c' -> f_def c' = f_def c -> f_attach c' = f_attach c -> stack_ok (c' :: t).
Proof.
  intros c c' t (Hf & Ha & Ht) Hf' Hd Hat. cbn. split; [exact Hf'|]. split; [|exact Ht].
  destruct t as [|p t'].
  - unfold is_test in *. rewrite Hd. exact Ha.
  - unfold adj_ok, is_test, plain_attach in *. rewrite Hd, Hat. exact Ha.
Qed.

Lemma is_control_not_test : forall f, is_control f = true -> is_test f = false.
Proof. intros f H. unfold is_control, is_test in *. destruct (d_type (f_def f)); try discriminate; reflexivity. Qed.

Lemma nontest_below : forall t c, stack_ok (c :: t) -> is_test c = false -> forall f, In f t -> is_test f = false.
Proof.
  induction t as [|p t IH]; intros c Hs Hc f Hin; [destruct Hin|].
  destruct Hs as (_ & Ha & Ht). unfold adj_ok in Ha. rewrite Hc in Ha. destruct Ha as (_ & Hctl & _).
  pose proof (is_control_not_test _ Hctl) as Hp.
  destruct Hin as [<-|Hin]; [exact Hp|]. apply (IH p Ht Hp f Hin).
Qed.

Lemma test_has_parent : forall c t, stack_ok (c :: t) -> is_test c = true -> t <> [].
Proof. intros c [|p t] (_ & Ha & _) Hc; [congruence|discriminate]. Qed.

Lemma n_vartest_nontest : forall s, (forall f, In f s -> is_test f = false) -> n_vartest s = 0.
Proof.
  induction s as [|f s IH]; intro H; [reflexivity|]. unfold n_vartest in *. cbn [filter].
  unfold is_vartest at 1. rewrite (H f (or_introl eq_refl)). cbn. apply IH. intros g Hg. apply H. right. exact Hg.
Qed.

Lemma n_nontest_pos : forall s, stack_ok s -> s <> [] -> 1 <= n_nontest s.
Proof.
  induction s as [|c t IH]; intros Hs Hne; [congruence|]. unfold n_nontest in *. cbn [filter].
  destruct t as [|p t'].
  - destruct Hs as (_ & Hc & _). rewrite Hc. cbn. lia.
  - specialize (IH (stack_ok_tail _ _ Hs)). destruct (negb (is_test c)); cbn [length]; [lia|]. apply IH. discriminate.
Qed.

Lemma twf_test_slot_kind : forall d, twf d = true -> has_test_slot d = true ->
  d_non_deterministic_args d = false /\
  match d_type d with CAction => False | _ => True end /\
  (d_variable_args_nb d = true -> is_ctest d = true).
Proof.
  intros d H Ht. pose proof H as H0. unfold twf in H. repeat (apply andb_true_iff in H; destruct H as [H ?]).
  rewrite Ht in *. split.
  - destruct (d_non_deterministic_args d); auto.
    match goal with K : (_ && is_ctest d && negb true)%bool = true |- _ => rewrite andb_false_r in K; discriminate end.
  - destruct (twf_test_slot d H0 Ht) as (a & Ha & _ & _ & Hk).
    match goal with K : match d_args d with [] => _ | _ => _ end = true |- _ => rename K into K0 end.
    rewrite Ha in K0. apply andb_true_iff in K0. destruct K0 as [_ K0].
    split.
    + apply orb_true_iff in K0. destruct K0 as [K0|K0].
      * apply andb_true_iff in K0. destruct K0 as [_ K0]. destruct (d_type d); auto; discriminate.
      * repeat (apply andb_true_iff in K0; destruct K0 as [K0 ?]). unfold is_ctest in *. destruct (d_type d); auto; discriminate.
    + intro Hv. destruct Hk as [(_ & Hn)|(_ & _ & Hc)]; [congruence|exact Hc].
Qed.

(* a test-list command always takes one more test and stays as it is *)
Lemma cna_vartest : forall f v add ce loaded,
  fi f -> has_test_slot (f_def f) = true -> d_variable_args_nb (f_def f) = true ->
  exists a, check_next_arg f TyTest v add ce loaded = CnaOk f (Some a) /\ is_tl a = true.
Proof.
  intros f v add ce loaded Hfi Hts Hv. pose proof Hfi as (Htw & (Hck & Hvar) & Hnt & Hcur).
  destruct (twf_test_slot _ Htw Hts) as (a & Ha & Hreq & _ & [(_ & Hn)|(Htl & _ & _)]); [congruence|].
  exists a. split; [|exact Htl].
  destruct (Hvar Hv) as (Hp & _).
  assert (Hso : slot_val_ok a = true) by (apply (twf_slots _ _ Htw); rewrite Ha; left; reflexivity).
  assert (Hnoex : a_extra a = None).
  { unfold slot_val_ok in Hso. repeat (apply andb_true_iff in Hso; destruct Hso as [Hso ?]).
    rewrite Hreq in *. destruct (a_extra a); [discriminate|reflexivity]. }
  unfold check_next_arg, has_arguments. rewrite Ha. cbn [negb].
  assert (Hic : iscomplete f (Some (TyTest, v)) = false) by (unfold iscomplete; rewrite Hv; reflexivity).
  rewrite Hic, Hp. cbn [skipn].
  assert (Hscan : cna_scan f [a] 0 TyTest v add ce loaded = CnaOk f (Some a)).
  { cbn [cna_scan]. rewrite Hreq, match_tl. fold (is_tl a). rewrite Htl. reflexivity. }
  destruct (f_curarg f) as [ca|] eqn:Ec; [|exact Hscan].
  pose proof (Hcur _ eq_refl) as Hin. rewrite Ha in Hin. destruct Hin as [<-|[]]. rewrite Hnoex. exact Hscan.
Qed.

Definition same_io (st st' : pstate) : Prop :=
  p_cstate st' = p_cstate st /\ p_curlist st' = p_curlist st /\ p_brackets st' = p_brackets st /\
  p_loaded st' = p_loaded st /\ p_hash st' = p_hash st /\ p_result st' = p_result st.

Lemma same_io_refl : forall st, same_io st st.
Proof. intro st. unfold same_io. repeat split. Qed.

Lemma same_io_se : forall st s e, same_io st (with_stack s (with_expected e st)).
Proof. intros st s e. unfold same_io. cbn. repeat split. Qed.

Lemma same_io_s : forall st s, same_io st (with_stack s st).
Proof. intros st s. unfold same_io. cbn. repeat split. Qed.

Definition cc_test_post (st : pstate) (cur : frame) (rest : list frame) (r : mres) : Prop :=
  match r with
  | MTrue st' =>
      exists top' rest',
        p_stack st' = top' :: rest' /\ same_io st st' /\ stack_ok (top' :: rest') /\
        n_vartest (top' :: rest') = n_vartest (cur :: rest) /\
        n_nontest (top' :: rest') = n_nontest (cur :: rest) /\
        d_non_deterministic_args (f_def top') = false /\
        ((p_expected st' = Some [TLeftCBracket] /\ is_test top' = false) \/
         (p_expected st' = Some [TComma; TRightParen] /\ is_vartest top' = true))
  | _ => False
  end.

Lemma is_vartest_def : forall f g, f_def g = f_def f -> is_vartest g = is_vartest f.
Proof. intros f g H. unfold is_vartest, is_test. rewrite H. reflexivity. Qed.

Lemma is_test_def : forall f g, f_def g = f_def f -> is_test g = is_test f.
Proof. intros f g H. unfold is_test. rewrite H. reflexivity. Qed.

Lemma complete_not_vartest : forall f, iscomplete f None = true -> is_vartest f = false.
Proof.
  intros f H. unfold is_vartest. unfold iscomplete in H.
  destruct (d_variable_args_nb (f_def f)); [discriminate|]. apply andb_false_r.
Qed.

Lemma n_vartest_cons : forall f s, n_vartest (f :: s) = (if is_vartest f then 1 else 0) + n_vartest s.
Proof. intros f s. unfold n_vartest. cbn [filter]. destruct (is_vartest f); reflexivity. Qed.

Lemma n_nontest_cons : forall f s, n_nontest (f :: s) = (if is_test f then 0 else 1) + n_nontest s.
Proof. intros f s. unfold n_nontest. cbn [filter]. destruct (is_test f); reflexivity. Qed.

(* leaving a complete test: the walk up stops at the enclosing control (which then wants its block) or
   at the enclosing test list (which then wants ',' or ')') *)
Lemma cc_loop_test : forall rest cur st,
  stack_ok (cur :: rest) -> is_test cur = true -> iscomplete cur None = true ->
  cc_test_post st cur rest (cc_loop cur rest st).
Proof.
  induction rest as [|parent rest' IH]; intros cur st Hs Ht Hc.
  - exfalso. apply (test_has_parent _ _ Hs Ht). reflexivity.
  - pose proof Hs as (Hfc & Ha & Hs').
    unfold adj_ok in Ha. rewrite Ht in Ha. destruct Ha as (Hnd & Hts & Hready).
    pose proof (stack_ok_top _ _ Hs') as Hfp.
    assert (Htwp : twf (f_def parent) = true) by apply Hfp.
    destruct (twf_test_slot_kind _ Htwp Hts) as (_ & Hkind & Hvt).
    destruct (fi_attach cur parent Hfp) as (Hf1 & Hd1 & Ha1 & Hc1 & Hr1 & Hn1).
    { destruct (f_attach cur); auto. }
    set (p1 := attach_into cur parent) in *.
    assert (Hs1 : stack_ok (p1 :: rest')) by (apply (stack_ok_replace parent); auto).
    assert (Hic1 : iscomplete p1 None = iscomplete parent None) by (apply iscomplete_ext; auto).
    assert (Hcv : is_vartest cur = false) by (apply complete_not_vartest; exact Hc).
    cbn [cc_loop]. fold p1.
    assert (Hct : is_control p1 || is_test p1 = true).
    { unfold is_control, is_test. rewrite Hd1. destruct (d_type (f_def parent)); auto; contradiction. }
    rewrite Hct, Hic1.
    destruct (iscomplete parent None) eqn:Ecp.
    + destruct (is_control p1) eqn:Ectl.
      * (* the enclosing control is complete *)
        unfold cc_test_post. exists p1, rest'. split; [reflexivity|]. split; [apply same_io_se|]. split; [exact Hs1|].
        split; [rewrite !n_vartest_cons, Hcv, (is_vartest_def parent p1 Hd1); reflexivity|].
        split; [rewrite !n_nontest_cons, Ht, (is_test_def parent p1 Hd1); reflexivity|].
        split; [rewrite Hd1; exact Hnd|].
        left. split; [reflexivity|apply is_control_not_test; exact Ectl].
      * (* an enclosing test (not) is complete as well: go on *)
        assert (Htp : is_test p1 = true) by exact Hct.
        assert (Hcp1 : iscomplete p1 None = true) by exact Hic1.
        specialize (IH p1 st Hs1 Htp Hcp1).
        unfold cc_test_post in *. destruct (cc_loop p1 rest' st); try contradiction.
        destruct IH as (top' & r' & E1 & E2 & E3 & E4 & E5 & E6 & E7).
        exists top', r'. split; [exact E1|]. split; [exact E2|]. split; [exact E3|].
        split; [rewrite E4, !n_vartest_cons, Hcv, (is_vartest_def parent p1 Hd1); reflexivity|].
        split; [rewrite E5, !n_nontest_cons, Ht, (is_test_def parent p1 Hd1); reflexivity|].
        split; [exact E6|exact E7].
    + (* not complete: a test list *)
      destruct Hready as [Hready|Hvar]; [discriminate|].
      assert (Hv1 : d_variable_args_nb (f_def p1) = true) by (rewrite Hd1; exact Hvar).
      assert (Hts1 : has_test_slot (f_def p1) = true) by (rewrite Hd1; exact Hts).
      destruct (cna_vartest p1 placeholder false true (p_loaded st) Hf1 Hts1 Hv1) as (a & Hcna & _).
      rewrite Hcna.
      assert (Hnc : iscomplete p1 None = false) by exact Hic1.
      rewrite Hnc. cbn [negb]. rewrite Hv1.
      unfold cc_test_post. exists p1, rest'. split; [reflexivity|]. split; [apply same_io_se|]. split; [exact Hs1|].
      split; [rewrite !n_vartest_cons, Hcv, (is_vartest_def parent p1 Hd1); reflexivity|].
      split; [rewrite !n_nontest_cons, Ht, (is_test_def parent p1 Hd1); reflexivity|].
      split; [rewrite Hd1; exact Hnd|].
      right. split; [reflexivity|].
      unfold is_vartest. rewrite Hv1, andb_true_r. unfold is_test. rewrite Hd1.
      specialize (Hvt Hvar). unfold is_ctest in Hvt. exact Hvt.
Qed.

(* leaving a complete control that accepts children (else, or an if whose test list was closed) when a
   string list is opened after it: the enclosing control becomes current again *)
Lemma cc_loop_nontest : forall rest cur st,
  stack_ok (cur :: rest) -> is_test cur = false ->
  match rest with
  | [] => cc_loop cur rest st = MTrue (with_stack [cur] st)
  | parent :: rest' =>
      cc_loop cur rest st =
      MTrue (with_stack (attach_into cur parent :: rest') (with_expected (Some [TLeftCBracket]) st)) /\
      stack_ok (attach_into cur parent :: rest') /\ is_test (attach_into cur parent) = false /\
      f_def (attach_into cur parent) = f_def parent
  end.
Proof.
  intros [|parent rest'] cur st Hs Ht; [reflexivity|].
  pose proof Hs as (Hfc & Ha & Hs').
  unfold adj_ok in Ha. rewrite Ht in Ha. destruct Ha as (Hnd & Hctl & Hcomp & Hplain).
  pose proof (stack_ok_top _ _ Hs') as Hfp.
  destruct (fi_attach cur parent Hfp) as (Hf1 & Hd1 & Ha1 & Hc1 & Hr1 & Hn1).
  { unfold plain_attach in Hplain. destruct (f_attach cur); auto; contradiction. }
  set (p1 := attach_into cur parent) in *.
  assert (Hic1 : iscomplete p1 None = true) by (rewrite <- Hcomp; apply iscomplete_ext; auto).
  assert (Hctl1 : is_control p1 = true) by (unfold is_control in *; rewrite Hd1; exact Hctl).
  split; [|split; [apply (stack_ok_replace parent); auto|split; [apply is_control_not_test; exact Hctl1|exact Hd1]]].
  cbn [cc_loop]. fold p1. rewrite Hctl1, Hic1. reflexivity.
Qed.

Lemma up_loop_eq : forall p rest e,
  up_loop p rest e =
  if is_test p && iscomplete p None then
    match rest with
    | [] => ([], e)
    | gp :: rest' => up_loop (attach_into p gp) rest' e
    end
  else if is_test p && d_variable_args_nb (f_def p) then (p :: rest, Some [TComma; TRightParen])
       else (p :: rest, e).
Proof. intros p [|gp rest'] e; reflexivity. Qed.

Lemma up_loop_nontest : forall p rest e, is_test p = false -> up_loop p rest e = (p :: rest, e).
Proof. intros p rest e H. rewrite up_loop_eq, H. reflexivity. Qed.

Definition ready (p : frame) : Prop :=
  has_test_slot (f_def p) = true /\ (iscomplete p None = true \/ d_variable_args_nb (f_def p) = true).

(* the upward walk of __up from a frame that has just received a test *)
Lemma up_loop_ready : forall rest p e,
  stack_ok (p :: rest) -> ready p ->
  exists top' rest' e',
    up_loop p rest e = (top' :: rest', e') /\ stack_ok (top' :: rest') /\
    n_vartest (top' :: rest') = n_vartest (p :: rest) /\ n_nontest (top' :: rest') = n_nontest (p :: rest) /\
    ((e' = e /\ is_test top' = false /\ iscomplete top' None = true) \/
     (e' = Some [TComma; TRightParen] /\ is_vartest top' = true)).
Proof.
  induction rest as [|gp rest' IH]; intros p e Hs (Hts & Hrd).
  - (* the bottom frame is not a test *)
    destruct Hs as (Hfp & Hnt & _).
    assert (Htw : twf (f_def p) = true) by apply Hfp.
    destruct (twf_test_slot_kind _ Htw Hts) as (_ & _ & Hvt).
    rewrite up_loop_nontest by exact Hnt.
    exists p, [], e. split; [reflexivity|]. split; [cbn; auto|]. split; [reflexivity|]. split; [reflexivity|].
    left. split; [reflexivity|]. split; [exact Hnt|].
    destruct Hrd as [Hrd|Hv]; [exact Hrd|]. specialize (Hvt Hv). unfold is_ctest, is_test in *.
    destruct (d_type (f_def p)); discriminate.
  - pose proof Hs as (Hfp & Ha & Hs').
    assert (Htw : twf (f_def p) = true) by apply Hfp.
    destruct (twf_test_slot_kind _ Htw Hts) as (_ & _ & Hvt).
    rewrite up_loop_eq.
    destruct (is_test p) eqn:Etp; cbn [andb].
    + destruct (iscomplete p None) eqn:Ecp.
      * (* complete test: attached to its parent, go on *)
        unfold adj_ok in Ha. rewrite Etp in Ha. destruct Ha as (Hnd & Hts' & Hrd').
        pose proof (stack_ok_top _ _ Hs') as Hfg.
        destruct (fi_attach p gp Hfg) as (Hf1 & Hd1 & Ha1 & Hc1 & Hr1 & Hn1).
        { destruct (f_attach p); auto. }
        set (p1 := attach_into p gp) in *.
        assert (Hs1 : stack_ok (p1 :: rest')) by (apply (stack_ok_replace gp); auto).
        assert (Hrd1 : ready p1).
        { unfold ready. rewrite Hd1. split; [exact Hts'|].
          rewrite (iscomplete_ext gp p1 None Hd1 Hc1 Hr1). exact Hrd'. }
        destruct (IH p1 e Hs1 Hrd1) as (top' & r' & e' & E1 & E2 & E3 & E4 & E5).
        exists top', r', e'. split; [exact E1|]. split; [exact E2|].
        split; [rewrite E3, !n_vartest_cons, (complete_not_vartest p Ecp), (is_vartest_def gp p1 Hd1); reflexivity|].
        split; [rewrite E4, !n_nontest_cons, Etp, (is_test_def gp p1 Hd1); reflexivity|exact E5].
      * (* incomplete test: a test list *)
        destruct Hrd as [Hrd|Hv]; [discriminate|]. rewrite Hv.
        exists p, (gp :: rest'), (Some [TComma; TRightParen]). split; [reflexivity|]. split; [exact Hs|].
        split; [reflexivity|]. split; [reflexivity|]. right. split; [reflexivity|].
        unfold is_vartest. rewrite Etp, Hv. reflexivity.
    + exists p, (gp :: rest'), e. split; [reflexivity|]. split; [exact Hs|]. split; [reflexivity|]. split; [reflexivity|].
      left. split; [reflexivity|]. split; [exact Etp|].
      destruct Hrd as [Hrd|Hv]; [exact Hrd|]. specialize (Hvt Hv). unfold is_ctest, is_test in *.
      destruct (d_type (f_def p)); discriminate.
Qed.

Ltac pcbn := cbn [p_stack p_cstate p_curlist p_expected p_brackets p_loaded p_hash p_result
                   with_stack with_cstate with_curlist with_expected with_brackets with_loaded with_hash with_result].
Ltac pcbn_in H := cbn [p_stack p_cstate p_curlist p_expected p_brackets p_loaded p_hash p_result
                   with_stack with_cstate with_curlist with_expected with_brackets with_loaded with_hash with_result] in H.

Definition exp_ind (e : option (list tkind)) : nat := if exp_has TLeftParen e then 1 else 0.
Definition cs_ind (c : cst) : nat := match c with CNone => 0 | _ => 1 end.

Definition top_closed (s : list frame) : Prop :=
  match s with
  | f :: _ => has_test_slot (f_def f) = false \/ iscomplete f None = true
  | [] => True
  end.

(* the invariant of the states from which parsing can go on; [e] stands for the expected-token set *)
Definition LiveE (st : pstate) (e : option (list tkind)) : Prop :=
  stack_ok (p_stack st) /\
  (p_cstate st <> CNone -> p_stack st <> []) /\
  (p_cstate st = CNone -> forall f, In f (p_stack st) -> is_test f = false /\ iscomplete f None = true) /\
  n_paren (p_brackets st) + exp_ind e <= n_vartest (p_stack st) /\
  n_cbr (p_brackets st) + cs_ind (p_cstate st) <= n_nontest (p_stack st) /\
  (p_cstate st = CStrList ->
   exists b', p_brackets st = BRBracket :: b' /\
              (e <> Some [TLeftCBracket] -> n_cbr b' + 1 <= n_nontest (p_stack st))) /\
  (p_cstate st = CArgs -> e = None -> top_closed (p_stack st)).

Definition Live (st : pstate) : Prop := LiveE st (p_expected st).

(* a stray '(' : the next token must be an identifier, and no test can be accepted: the parse ends *)
Definition Dead (st : pstate) : Prop :=
  p_cstate st = CArgs /\ p_expected st = Some [TIdentifier] /\
  exists f r, p_stack st = f :: r /\ fi f /\ (has_test_slot (f_def f) = false \/ iscomplete f None = true).

Definition Inv (st : pstate) : Prop := Dead st \/ Live st.

Lemma Inv_init : Inv p_init.
Proof.
  right. unfold Live, LiveE, p_init. cbn.
  split; [exact I|]. split; [intro H; congruence|]. split; [intros _ f []|].
  split; [lia|]. split; [lia|]. split; [discriminate|discriminate].
Qed.

(* what is known about the state in which a token is delivered again: it was a '{', a command is
   current, and that command does not reassign its arguments *)
Definition rw_ok (t : token) (st' : pstate) : Prop :=
  t_kind t = TLeftCBracket /\ p_cstate st' = CArgs /\
  exists top' r', p_stack st' = top' :: r' /\ d_non_deterministic_args (f_def top') = false.

Definition res_inv (t : token) (r : mres) : Prop :=
  match r with
  | MCrash => False
  | MTrue st' => Inv st'
  | MRewind st' => Inv st' /\ rw_ok t st'
  | _ => True
  end.

Lemma exp_ind_le : forall e, exp_ind e <= 1.
Proof. intro e. unfold exp_ind. destruct (exp_has TLeftParen e); lia. Qed.

(* check_completion on a live state in which a command is current *)
Lemma cc_live : forall st ts,
  Live st -> p_cstate st <> CNone ->
  (p_cstate st = CStrList -> p_expected st <> Some [TLeftCBracket]) ->
  (ts = true -> p_cstate st = CArgs) ->
  (forall cur r, p_stack st = cur :: r -> is_test cur = false -> d_accept_children (f_def cur) = true ->
                 iscomplete cur None = true -> n_cbr (p_brackets st) = 0) ->
  match check_completion st ts with
  | MTrue st' => Live st' /\ p_cstate st' = p_cstate st /\ p_brackets st' = p_brackets st /\
                 (forall cur r, p_stack st = cur :: r -> is_test cur = true -> iscomplete cur None = true ->
                                exists top' r', p_stack st' = top' :: r' /\ d_non_deterministic_args (f_def top') = false)
  | _ => False
  end.
Proof.
  intros st ts HL Hcs Hstr Hts Hctl. unfold check_completion.
  pose proof HL as (L1 & L2 & L3 & L4 & L5 & L6 & L7).
  destruct (p_stack st) as [|cur rest] eqn:Es; [exfalso; apply (L2 Hcs); reflexivity|].
  destruct (iscomplete cur None) eqn:Ec; cbn [negb].
  2:{ split; [exact HL|]. split; [reflexivity|]. split; [reflexivity|].
      intros c r E _ Hc. inversion E; subst. congruence. }
  destruct (is_action cur || (is_control cur && negb (d_accept_children (f_def cur)))) eqn:Eac.
  - (* an action or a control without block: nothing to leave *)
    assert (Hnt : is_test cur = false).
    { unfold is_action, is_control, is_test in *. destruct (d_type (f_def cur)); auto; discriminate. }
    destruct ts.
    + split; [|split; [reflexivity|split; [reflexivity|intros c r E Hc; inversion E; subst; congruence]]].
      specialize (Hts eq_refl).
      unfold Live, LiveE. pcbn. rewrite Es.
      split; [exact L1|]. split; [exact L2|]. split; [exact L3|].
      split; [change (exp_ind (Some [TSemicolon])) with 0; pose proof (exp_ind_le (p_expected st)); lia|].
      split; [exact L5|]. split; [intro H; congruence|]. intros _ H. discriminate.
    + split; [exact HL|]. split; [reflexivity|]. split; [reflexivity|].
      intros c r E Hc. inversion E; subst. congruence.
  - destruct (is_test cur) eqn:Et.
    + (* a complete test is left *)
      pose proof (cc_loop_test rest cur st L1 Et Ec) as P. unfold cc_test_post in P.
      destruct (cc_loop cur rest st) as [st'| | | |]; try contradiction.
      destruct P as (top' & r' & E1 & (S1 & S2 & S3 & S4 & S5 & S6) & E3 & E4 & E5 & E6 & E7).
      split; [|split; [exact S1|split; [exact S3|intros; exists top', r'; auto]]].
      unfold Live, LiveE. rewrite E1, S1, S3.
      split; [exact E3|]. split; [intros _; discriminate|].
      split; [intro H; contradiction|].
      assert (Hei : exp_ind (p_expected st') = 0) by (destruct E7 as [(-> & _)|(-> & _)]; reflexivity).
      split; [rewrite Hei, E4; lia|]. split; [rewrite E5; exact L5|].
      split.
      * intro Hcst. destruct (L6 Hcst) as (b' & Hb & Hn). exists b'. split; [exact Hb|].
        intros _. rewrite E5. apply Hn. apply Hstr. exact Hcst.
      * intros _ Hn. destruct E7 as [(E7 & _)|(E7 & _)]; rewrite E7 in Hn; discriminate.
    + (* a complete control that accepts children is left (a string list was opened after it) *)
      assert (Hch : d_accept_children (f_def cur) = true).
      { unfold is_action, is_control, is_test in *. destruct (d_type (f_def cur)); try discriminate.
        cbn in Eac. apply negb_false_iff in Eac. exact Eac. }
      pose proof (Hctl cur rest eq_refl Et Hch Ec) as Hz.
      pose proof (cc_loop_nontest rest cur st L1 Et) as P.
      destruct rest as [|parent rest'].
      * rewrite P. split; [|split; [reflexivity|split; [reflexivity|intros c r E Hc; inversion E; subst; congruence]]].
        unfold Live, LiveE. pcbn. unfold Live, LiveE in HL. rewrite Es in HL. exact HL.
      * destruct P as (P & Hs1 & Hnt1 & Hd1). rewrite P.
        split; [|split; [reflexivity|split; [reflexivity|intros c r E Hc; inversion E; subst; congruence]]].
        unfold Live, LiveE. pcbn.
        split; [exact Hs1|]. split; [intros _; discriminate|].
        split; [intro H; contradiction|].
        assert (Hv : n_vartest (attach_into cur parent :: rest') = n_vartest (cur :: parent :: rest')).
        { rewrite !n_vartest_cons. unfold is_vartest at 2. rewrite Et. cbn.
          rewrite (is_vartest_def parent _ Hd1). reflexivity. }
        split; [change (exp_ind (Some [TLeftCBracket])) with 0; rewrite Hv; pose proof (exp_ind_le (p_expected st)); lia|].
        assert (Hp1 : 1 <= n_nontest (attach_into cur parent :: rest')) by (apply n_nontest_pos; [exact Hs1|discriminate]).
        assert (Hc1 : cs_ind (p_cstate st) <= 1) by (destruct (p_cstate st); cbn; lia).
        split; [rewrite Hz; lia|].
        split; [intro Hcst; destruct (L6 Hcst) as (b' & Hb & _); exists b'; split; [exact Hb|intro H; congruence]|].
        intros _ H. discriminate.
Qed.

Lemma nontest_below_complete : forall t c, stack_ok (c :: t) -> is_test c = false ->
  forall f, In f t -> is_test f = false /\ iscomplete f None = true.
Proof.
  induction t as [|p t IH]; intros c Hs Hc f Hin; [destruct Hin|].
  destruct Hs as (_ & Ha & Ht). unfold adj_ok in Ha. rewrite Hc in Ha. destruct Ha as (_ & Hctl & Hcomp & _).
  pose proof (is_control_not_test _ Hctl) as Hp.
  destruct Hin as [<-|Hin]; [split; assumption|]. apply (IH p Ht Hp f Hin).
Qed.

(* Parser.__up when the command being closed is not a test (';' and '}') *)
Lemma up_nontest : forall st cur rest,
  p_stack st = cur :: rest -> stack_ok (cur :: rest) -> is_test cur = false ->
  match up st with
  | MTrue st' =>
      p_cstate st' = p_cstate st /\ p_brackets st' = p_brackets st /\ p_expected st' = p_expected st /\
      stack_ok (p_stack st') /\ (forall f, In f (p_stack st') -> is_test f = false /\ iscomplete f None = true) /\
      n_nontest (p_stack st') + 1 = n_nontest (cur :: rest)
  | MErr _ => True
  | _ => False
  end.
Proof.
  intros st cur rest Es Hs Ht. unfold up. rewrite Es.
  match goal with |- context [if negb ?c then _ else _] => destruct c end; cbn [negb]; [|exact I].
  destruct rest as [|parent rest'].
  - pcbn. split; [reflexivity|]. split; [reflexivity|]. split; [reflexivity|]. split; [exact I|].
    split; [intros f []|]. rewrite n_nontest_cons, Ht. reflexivity.
  - pose proof Hs as (Hfc & Ha & Hs').
    unfold adj_ok in Ha. rewrite Ht in Ha. destruct Ha as (Hnd & Hctl & Hcomp & Hplain).
    pose proof (stack_ok_top _ _ Hs') as Hfp.
    destruct (fi_attach cur parent Hfp) as (Hf1 & Hd1 & Ha1 & Hc1 & Hr1 & Hn1).
    { unfold plain_attach in Hplain. destruct (f_attach cur); auto; contradiction. }
    set (p1 := attach_into cur parent) in *.
    assert (Hnt1 : is_test p1 = false).
    { rewrite (is_test_def parent p1 Hd1). apply is_control_not_test. exact Hctl. }
    rewrite (up_loop_nontest p1 rest' (p_expected st) Hnt1). pcbn.
    assert (Hs1 : stack_ok (p1 :: rest')) by (apply (stack_ok_replace parent); auto).
    split; [reflexivity|]. split; [reflexivity|]. split; [reflexivity|]. split; [exact Hs1|].
    split.
    + intros f [<-|Hin].
      * split; [exact Hnt1|]. rewrite (iscomplete_ext parent p1 None Hd1 Hc1 Hr1). exact Hcomp.
      * apply (nontest_below_complete rest' p1 Hs1 Hnt1 f Hin).
    + assert (Hpt : is_test parent = false) by (apply is_control_not_test; exact Hctl).
      rewrite !n_nontest_cons, Ht, Hnt1, Hpt. lia.
Qed.

(* Parser.__up when a test is closed by ')' *)
Lemma up_test : forall st cur rest,
  p_stack st = cur :: rest -> stack_ok (cur :: rest) -> is_test cur = true ->
  match up st with
  | MTrue st' =>
      p_cstate st' = p_cstate st /\ p_brackets st' = p_brackets st /\
      exists top' r',
        p_stack st' = top' :: r' /\ stack_ok (top' :: r') /\
        n_vartest (top' :: r') + (if is_vartest cur then 1 else 0) = n_vartest (cur :: rest) /\
        n_nontest (top' :: r') = n_nontest (cur :: rest) /\
        ((p_expected st' = p_expected st /\ is_test top' = false /\ iscomplete top' None = true) \/
         (p_expected st' = Some [TComma; TRightParen] /\ is_vartest top' = true))
  | MErr _ => True
  | _ => False
  end.
Proof.
  intros st cur rest Es Hs Ht. unfold up. rewrite Es.
  match goal with |- context [if negb ?c then _ else _] => destruct c end; cbn [negb]; [|exact I].
  destruct rest as [|parent rest']; [exfalso; apply (test_has_parent _ _ Hs Ht); reflexivity|].
  pose proof Hs as (Hfc & Ha & Hs').
  unfold adj_ok in Ha. rewrite Ht in Ha. destruct Ha as (Hnd & Hts & Hrd).
  pose proof (stack_ok_top _ _ Hs') as Hfp.
  destruct (fi_attach cur parent Hfp) as (Hf1 & Hd1 & Ha1 & Hc1 & Hr1 & Hn1).
  { destruct (f_attach cur); auto. }
  set (p1 := attach_into cur parent) in *.
  assert (Hs1 : stack_ok (p1 :: rest')) by (apply (stack_ok_replace parent); auto).
  assert (Hrd1 : ready p1).
  { unfold ready. rewrite Hd1. split; [exact Hts|]. rewrite (iscomplete_ext parent p1 None Hd1 Hc1 Hr1). exact Hrd. }
  destruct (up_loop_ready rest' p1 (p_expected st) Hs1 Hrd1) as (top' & r' & e' & E1 & E2 & E3 & E4 & E5).
  rewrite E1. pcbn. split; [reflexivity|]. split; [reflexivity|].
  exists top', r'. split; [reflexivity|]. split; [exact E2|].
  split; [rewrite E3, !n_vartest_cons, (is_vartest_def parent p1 Hd1); lia|].
  split; [rewrite E4, !n_nontest_cons, Ht, (is_test_def parent p1 Hd1); reflexivity|].
  destruct E5 as [(-> & A & B)|(-> & A)]; [left|right]; auto.
Qed.

(* ------------------------------------------------------------------ small facts used by the handlers *)

Lemma lookup_twf : forall T k d, twf_tables T = true -> lookup_cmd T k = Some d -> twf d = true.
Proof.
  induction T as [|[k' d'] T IH]; intros k d H Hl; cbn in Hl; [discriminate|].
  cbn in H. apply andb_true_iff in H. destruct H as [H1 H2].
  destruct (beq k' k); [inversion Hl; subst; exact H1|apply (IH k d H2 Hl)].
Qed.

Lemma gci_twf : forall T L name d, twf_tables T = true -> get_command_instance T L name = inl d -> twf d = true.
Proof.
  intros T L name d H Hg. unfold get_command_instance in Hg.
  destruct (lookup_cmd T (lower name)) as [d0|] eqn:El; [|discriminate].
  assert (d0 = d).
  { destruct (d_extension d0) as [[|c e]|]; try (inversion Hg; reflexivity).
    destruct (mem (c :: e) L); inversion Hg; reflexivity. }
  subst. eapply lookup_twf; eauto.
Qed.

Lemma pop_bracket_inl : forall st b st1,
  pop_bracket st b = inl st1 -> exists t, p_brackets st = b :: t /\ st1 = with_brackets t st.
Proof.
  intros st b st1 H. unfold pop_bracket in H. destruct (p_brackets st) as [|x t]; [discriminate|].
  destruct (bracket_eqb x b) eqn:E; [|discriminate]. inversion H. exists t. split; [|reflexivity].
  destruct x, b; try discriminate; reflexivity.
Qed.

Lemma cna_ok_has_args : forall f t v add ce loaded f' slot,
  check_next_arg f t v add ce loaded = CnaOk f' slot -> d_args (f_def f) <> [].
Proof.
  intros f t v add ce loaded f' slot H. unfold check_next_arg, has_arguments in H.
  destruct (d_args (f_def f)); [discriminate|discriminate].
Qed.

Lemma twf_children_noargs : forall d,
  twf d = true -> is_ctest d = false -> d_accept_children d = true -> has_test_slot d = false -> d_args d = [].
Proof.
  intros d H Ht Hc Hts. unfold twf in H. rewrite Hts, Hc in H. unfold is_ctest in Ht.
  destruct (d_args d) as [|a l]; [reflexivity|]. exfalso.
  destruct (d_type d); try discriminate;
    repeat match goal with K : (_ && _)%bool = true |- _ => apply andb_true_iff in K; destruct K end;
    cbn in *; congruence.
Qed.

Lemma twf_nondet : forall d, twf d = true -> d_non_deterministic_args d = true ->
  d_reassign d = RHasflag /\ is_ctest d = true /\ has_test_slot d = false.
Proof.
  intros d H Hn. unfold twf in H. repeat (apply andb_true_iff in H; destruct H as [H ?]).
  rewrite Hn in *.
  match goal with K : (_ && is_ctest d && negb (has_test_slot d))%bool = true |- _ => rename K into K0 end.
  repeat (apply andb_true_iff in K0; destruct K0 as [K0 ?]).
  split; [destruct (d_reassign d); [discriminate|reflexivity]|]. split; [assumption|apply negb_true_iff; assumption].
Qed.

Lemma twf_children_det : forall d, twf d = true -> d_accept_children d = true -> d_non_deterministic_args d = false.
Proof.
  intros d H Hc. unfold twf in H. repeat (apply andb_true_iff in H; destruct H as [H ?]).
  rewrite Hc in *. match goal with K : negb (d_non_deterministic_args d) = true |- _ => apply negb_true_iff in K; exact K end.
Qed.

Lemma twf_hrequire : forall d, twf d = true -> d_complete d = HRequire -> has_test_slot d = false.
Proof.
  intros d H Hc. unfold twf in H. repeat (apply andb_true_iff in H; destruct H as [H ?]).
  rewrite Hc in *. match goal with K : negb (has_test_slot d) = true |- _ => apply negb_true_iff in K; exact K end.
Qed.

Lemma n_paren_cons : forall x b, n_paren (x :: b) = (match x with BRParen => 1 | _ => 0 end) + n_paren b.
Proof. intros [] b; reflexivity. Qed.

Lemma n_cbr_cons : forall x b,
  n_cbr (x :: b) = match x with BRBracket => 0 | BRCBracket => 1 + n_cbr b | BRParen => n_cbr b end.
Proof. intros [] b; reflexivity. Qed.

(* what the handlers promise *)
Definition hpost (st : pstate) (e : option (list tkind)) (t : token) (r : mres) : Prop :=
  match r with
  | MCrash => False
  | MTrue st' => Inv st'
  | MRewind st' => Inv st' /\ rw_ok t st'
  | MFalse st1 =>
      (t_kind t = TLeftCBracket \/ t_kind t = TSemicolon) ->
      LiveE st1 e /\ p_expected st1 = None /\ p_cstate st1 = p_cstate st
  | MErr _ => True
  end.

Lemma liveE_replace_top : forall st e cur rest cur',
  LiveE st e -> p_cstate st <> CNone ->
  p_stack st = cur :: rest -> fi cur' -> f_def cur' = f_def cur -> f_attach cur' = f_attach cur ->
  (p_cstate st = CArgs -> e = None -> has_test_slot (f_def cur') = false \/ iscomplete cur' None = true) ->
  LiveE (replace_top cur' st) e.
Proof.
  intros st e cur rest cur' (L1 & L2 & L3 & L4 & L5 & L6 & L7) Hnc Es Hf Hd Ha Hcl.
  unfold replace_top. rewrite Es. unfold LiveE. pcbn. rewrite Es in *.
  split; [apply (stack_ok_replace cur); auto|]. split; [intros _; discriminate|].
  split; [intro Hc; contradiction|].
  split; [rewrite n_vartest_cons, (is_vartest_def cur cur' Hd), <- n_vartest_cons; exact L4|].
  split; [rewrite n_nontest_cons, (is_test_def cur cur' Hd), <- n_nontest_cons; exact L5|].
  split.
  { intro Hc. destruct (L6 Hc) as (b' & Hb & Hn). exists b'. split; [exact Hb|].
    rewrite n_nontest_cons, (is_test_def cur cur' Hd), <- n_nontest_cons. exact Hn. }
  intros Hc He. cbn. apply Hcl; assumption.
Qed.

Definition passes (e : option (list tkind)) (k : tkind) : Prop :=
  match e with None => True | Some l => kind_mem k l = true end.

Lemma passes_not_lcb : forall e k, passes e k -> k <> TLeftCBracket -> e <> Some [TLeftCBracket].
Proof.
  intros e k Hp Hk He. subst e. cbn in Hp. rewrite orb_false_r in Hp. destruct k; try discriminate. congruence.
Qed.

(* a control that accepts children and takes no tests has no arguments: it never takes a value *)
Lemma accepted_value_not_children : forall f t v add ce loaded f' slot,
  fi f -> shape_ok t v -> t <> TyTest ->
  check_next_arg f t v add ce loaded = CnaOk f' slot ->
  is_test f = false -> d_accept_children (f_def f) = true -> False.
Proof.
  intros f t v add ce loaded f' slot Hfi Hsh Ht E Hnt Hch.
  apply (cna_ok_has_args _ _ _ _ _ _ _ _ E).
  apply twf_children_noargs; auto; [apply Hfi|apply (cna_nontest _ _ _ _ _ _ _ _ Hfi Hsh Ht E)].
Qed.

(* after a value has been taken by the current command: check_completion keeps the state live *)
Lemma value_taken_live : forall st e cur rest t v cur' slot ts,
  LiveE st e -> p_expected st = None -> p_stack st = cur :: rest -> p_cstate st = CArgs ->
  shape_ok t v -> t <> TyTest ->
  check_next_arg cur t v true true (p_loaded st) = CnaOk cur' slot ->
  (ts = true -> True) ->
  match check_completion (replace_top cur' st) ts with
  | MTrue st' => Live st' /\ p_cstate st' = CArgs /\ p_brackets st' = p_brackets st /\
                 (is_test cur = true -> iscomplete cur' None = true ->
                  exists top' r', p_stack st' = top' :: r' /\ d_non_deterministic_args (f_def top') = false)
  | _ => False
  end.
Proof.
  intros st e cur rest t v cur' slot ts HL He Es Hcs Hsh Ht E _.
  pose proof HL as (L1 & _).
  rewrite Es in L1. pose proof (stack_ok_top _ _ L1) as Hfc.
  pose proof (cna_post_holds cur t v true true (p_loaded st) Hfc Hsh) as P. rewrite E in P.
  destruct P as (Hd & Ha & _ & Hf' & _).
  pose proof (cna_nontest _ _ _ _ _ _ _ _ Hfc Hsh Ht E) as Hnts.
  assert (HL1 : Live (replace_top cur' st)).
  { unfold Live. assert (Hex : p_expected (replace_top cur' st) = p_expected st) by (unfold replace_top; rewrite Es; reflexivity).
    rewrite Hex, He.
    assert (HLn : LiveE st None).
    { destruct HL as (A1 & A2 & A3 & A4 & A5 & A6 & A7). unfold LiveE.
      split; [exact A1|]. split; [exact A2|]. split; [exact A3|].
      split; [change (exp_ind None) with 0; lia|]. split; [exact A5|].
      split; [intro Hc; rewrite Hcs in Hc; discriminate|].
      intros _ _. rewrite Es. left. exact Hnts. }
    apply (liveE_replace_top st None cur rest cur' HLn ltac:(rewrite Hcs; discriminate) Es Hf' Hd Ha).
    intros _ _. left. rewrite Hd. exact Hnts. }
  assert (Hst1 : p_stack (replace_top cur' st) = cur' :: rest) by (unfold replace_top; rewrite Es; reflexivity).
  assert (Hcs1 : p_cstate (replace_top cur' st) = CArgs) by (unfold replace_top; rewrite Es; exact Hcs).
  assert (Hbr1 : p_brackets (replace_top cur' st) = p_brackets st) by (unfold replace_top; rewrite Es; reflexivity).
  pose proof (cc_live (replace_top cur' st) ts HL1) as C.
  rewrite Hcs1 in C.
  assert (C' := C ltac:(discriminate) ltac:(discriminate) (fun _ => eq_refl)). clear C.
  assert (C'' : match check_completion (replace_top cur' st) ts with
                | MTrue st' => Live st' /\ p_cstate st' = CArgs /\ p_brackets st' = p_brackets (replace_top cur' st) /\
                     (forall c r, p_stack (replace_top cur' st) = c :: r -> is_test c = true -> iscomplete c None = true ->
                                  exists top' r', p_stack st' = top' :: r' /\ d_non_deterministic_args (f_def top') = false)
                | _ => False end).
  { apply C'. intros c r Ec Hnt Hch Hcomp. exfalso. rewrite Hst1 in Ec. inversion Ec; subst c r.
    apply (accepted_value_not_children cur t v true true (p_loaded st) cur' slot Hfc Hsh Ht E).
    - rewrite <- (is_test_def cur cur' Hd). exact Hnt.
    - rewrite <- Hd. exact Hch. }
  destruct (check_completion (replace_top cur' st) ts) as [st'| | | |]; try contradiction.
  destruct C'' as (A & B & C & D). split; [exact A|]. split; [exact B|]. split; [rewrite C; exact Hbr1|].
  intros Htc Hcc. apply (D cur' rest Hst1); [rewrite (is_test_def cur cur' Hd); exact Htc|exact Hcc].
Qed.

Lemma m_stringlist_post : forall st e t,
  LiveE st e -> p_expected st = None -> p_cstate st = CStrList -> passes e (t_kind t) ->
  hpost st e t (m_stringlist st t).
Proof.
  intros st e t HL He Hcs Hp. pose proof HL as (L1 & L2 & L3 & L4 & L5 & L6 & L7).
  unfold m_stringlist.
  destruct (p_stack st) as [|cur rest] eqn:Es; [exfalso; apply L2; [rewrite Hcs; discriminate|reflexivity]|].
  destruct (L6 Hcs) as (b' & Hb & Hn).
  destruct (t_kind t) eqn:Ek; try (cbn; intros _; split; [exact HL|split; [exact He|reflexivity]]).
  - (* ']' *)
    unfold pop_bracket. rewrite Hb. cbn [bracket_eqb].
    set (st1 := with_brackets b' st).
    assert (Hne : e <> Some [TLeftCBracket]) by (apply (passes_not_lcb e TRightBracket Hp); discriminate).
    specialize (Hn Hne).
    pose proof (stack_ok_top _ _ L1) as Hfc.
    assert (Hsh : shape_ok TyStringList (VList (p_curlist st1))) by exact I.
    pose proof (cna_post_holds cur TyStringList (VList (p_curlist st1)) true true (p_loaded st1) Hfc Hsh) as P.
    unfold lift_cna.
    destruct (check_next_arg cur TyStringList (VList (p_curlist st1)) true true (p_loaded st1)) as [cur' slot| | |] eqn:E;
      try exact I; try contradiction.
    + (* the list is taken *)
      set (st2 := with_cstate CArgs st1).
      assert (HL2 : LiveE st2 None).
      { unfold LiveE, st2, st1. pcbn. rewrite Es.
        split; [exact L1|]. split; [intros _; discriminate|]. split; [discriminate|].
        split; [rewrite Hb, n_paren_cons in L4; change (exp_ind None) with 0; lia|].
        split; [cbn [cs_ind]; exact Hn|]. split; [discriminate|].
        intros _ _. cbn. left. apply (cna_nontest _ _ _ _ _ _ _ _ Hfc Hsh ltac:(discriminate) E). }
      assert (Hrt : with_cstate CArgs (replace_top cur' st1) = replace_top cur' st2).
      { unfold replace_top, st2, st1. pcbn. rewrite Es. reflexivity. }
      rewrite Hrt.
      pose proof (value_taken_live st2 None cur rest TyStringList (VList (p_curlist st1)) cur' slot true HL2) as V.
      assert (Hst2 : p_stack st2 = cur :: rest) by (unfold st2, st1; pcbn; exact Es).
      specialize (V He Hst2 eq_refl Hsh ltac:(discriminate) E (fun _ => I)).
      destruct (check_completion (replace_top cur' st2) true); try contradiction.
      cbn. right. apply V.
    + (* refused *)
      cbn. intros [H|H]; rewrite Ek in H; discriminate.
  - (* ',' *)
    cbn. right. unfold Live, LiveE. pcbn. rewrite Es, Hcs.
    split; [exact L1|]. split; [intros _; discriminate|]. split; [discriminate|].
    split; [change (exp_ind (Some [TString])) with 0; lia|]. split; [rewrite Hcs in L5; exact L5|].
    split; [|discriminate].
    intros _. exists b'. split; [exact Hb|]. intros _. apply Hn. apply (passes_not_lcb e TComma Hp). discriminate.
  - (* a string *)
    destruct (negb (utf8_valid (t_val t))); [exact I|].
    cbn. right. unfold Live, LiveE. pcbn. rewrite Es, Hcs.
    split; [exact L1|]. split; [intros _; discriminate|]. split; [discriminate|].
    split; [change (exp_ind (Some [TComma; TRightBracket])) with 0; lia|]. split; [rewrite Hcs in L5; exact L5|].
    split; [|discriminate].
    intros _. exists b'. split; [exact Hb|]. intros _. apply Hn. apply (passes_not_lcb e TString Hp). discriminate.
Qed.

Lemma twf_lparen_vartest : forall d, twf d = true -> is_ctest d = true ->
  exp_has TLeftParen (d_expected_first d) = true -> d_variable_args_nb d = true.
Proof.
  intros d H Hc He. pose proof H as H0. unfold twf in H. destruct (has_test_slot d) eqn:Hts.
  - destruct (twf_test_slot d H0 Hts) as (a & Ha & _ & _ & [(Ht1 & Hnv)|(_ & Hv & _)]); [|exact Hv].
    exfalso. rewrite Ha in H. unfold is_ctest in Hc. destruct (d_type d) eqn:Et; try discriminate.
    repeat match goal with K : (_ && _)%bool = true |- _ => apply andb_true_iff in K; destruct K end.
    match goal with K : (_ || _)%bool = true |- _ => apply orb_true_iff in K; destruct K as [K|K] end.
    + repeat match goal with K : (_ && _)%bool = true |- _ => apply andb_true_iff in K; destruct K end.
      destruct (d_expected_first d) as [[|k [|k2 l]]|]; cbn in *; try discriminate.
      destruct k; cbn in *; discriminate.
    + repeat match goal with K : (_ && _)%bool = true |- _ => apply andb_true_iff in K; destruct K end.
      rewrite Hnv in *. discriminate.
  - exfalso. repeat match goal with K : (_ && _)%bool = true |- _ => apply andb_true_iff in K; destruct K end.
    rewrite He in *. discriminate.
Qed.

Lemma twf_test_expected : forall d, twf d = true -> is_ctest d = true -> has_test_slot d = true ->
  d_expected_first d <> None.
Proof.
  intros d H Hc Hts. pose proof H as H0. unfold twf in H. rewrite Hts in H.
  destruct (twf_test_slot d H0 Hts) as (a & Ha & _). rewrite Ha in H.
  unfold is_ctest in Hc. destruct (d_type d) eqn:Et; try discriminate.
  repeat match goal with K : (_ && _)%bool = true |- _ => apply andb_true_iff in K; destruct K end.
  match goal with K : (_ || _)%bool = true |- _ => apply orb_true_iff in K; destruct K as [K|K] end;
    repeat match goal with K : (_ && _)%bool = true |- _ => apply andb_true_iff in K; destruct K end;
    destruct (d_expected_first d); [discriminate|discriminate|discriminate|discriminate].
Qed.

Lemma tl_variable : forall d a, twf d = true -> d_args d = [a] -> is_tl a = true -> d_variable_args_nb d = true.
Proof.
  intros d a H Ha Htl.
  assert (Hts : has_test_slot d = true) by (apply (slot_in_has_test d a); [rewrite Ha; left; reflexivity|apply is_tl_slot_test; exact Htl]).
  destruct (twf_test_slot d H Hts) as (a0 & Ha0 & _ & _ & [(Ht1 & _)|(_ & Hv & _)]); [|exact Hv].
  rewrite Ha in Ha0. inversion Ha0; subst a0. unfold is_tl, is_t1 in *.
  destruct (a_type a) as [|[] [|y l]]; discriminate.
Qed.

Lemma n_vartest_nontest_top : forall cur rest,
  stack_ok (cur :: rest) -> is_test cur = false -> n_vartest (cur :: rest) = 0.
Proof.
  intros cur rest Hs Ht. apply n_vartest_nontest. intros f [<-|Hin]; [exact Ht|].
  apply (nontest_below rest cur Hs Ht f Hin).
Qed.

Lemma passes_none_or : forall e k, passes e k -> exp_has k e = false -> e = None.
Proof. intros [l|] k Hp He; [cbn in Hp, He; congruence|reflexivity]. Qed.

(* the scalar argument tokens *)
Lemma scalar_post : forall st e t ty,
  LiveE st e -> p_expected st = None -> p_cstate st = CArgs ->
  (ty = TyString \/ ty = TyNumber \/ ty = TyTag) ->
  (t_kind t <> TLeftCBracket /\ t_kind t <> TSemicolon) ->
  forall cur rest, p_stack st = cur :: rest ->
  hpost st e t
    (match lift_cna (check_next_arg cur ty (VStr (t_val t)) true true (p_loaded st)) st MTrue with
     | MTrue st1 => check_completion st1 false
     | MRewind st1 => match check_completion st1 false with MTrue st2 => MRewind st2 | r => r end
     | r => r
     end).
Proof.
  intros st e t ty HL He Hcs Hty (Hk1 & Hk2) cur rest Es.
  pose proof HL as (L1 & _). rewrite Es in L1. pose proof (stack_ok_top _ _ L1) as Hfc.
  assert (Hsh : shape_ok ty (VStr (t_val t))) by (destruct Hty as [->|[->| ->]]; exact I).
  assert (Hnt : ty <> TyTest) by (destruct Hty as [->|[->| ->]]; discriminate).
  pose proof (cna_post_holds cur ty (VStr (t_val t)) true true (p_loaded st) Hfc Hsh) as P.
  unfold lift_cna.
  destruct (check_next_arg cur ty (VStr (t_val t)) true true (p_loaded st)) as [cur' slot| | |] eqn:E;
    try exact I; try contradiction.
  - pose proof (value_taken_live st e cur rest ty (VStr (t_val t)) cur' slot false HL He Es Hcs Hsh Hnt E (fun _ => I)) as V.
    destruct (check_completion (replace_top cur' st) false); try contradiction. cbn. right. apply V.
  - cbn. intros [H|H]; contradiction.
Qed.

Lemma m_arguments_post : forall T st e t,
  twf_tables T = true ->
  LiveE st e -> p_expected st = None -> p_cstate st = CArgs -> passes e (t_kind t) ->
  hpost st e t (m_arguments T st t).
Proof.
  intros T st e t HT HL He Hcs Hp. pose proof HL as (L1 & L2 & L3 & L4 & L5 & L6 & L7).
  destruct (p_stack st) as [|cur rest] eqn:Es; [exfalso; apply L2; [rewrite Hcs; discriminate|reflexivity]|].
  pose proof (stack_ok_top _ _ L1) as Hfc.
  unfold m_arguments.
  destruct (t_kind t) eqn:Ek.
  - (* '[' *)
    unfold m_argument. rewrite Es, Ek.
    set (st1 := with_expected (Some [TString]) (with_curlist [] (with_cstate CStrList (with_brackets (BRBracket :: p_brackets st) st)))).
    assert (HL1 : Live st1).
    { unfold Live, LiveE, st1. pcbn. rewrite Es.
      split; [exact L1|]. split; [intros _; discriminate|]. split; [discriminate|].
      split; [rewrite n_paren_cons; change (exp_ind (Some [TString])) with 0; pose proof (exp_ind_le e); lia|].
      split; [rewrite n_cbr_cons; cbn [cs_ind]; apply n_nontest_pos; [exact L1|discriminate]|].
      split; [|discriminate].
      intros _. exists (p_brackets st). split; [reflexivity|]. intros _. rewrite Hcs in L5. cbn [cs_ind] in L5. exact L5. }
    pose proof (cc_live st1 false HL1) as C.
    assert (C' : match check_completion st1 false with MTrue st' => Live st' | _ => False end).
    { assert (Hc1 : p_cstate st1 = CStrList) by reflexivity.
      assert (X := C ltac:(rewrite Hc1; discriminate) ltac:(intros _; unfold st1; pcbn; discriminate) ltac:(discriminate)).
      assert (Y := X ltac:(intros; unfold st1; pcbn; apply n_cbr_cons)).
      destruct (check_completion st1 false); try contradiction. apply Y. }
    destruct (check_completion st1 false); try contradiction. cbn. right. exact C'.
  - (* ']' *)
    unfold m_argument. rewrite Es, Ek. cbn. intros [H|H]; rewrite Ek in H; discriminate.
  - (* '(' *)
    cbn. destruct (exp_has TLeftParen e) eqn:Elp.
    + right. unfold Live, LiveE. pcbn. rewrite Es, Hcs.
      split; [exact L1|]. split; [intros _; discriminate|]. split; [discriminate|].
      split; [rewrite n_paren_cons; change (exp_ind (Some [TIdentifier])) with 0; unfold exp_ind in L4; rewrite Elp in L4; lia|].
      split; [rewrite n_cbr_cons; rewrite Hcs in L5; exact L5|]. split; [discriminate|]. intros _ H. discriminate.
    + left. pose proof (passes_none_or e TLeftParen Hp Elp) as ->.
      unfold Dead. pcbn. split; [exact Hcs|]. split; [reflexivity|].
      exists cur, rest. split; [exact Es|]. split; [exact Hfc|]. apply (L7 Hcs eq_refl).
  - (* ')' *)
    destruct (pop_bracket st BRParen) as [st1|err] eqn:Epb; [|exact I].
    destruct (pop_bracket_inl _ _ _ Epb) as (b & Hb & ->).
    assert (Htc : is_test cur = true).
    { destruct (is_test cur) eqn:Et; auto. exfalso.
      rewrite (n_vartest_nontest_top cur rest L1 Et), Hb, n_paren_cons in L4. lia. }
    pose proof (up_test (with_brackets b st) cur rest Es L1 Htc) as U.
    destruct (up (with_brackets b st)) as [st'| | | |]; try contradiction; [|exact I].
    destruct U as (U1 & U2 & top' & r' & U3 & U4 & U5 & U6 & U7).
    cbn. right. unfold Live, LiveE. rewrite U1, U2, U3. pcbn. rewrite Hcs.
    split; [exact U4|]. split; [intros _; discriminate|]. split; [discriminate|].
    assert (Hei : exp_ind (p_expected st') = 0).
    { destruct U7 as [(-> & _)|(-> & _)]; [pcbn; rewrite He; reflexivity|reflexivity]. }
    split.
    { rewrite Hei. rewrite Hb, n_paren_cons in L4. destruct (is_vartest cur); lia. }
    split; [rewrite U6; rewrite Hb, n_cbr_cons, Hcs in L5; exact L5|]. split; [discriminate|].
    intros _ Hn. destruct U7 as [(_ & A & B)|(U7 & _)]; [cbn; right; exact B|rewrite U7 in Hn; discriminate].
  - (* '{' *)
    unfold m_argument. rewrite Es, Ek.
    destruct (d_non_deterministic_args (f_def cur)) eqn:End.
    2:{ cbn. intros _. split; [exact HL|]. split; [exact He|reflexivity]. }
    assert (Htw : twf (f_def cur) = true) by apply Hfc.
    destruct (twf_nondet _ Htw End) as (Hre & Hct & Hnts).
    destruct (reassign_arguments cur) as [cur'|] eqn:Era.
    2:{ unfold reassign_arguments in Era. rewrite Hre in Era.
        repeat match type of Era with context [match ?x with _ => _ end] => destruct x end; discriminate. }
    destruct (fi_reassign cur cur' Hfc Hnts Era) as (Hf' & Hd & Ha & _).
    assert (HLr : forall e0, (e0 = e \/ e0 = None) -> LiveE (replace_top cur' st) e0).
    { intros e0 He0.
      assert (HL0 : LiveE st e0).
      { destruct He0 as [->| ->]; [exact HL|].
        unfold LiveE. rewrite Es. split; [exact L1|]. split; [exact L2|]. split; [exact L3|].
        split; [change (exp_ind None) with 0; lia|]. split; [exact L5|].
        split; [intro Hc; rewrite Hcs in Hc; discriminate|].
        intros _ _. cbn. left. exact Hnts. }
      apply (liveE_replace_top st e0 cur rest cur' HL0 ltac:(rewrite Hcs; discriminate) Es Hf' Hd Ha).
      intros _ _. left. rewrite Hd. exact Hnts. }
    assert (Hex : p_expected (replace_top cur' st) = None) by (unfold replace_top; rewrite Es; exact He).
    assert (Hcr : p_cstate (replace_top cur' st) = CArgs) by (unfold replace_top; rewrite Es; exact Hcs).
    destruct (negb (iscomplete cur' None)) eqn:Enc.
    + cbn. intros _. split; [apply HLr; left; reflexivity|]. split; [exact Hex|]. rewrite Hcr, Hcs. reflexivity.
    + (* the token is delivered again after the command has been left *)
      assert (HLive : Live (replace_top cur' st)) by (unfold Live; rewrite Hex; apply HLr; right; reflexivity).
      pose proof (cc_live (replace_top cur' st) false HLive) as C.
      rewrite Hcr in C.
      assert (X := C ltac:(discriminate) ltac:(discriminate) ltac:(discriminate)).
      assert (Htc' : is_test cur' = true).
      { unfold is_test. rewrite Hd. unfold is_ctest in Hct. destruct (d_type (f_def cur)); try discriminate; reflexivity. }
      assert (Hst' : p_stack (replace_top cur' st) = cur' :: rest) by (unfold replace_top; rewrite Es; reflexivity).
      assert (Y : match check_completion (replace_top cur' st) false with
                  | MTrue st' => Live st' /\ rw_ok t st' | _ => False end).
      { assert (Z := X ltac:(intros c r Ec Hnt; exfalso; rewrite Hst' in Ec; inversion Ec; subst c; congruence)).
        destruct (check_completion (replace_top cur' st) false); try contradiction.
        destruct Z as (Z1 & Z2 & _ & Z4). split; [exact Z1|].
        unfold rw_ok. split; [exact Ek|]. split; [exact Z2|].
        apply (Z4 cur' rest Hst' Htc'). apply negb_false_iff. exact Enc. }
      destruct (check_completion (replace_top cur' st) false); try contradiction.
      cbn. destruct Y as (Y1 & Y2). split; [right; exact Y1|exact Y2].
  - (* '}' *) unfold m_argument. rewrite Es, Ek. cbn. intros [H|H]; rewrite Ek in H; discriminate.
  - (* ';' *) unfold m_argument. rewrite Es, Ek. cbn. intros _. split; [exact HL|]. split; [exact He|reflexivity].
  - (* ',' *)
    cbn. right. unfold Live, LiveE. pcbn. rewrite Es, Hcs.
    split; [exact L1|]. split; [intros _; discriminate|]. split; [discriminate|].
    split; [change (exp_ind (Some [TIdentifier])) with 0; pose proof (exp_ind_le e); lia|].
    split; [rewrite Hcs in L5; exact L5|]. split; [discriminate|]. intros _ H. discriminate.
  - (* hash comment: never reaches the handlers, but harmless *)
    unfold m_argument. rewrite Es, Ek. cbn. intros [H|H]; rewrite Ek in H; discriminate.
  - unfold m_argument. rewrite Es, Ek. cbn. intros [H|H]; rewrite Ek in H; discriminate.
  - (* multi-line string *)
    unfold m_argument. rewrite Es, Ek.
    destruct (negb (utf8_valid (t_val t))); [exact I|].
    apply (scalar_post st e t TyString HL He Hcs (or_introl eq_refl) ltac:(rewrite Ek; split; discriminate) cur rest Es).
  - (* string *)
    unfold m_argument. rewrite Es, Ek.
    destruct (negb (utf8_valid (t_val t))); [exact I|].
    apply (scalar_post st e t TyString HL He Hcs (or_introl eq_refl) ltac:(rewrite Ek; split; discriminate) cur rest Es).
  - (* identifier: a test *)
    rewrite Es.
    destruct (get_command_instance T (p_loaded st) (t_val t)) as [d|err] eqn:Eg; [|exact I].
    pose proof (gci_twf _ _ _ _ HT Eg) as Htd.
    destruct (d_type d) eqn:Edt; try exact I.
    assert (Hctd : is_ctest d = true) by (unfold is_ctest; rewrite Edt; reflexivity).
    pose proof (cna_post_holds cur TyTest placeholder true true (p_loaded st) Hfc I) as P.
    destruct (check_next_arg cur TyTest placeholder true true (p_loaded st)) as [cur' slot| | |] eqn:E;
      try exact I; try contradiction.
    2:{ cbn. intros [H|H]; rewrite Ek in H; discriminate. }
    destruct P as (Hd & Ha & _ & Hf' & P). destruct (P eq_refl) as (ca & -> & Hargs & Hkind). clear P.
    set (at_ := match a_type ca with [TyTestList] => AtTestList (a_name ca) | _ => AtTest (a_name ca) end).
    set (N := new_frame d at_).
    assert (Htw : twf (f_def cur) = true) by apply Hfc.
    assert (Hslot : slot_is_test ca = true).
    { destruct Hkind as [(Hk & _)|(Hk & _)]; [apply is_tl_slot_test; exact Hk|].
      unfold is_t1 in Hk. unfold slot_is_test. destruct (a_type ca) as [|[] [|y l]]; try discriminate. reflexivity. }
    assert (Hts : has_test_slot (f_def cur) = true) by (apply (slot_in_has_test _ ca); [rewrite Hargs; left; reflexivity|exact Hslot]).
    destruct (twf_test_slot_kind _ Htw Hts) as (Hnd & _ & _).
    set (st2 := with_stack (N :: p_stack (with_expected (d_expected_first d) (replace_top cur' st)))
                           (with_expected (d_expected_first d) (replace_top cur' st))).
    assert (Hst2 : p_stack st2 = N :: cur' :: rest) by (unfold st2, replace_top; rewrite Es; reflexivity).
    assert (Htn : is_test N = true) by (unfold is_test, N; cbn; rewrite Edt; reflexivity).
    assert (Hok : stack_ok (N :: cur' :: rest)).
    { cbn [stack_ok]. split; [apply fi_new_frame; exact Htd|]. split.
      - unfold adj_ok. rewrite Htn, Hd. split; [exact Hnd|]. split; [exact Hts|].
        destruct Hkind as [(Hk & ->)|(Hk & Hc)]; [right; apply (tl_variable _ ca Htw Hargs Hk)|left; exact Hc].
      - apply (stack_ok_replace cur); auto. }
    assert (HL2 : Live st2).
    { unfold Live, LiveE. rewrite Hst2. unfold st2, replace_top. rewrite Es. pcbn. rewrite Hcs.
      split; [exact Hok|]. split; [intros _; discriminate|]. split; [discriminate|].
      split.
      { rewrite n_vartest_cons, n_vartest_cons, (is_vartest_def cur cur' Hd), <- n_vartest_cons.
        unfold exp_ind at 1. destruct (exp_has TLeftParen (d_expected_first d)) eqn:Elp.
        - unfold is_vartest. rewrite Htn. unfold N. cbn [f_def new_frame].
          rewrite (twf_lparen_vartest d Htd Hctd Elp). cbn [andb]. pose proof (exp_ind_le e). lia.
        - lia. }
      split; [rewrite !n_nontest_cons, Htn, (is_test_def cur cur' Hd), <- n_nontest_cons; rewrite Hcs in L5; exact L5|].
      split; [discriminate|].
      intros _ Hn. cbn. left. unfold N. cbn [f_def new_frame].
      destruct (has_test_slot d) eqn:Htsd; auto. exfalso. apply (twf_test_expected d Htd Hctd Htsd Hn). }
    pose proof (cc_live st2 false HL2) as C.
    assert (Hc2 : p_cstate st2 = CArgs) by (unfold st2, replace_top; rewrite Es; exact Hcs).
    rewrite Hc2 in C.
    assert (X := C ltac:(discriminate) ltac:(discriminate) ltac:(discriminate)).
    assert (Y : match check_completion st2 false with MTrue st' => Live st' | _ => False end).
    { assert (Z := X ltac:(intros c r Ec Hnt; exfalso; rewrite Hst2 in Ec; inversion Ec; subst c; congruence)).
      destruct (check_completion st2 false); try contradiction. apply Z. }
    fold at_. fold N. fold st2.
    destruct (check_completion st2 false); try contradiction. cbn. right. exact Y.
  - (* tag *)
    unfold m_argument. rewrite Es, Ek.
    apply (scalar_post st e t TyTag HL He Hcs (or_intror (or_intror eq_refl)) ltac:(rewrite Ek; split; discriminate) cur rest Es).
  - (* number *)
    unfold m_argument. rewrite Es, Ek.
    apply (scalar_post st e t TyNumber HL He Hcs (or_intror (or_introl eq_refl)) ltac:(rewrite Ek; split; discriminate) cur rest Es).
Qed.

Lemma cc_semicolon : forall st cur rest,
  p_stack st = cur :: rest -> is_test cur = false -> d_accept_children (f_def cur) = false ->
  check_completion st false = MTrue st.
Proof.
  intros st cur rest Es Ht Hc. unfold check_completion. rewrite Es.
  destruct (iscomplete cur None); cbn [negb]; [|reflexivity].
  assert (H : is_action cur || (is_control cur && negb (d_accept_children (f_def cur))) = true).
  { rewrite Hc. unfold is_action, is_control, is_test in *. destruct (d_type (f_def cur)); try reflexivity; discriminate. }
  rewrite H. reflexivity.
Qed.

Lemma complete_cb_post : forall st cur rest,
  p_stack st = cur :: rest -> fi cur ->
  match complete_cb st with
  | MTrue st' => st' = st \/ exists L, st' = with_loaded L st
  | _ => False
  end.
Proof.
  intros st cur rest Es (Htw & _ & Hnt & _). unfold complete_cb. rewrite Es.
  destruct (d_complete (f_def cur)) eqn:Ec; [left; reflexivity|].
  destruct (assoc_get capabilities_key (f_args cur)) as [v|] eqn:Eg; [|left; reflexivity].
  destruct (assoc_get_In _ _ _ _ Eg) as (k & Hin).
  pose proof (Hnt (twf_hrequire _ Htw Ec) k v Hin) as Hv.
  destruct v; try discriminate; right; eexists; reflexivity.
Qed.

Lemma liveE_expected_irrelevant : forall st e x, LiveE (with_expected x st) e <-> LiveE st e.
Proof. intros st e x. unfold LiveE. pcbn. tauto. Qed.

Definition after_handler (t : token) (r : mres) : mres :=
  match r with
  | MFalse st1 =>
      match t_kind t with
      | TLeftCBracket =>
          match p_stack st1 with
          | [] => MCrash
          | cur :: _ =>
              if is_control cur && d_accept_children (f_def cur) && iscomplete cur None
              then MTrue (with_cstate CNone (with_brackets (BRCBracket :: p_brackets st1) st1))
              else MFalse st1
          end
      | TSemicolon =>
          match p_stack st1 with
          | [] => MCrash
          | cur :: _ =>
              if is_test cur || d_accept_children (f_def cur) then MFalse st1
              else if pending_param cur then MErr EMissingParam
              else
                match check_completion (with_cstate CNone st1) false with
                | MTrue st2 =>
                    match complete_cb st2 with
                    | MTrue st3 => up st3
                    | r' => r'
                    end
                | MRewind st2 => MCrash
                | r' => r'
                end
          end
      | _ => MFalse st1
      end
  | _ => r
  end.

Lemma after_handler_post : forall st e t r,
  p_cstate st <> CNone -> hpost st e t r -> res_inv t (after_handler t r).
Proof.
  intros st e t r Hcs H. unfold after_handler.
  destruct r as [st'|st'|st1|err|]; try exact H; try exact I.
  unfold hpost in H.
  destruct (t_kind t) eqn:Ek; try exact I.
  - (* '{' opens the block of a complete control *)
    destruct (H (or_introl eq_refl)) as ((L1 & L2 & L3 & L4 & L5 & L6 & L7) & He & Hc1).
    destruct (p_stack st1) as [|cur rest] eqn:Es; [exfalso; apply L2; [rewrite Hc1; exact Hcs|reflexivity]|].
    destruct (is_control cur && d_accept_children (f_def cur) && iscomplete cur None) eqn:Eok; [|exact I].
    apply andb_true_iff in Eok. destruct Eok as [Eok Hcomp]. apply andb_true_iff in Eok. destruct Eok as [Hctl Hch].
    pose proof (is_control_not_test _ Hctl) as Hnt.
    cbn. right. unfold Live, LiveE. pcbn. rewrite Es, He.
    split; [exact L1|]. split; [intro X; congruence|].
    split.
    { intros _ f [<-|Hin]; [split; assumption|]. apply (nontest_below_complete rest cur L1 Hnt f Hin). }
    split; [rewrite n_paren_cons; change (exp_ind None) with 0; pose proof (exp_ind_le e); lia|].
    split.
    { rewrite n_cbr_cons. cbn [cs_ind].
      assert (cs_ind (p_cstate st1) = 1) by (rewrite Hc1; destruct (p_cstate st); [congruence|reflexivity|reflexivity]). lia. }
    split; [discriminate|discriminate].
  - (* ';' closes a command that takes no block *)
    destruct (H (or_intror eq_refl)) as ((L1 & L2 & L3 & L4 & L5 & L6 & L7) & He & Hc1).
    destruct (p_stack st1) as [|cur rest] eqn:Es; [exfalso; apply L2; [rewrite Hc1; exact Hcs|reflexivity]|].
    destruct (is_test cur || d_accept_children (f_def cur)) eqn:Etc; [exact I|].
    apply orb_false_iff in Etc. destruct Etc as [Hnt Hch].
    destruct (pending_param cur); [exact I|].
    set (st2 := with_cstate CNone st1).
    assert (Es2 : p_stack st2 = cur :: rest) by (unfold st2; pcbn; exact Es).
    rewrite (cc_semicolon st2 cur rest Es2 Hnt Hch).
    pose proof (complete_cb_post st2 cur rest Es2 (stack_ok_top _ _ L1)) as C.
    destruct (complete_cb st2) as [st3| | | |]; try contradiction.
    assert (Hst3 : p_stack st3 = cur :: rest /\ p_cstate st3 = CNone /\ p_brackets st3 = p_brackets st1 /\ p_expected st3 = None).
    { destruct C as [->|(L & ->)]; unfold st2; pcbn; auto. }
    destruct Hst3 as (S1 & S2 & S3 & S4).
    pose proof (up_nontest st3 cur rest S1 L1 Hnt) as U.
    destruct (up st3) as [st4| | | |]; try contradiction; [|exact I].
    destruct U as (U1 & U2 & U3 & U4 & U5 & U6).
    cbn. right. unfold Live, LiveE. rewrite U1, U2, U3, S2, S3, S4.
    split; [exact U4|]. split; [intro X; congruence|]. split; [intros _; exact U5|].
    assert (Hv0 : n_vartest (p_stack st4) = 0) by (apply n_vartest_nontest; intros f Hf; apply U5; exact Hf).
    assert (Hv1 : n_vartest (cur :: rest) = 0) by (apply n_vartest_nontest_top; assumption).
    split; [rewrite Hv0; change (exp_ind None) with 0; rewrite Hv1 in L4; lia|].
    split.
    { cbn [cs_ind].
      assert (cs_ind (p_cstate st1) = 1) by (rewrite Hc1; destruct (p_cstate st); [congruence|reflexivity|reflexivity]). lia. }
    split; [discriminate|discriminate].
Qed.

Lemma m_command_post : forall T st e t,
  twf_tables T = true ->
  LiveE st e -> p_expected st = None -> passes e (t_kind t) ->
  res_inv t (m_command T st t).
Proof.
  intros T st e t HT HL He Hp. pose proof HL as (L1 & L2 & L3 & L4 & L5 & L6 & L7).
  unfold m_command. destruct (p_cstate st) eqn:Hcs.
  - (* between commands *)
    destruct (t_kind t) eqn:Ek; try exact I.
    + (* '}' *)
      destruct (pop_bracket st BRCBracket) as [st1|err] eqn:Epb; [|exact I].
      destruct (pop_bracket_inl _ _ _ Epb) as (b & Hb & ->).
      destruct (p_stack st) as [|cur rest] eqn:Es.
      { exfalso. rewrite Hb, n_cbr_cons in L5. cbn in L5. lia. }
      assert (Hnt : is_test cur = false) by (apply (L3 eq_refl); left; reflexivity).
      pose proof (up_nontest (with_brackets b st) cur rest Es L1 Hnt) as U.
      destruct (up (with_brackets b st)) as [st2| | | |]; try contradiction; [|exact I].
      destruct U as (U1 & U2 & U3 & U4 & U5 & U6).
      cbn. right. unfold Live, LiveE. pcbn. rewrite U2, U3. pcbn. rewrite He.
      split; [exact U4|]. split; [intro H; congruence|]. split; [intros _; exact U5|].
      assert (Hv0 : n_vartest (p_stack st2) = 0) by (apply n_vartest_nontest; intros f Hf; apply U5; exact Hf).
      assert (Hv1 : n_vartest (cur :: rest) = 0) by (apply n_vartest_nontest_top; assumption).
      split; [rewrite Hv0; change (exp_ind None) with 0; rewrite Hb, n_paren_cons, Hv1 in L4; lia|].
      split; [cbn [cs_ind]; rewrite Hb, n_cbr_cons in L5; cbn [cs_ind] in L5; lia|].
      split; [discriminate|discriminate].
    + (* a command name *)
      destruct (get_command_instance T (p_loaded st) (t_val t)) as [d|err] eqn:Eg; [|exact I].
      pose proof (gci_twf _ _ _ _ HT Eg) as Htd.
      destruct (d_type d) eqn:Edt; try exact I.
      * (* control *)
        set (st1 := if d_accept_children d && has_arguments d then with_expected (Some [TIdentifier]) st else st).
        assert (Hst1 : p_stack st1 = p_stack st /\ p_brackets st1 = p_brackets st /\
                       (p_expected st1 = None \/ p_expected st1 = Some [TIdentifier]) /\
                       (p_expected st1 = None -> has_test_slot d = false)).
        { unfold st1. destruct (d_accept_children d && has_arguments d) eqn:Eca; pcbn.
          - repeat split; auto. intro H; discriminate.
          - repeat split; auto. intros _. destruct (has_test_slot d) eqn:Hts; auto. exfalso.
            destruct (twf_test_slot d Htd Hts) as (a & Ha & _).
            unfold twf in Htd. rewrite Hts, Ha, Edt in Htd.
            repeat match goal with K : (_ && _)%bool = true |- _ => apply andb_true_iff in K; destruct K end.
            unfold has_arguments in Eca. rewrite Ha in Eca.
            match goal with K : (_ || _)%bool = true |- _ => apply orb_true_iff in K; destruct K as [K|K] end;
              repeat match goal with K : (_ && _)%bool = true |- _ => apply andb_true_iff in K; destruct K end.
            + match goal with K : d_accept_children d = true |- _ => rewrite K in Eca end. discriminate.
            + unfold is_ctest in *. rewrite Edt in *. discriminate. }
        destruct Hst1 as (S1 & S2 & S3 & S4).
        assert (Hfin : forall at_ below,
                  p_stack st = below -> (below = [] \/ exists cur r, below = cur :: r /\ d_accept_children (f_def cur) = true) ->
                  (below <> [] -> at_ = AtChild) ->
                  Inv (with_cstate CArgs (with_stack (new_frame d at_ :: below) st1))).
        { intros at_ below Eb Hbelow Hat. right. unfold Live, LiveE. pcbn. rewrite S2.
          set (N := new_frame d at_).
          assert (Hnt : is_test N = false) by (unfold is_test, N; cbn; rewrite Edt; reflexivity).
          assert (Hok : stack_ok (N :: below)).
          { cbn [stack_ok]. split; [apply fi_new_frame; exact Htd|]. rewrite Eb in L1. split; [|exact L1].
            destruct Hbelow as [->|(cur & r & -> & Hch)]; [exact Hnt|].
            pose proof (stack_ok_top _ _ L1) as Hfc. assert (Htwc : twf (f_def cur) = true) by apply Hfc.
            destruct (L3 eq_refl cur) as (Hntc & Hcc); [rewrite Eb; left; reflexivity|].
            unfold adj_ok. rewrite Hnt. split; [apply twf_children_det; assumption|].
            split.
            - unfold is_control, is_test in *. unfold twf in Htwc.
              destruct (d_type (f_def cur)) eqn:Etc; try reflexivity; try discriminate.
              repeat match goal with K : (_ && _)%bool = true |- _ => apply andb_true_iff in K; destruct K end.
              rewrite Hch in *. discriminate.
            - split; [exact Hcc|]. unfold plain_attach, N. cbn. rewrite (Hat ltac:(discriminate)). exact I. }
          split; [exact Hok|]. split; [intros _; discriminate|]. split; [discriminate|].
          rewrite Eb in L4, L5.
          split.
          { rewrite n_vartest_cons. unfold is_vartest. rewrite Hnt. cbn [andb].
            assert (exp_ind (p_expected st1) = 0) by (destruct S3 as [-> | ->]; reflexivity). lia. }
          split; [rewrite n_nontest_cons, Hnt; cbn [cs_ind] in *; lia|].
          split; [discriminate|].
          intros _ Hn. cbn. left. unfold N. cbn [f_def new_frame]. apply S4. exact Hn. }
        destruct (p_stack st) as [|cur rest] eqn:Es.
        -- cbn. apply (Hfin AtTop []); auto. intro H; congruence.
        -- destruct (d_accept_children (f_def cur)) eqn:Ech; [|exact I].
           cbn. apply (Hfin AtChild (cur :: rest)); auto. right. exists cur, rest. auto.
      * (* action *)
        assert (Hnts : has_test_slot d = false).
        { destruct (has_test_slot d) eqn:Hts; auto. exfalso.
          destruct (twf_test_slot_kind d Htd Hts) as (_ & Hk & _). rewrite Edt in Hk. exact Hk. }
        assert (Hfin : forall at_ below,
                  p_stack st = below -> (below = [] \/ exists cur r, below = cur :: r /\ d_accept_children (f_def cur) = true) ->
                  (below <> [] -> at_ = AtChild) ->
                  Inv (with_cstate CArgs (with_stack (new_frame d at_ :: below) st))).
        { intros at_ below Eb Hbelow Hat. right. unfold Live, LiveE. pcbn. rewrite He.
          set (N := new_frame d at_).
          assert (Hnt : is_test N = false) by (unfold is_test, N; cbn; rewrite Edt; reflexivity).
          assert (Hok : stack_ok (N :: below)).
          { cbn [stack_ok]. split; [apply fi_new_frame; exact Htd|]. rewrite Eb in L1. split; [|exact L1].
            destruct Hbelow as [->|(cur & r & -> & Hch)]; [exact Hnt|].
            pose proof (stack_ok_top _ _ L1) as Hfc. assert (Htwc : twf (f_def cur) = true) by apply Hfc.
            destruct (L3 eq_refl cur) as (Hntc & Hcc); [rewrite Eb; left; reflexivity|].
            unfold adj_ok. rewrite Hnt. split; [apply twf_children_det; assumption|].
            split.
            - unfold is_control, is_test in *. unfold twf in Htwc.
              destruct (d_type (f_def cur)) eqn:Etc; try reflexivity; try discriminate.
              repeat match goal with K : (_ && _)%bool = true |- _ => apply andb_true_iff in K; destruct K end.
              rewrite Hch in *. discriminate.
            - split; [exact Hcc|]. unfold plain_attach, N. cbn. rewrite (Hat ltac:(discriminate)). exact I. }
          split; [exact Hok|]. split; [intros _; discriminate|]. split; [discriminate|].
          rewrite Eb in L4, L5.
          split; [rewrite n_vartest_cons; unfold is_vartest; rewrite Hnt; cbn [andb]; change (exp_ind None) with 0; lia|].
          split; [rewrite n_nontest_cons, Hnt; cbn [cs_ind] in *; lia|].
          split; [discriminate|].
          intros _ _. cbn. left. exact Hnts. }
        destruct (p_stack st) as [|cur rest] eqn:Es.
        -- cbn. apply (Hfin AtTop []); auto. intro H; congruence.
        -- destruct (d_accept_children (f_def cur)) eqn:Ech; [|exact I].
           cbn. apply (Hfin AtChild (cur :: rest)); auto. right. exists cur, rest. auto.
  - (* inside the arguments of a command *)
    change (res_inv t (after_handler t (m_arguments T st t))).
    apply (after_handler_post st e t); [rewrite Hcs; discriminate|].
    apply m_arguments_post; assumption.
  - (* inside a string list *)
    change (res_inv t (after_handler t (m_stringlist st t))).
    apply (after_handler_post st e t); [rewrite Hcs; discriminate|].
    apply m_stringlist_post; assumption.
Qed.

Lemma inv_with_hash : forall st h, Inv st -> Inv (with_hash h st).
Proof.
  intros st h [(D1 & D2 & D3)|HL]; [left|right].
  - unfold Dead. pcbn. auto.
  - unfold Live, LiveE in *. pcbn. exact HL.
Qed.

Lemma dead_step : forall T st t,
  Dead st -> kind_mem (t_kind t) [TIdentifier] = true ->
  match m_command T (with_expected None st) t with
  | MCrash | MTrue _ | MRewind _ => False
  | _ => True
  end.
Proof.
  intros T st t (Hcs & He & f & r & Es & Hfi & Hclosed) Hk.
  assert (Ek : t_kind t = TIdentifier) by (destruct (t_kind t); cbn in Hk; try discriminate; reflexivity).
  unfold m_command. pcbn. rewrite Hcs. unfold m_arguments. pcbn. rewrite Ek, Es.
  destruct (get_command_instance T (p_loaded st) (t_val t)) as [d|err]; [|exact I].
  destruct (d_type d); try exact I.
  pose proof (accepts_no_test f true true (p_loaded st) Hfi Hclosed) as A.
  destruct (check_next_arg f TyTest placeholder true true (p_loaded st)); try contradiction; exact I.
Qed.

(* Part 3, main theorem: the invariant is preserved by every step and no step crashes *)
Theorem process_inv : forall T st t,
  twf_tables T = true -> Inv st -> res_inv t (process T st t).
Proof.
  intros T st t HT HI. unfold process.
  assert (G : res_inv t match p_expected st with
                      | Some l => if kind_mem (t_kind t) l then m_command T (with_expected None st) t else MErr EExpected
                      | None => m_command T st t
                      end).
  { destruct HI as [HD|HL].
    - pose proof HD as (_ & He & _). rewrite He.
      destruct (kind_mem (t_kind t) [TIdentifier]) eqn:Ek; [|exact I].
      pose proof (dead_step T st t HD Ek) as D.
      destruct (m_command T (with_expected None st) t); try contradiction; exact I.
    - destruct (p_expected st) as [l|] eqn:Ee.
      + destruct (kind_mem (t_kind t) l) eqn:Ek; [|exact I].
        apply (m_command_post T (with_expected None st) (Some l) t HT).
        * apply liveE_expected_irrelevant. unfold Live in HL. rewrite Ee in HL. exact HL.
        * reflexivity.
        * exact Ek.
      + apply (m_command_post T st None t HT); [unfold Live in HL; rewrite Ee in HL; exact HL|exact Ee|exact I]. }
  destruct (t_kind t); try exact G.
  - cbn. apply inv_with_hash. exact HI.
  - cbn. exact HI.
Qed.

(* ====================================================================================== *)
(* Part 4: fuel                                                                            *)
(* ====================================================================================== *)

(* every token takes at least one byte: there are at most as many tokens as bytes *)
Lemma lex_all_count : forall fl pos l toks err,
  lex_all fl pos l = (toks, err) -> length toks <= length l.
Proof.
  induction fl as [|f IH]; intros pos l toks err H; cbn [lex_all] in H.
  - inversion H. cbn. lia.
  - destruct (next_token pos l) as [|t after|p] eqn:E.
    + inversion H. cbn. lia.
    + destruct (lex_all f (t_pos t + length (t_val t)) after) as [ts e] eqn:E2. inversion H; subst.
      destruct (next_token_progress _ _ _ _ E) as (P1 & _). specialize (IH _ _ _ _ E2). cbn [length]. lia.
    + inversion H. cbn. lia.
Qed.

Theorem token_count : forall text, length (fst (lex text)) <= length text.
Proof.
  intro text. unfold lex. destruct (lex_all (S (length text)) 0 text) as [toks err] eqn:E.
  cbn [fst]. apply (lex_all_count _ _ _ _ _ E).
Qed.

(* the token delivered again after a rewind is not rewound a second time *)
Lemma no_double_rewind : forall T st t st2, rw_ok t st -> process T st t <> MRewind st2.
Proof.
  intros T st t st2 (Ek & Hcs & top' & r' & Es & Hnd).
  assert (G : forall st0, p_cstate st0 = CArgs -> p_stack st0 = top' :: r' -> m_command T st0 t <> MRewind st2).
  { intros st0 Hc0 Es0. unfold m_command. rewrite Hc0. unfold m_arguments. rewrite Ek.
    unfold m_argument. rewrite Es0, Ek, Hnd. rewrite Es0.
    destruct (is_control top' && d_accept_children (f_def top') && iscomplete top' None); discriminate. }
  unfold process. rewrite Ek.
  destruct (p_expected st) as [l|].
  - destruct (kind_mem TLeftCBracket l); [|discriminate]. apply G; assumption.
  - apply G; assumption.
Qed.

Definition measure (n : nat) (rewound : bool) : nat := 2 * n + (if rewound then 0 else 1).

(* Part 4/5 main lemma: from a state satisfying the invariant, the machine over the token list ends in
   Accept or Reject within 2 * (number of tokens) + 2 steps *)
Lemma run_tokens_total : forall T fuel toks err endpos lastlen st rewound,
  twf_tables T = true -> Inv st ->
  (rewound = true -> match toks with t :: _ => rw_ok t st | [] => False end) ->
  measure (length toks) rewound < fuel ->
  match run_tokens fuel T toks err endpos lastlen st with
  | Accept _ | Reject _ _ _ => True
  | Crash _ | OutOfFuel => False
  end.
Proof.
  intros T. induction fuel as [|f IH]; intros toks err endpos lastlen st rewound HT HI Hrw Hm; [lia|].
  destruct toks as [|t ts].
  - rewrite run_tokens_S_nil. destruct err; [exact I|].
    unfold finish. destruct (match p_brackets st with b :: _ => Some [closing_kind b] | [] => p_expected st end); [exact I|].
    destruct (p_stack st); exact I.
  - rewrite run_tokens_S_cons.
    pose proof (process_inv T st t HT HI) as P.
    destruct (process T st t) as [st'|st'|st'|e|] eqn:Ep; try exact I; try contradiction.
    + apply (IH ts err endpos (length (t_val t)) st' false HT P); [discriminate|].
      unfold measure in *. cbn [length] in Hm. destruct rewound; lia.
    + destruct P as (P1 & P2).
      destruct rewound.
      * exfalso. apply (no_double_rewind T st t st' (Hrw eq_refl)). exact Ep.
      * apply (IH (t :: ts) err endpos (length (t_val t)) st' true HT P1); [intros _; exact P2|].
        unfold measure in *. cbn [length] in *. lia.
Qed.

(* ====================================================================================== *)
(* Part 5: C02 on the model                                                                *)
(* ====================================================================================== *)

Theorem parse_total : forall T text,
  twf_tables T = true ->
  match parse T text with
  | Accept _ | Reject _ _ _ => True
  | Crash _ | OutOfFuel => False
  end.
Proof.
  intros T text HT. rewrite parse_run_tokens.
  apply (run_tokens_total T _ _ _ _ _ p_init false HT Inv_init); [discriminate|].
  unfold measure. pose proof (token_count text). lia.
Qed.

Corollary parse_total_gen : forall text,
  match parse gen_tables text with
  | Accept _ | Reject _ _ _ => True
  | Crash _ | OutOfFuel => False
  end.
Proof. intro text. apply parse_total. apply twf_gen_tables. Qed.

(* the number of machine steps is linear in the input: the fuel 2 * length text + 2 is never used up;
   stated positively: parse with any larger fuel gives the same answer (no dependence on the fuel) *)
Theorem verdict_is_bool : forall T text, twf_tables T = true ->
  (exists r, parse T text = Accept r) \/ (exists e pos tlen, parse T text = Reject e pos tlen).
Proof.
  intros T text HT. pose proof (parse_total T text HT) as H.
  destruct (parse T text) as [r|e p l|p|]; try contradiction; [left|right]; eauto.
Qed.

(* a rejection comes with a position inside the text, hence a line number between 1 and 1 + number of LF *)
Theorem reject_line_in_range : forall T text e pos tlen,
  parse T text = Reject e pos tlen ->
  pos <= length text /\ 1 <= lineno text pos /\ lineno text pos <= 1 + count_lf text.
Proof.
  intros T text e pos tlen H.
  destruct (error_pos_address T text e pos tlen H) as (_ & Hpos & _).
  split; [exact Hpos|]. unfold lineno. split; [lia|].
  assert (count_lf (firstn pos text) <= count_lf text).
  { rewrite <- (firstn_skipn pos text) at 2. unfold count_lf. rewrite filter_app, app_length. lia. }
  lia.
Qed.

(* the hypothesis on the tables is needed: the table of PositionFacts.parse_can_run_out_of_fuel violates it *)
Example twf_needed :
  twf (mkCmd [120%N] CAction [] false false true None None None HNone RHasflag) = false.
Proof. vm_compute. reflexivity. Qed.

Print Assumptions process_inv.
Print Assumptions parse_total.
Print Assumptions parse_total_gen.
Print Assumptions verdict_is_bool.
Print Assumptions reject_line_in_range.
Print Assumptions token_count.
