(* TotalFacts.v — property C02 "parsing always terminates with a verdict: no exception, no hang",
   proved about the executable model of sievelib.parser.Parser (Machine.v) over any command tables that
   satisfy a decidable structural condition [twf_tables] (checked on the tables generated from /repo).

   Part 1: the table condition.
   Part 2: frame-level facts about check_next_arg (no CnaCrash; counters; who accepts a test).
   Part 3: the state invariant [Inv] = Dead \/ Live and its preservation by [process]:
           no transition of a state satisfying it returns MCrash.
   Part 4: fuel: a rewound token is never rewound twice, tokens are non-empty, hence the fuel of [parse]
           (2 * length text + 2) is never exhausted.
   Part 5: the statement of C02 on the model: [parse T text] is Accept or Reject for every text. *)
From Coq Require Import String.
From Coq Require Import List NArith Bool Arith Lia.
From SV Require Import Bytes Lexer Tables ArgCheck Machine GenTables.
Import ListNotations.
Local Open Scope nat_scope.

Local Arguments up : simpl never.
Local Arguments check_completion : simpl never.
Local Arguments check_next_arg : simpl never.
Local Arguments complete_cb : simpl never.
Local Arguments get_command_instance : simpl never.
Local Arguments reassign_arguments : simpl never.
Local Arguments iscomplete : simpl never.
Local Arguments m_stringlist : simpl never.
Local Arguments m_argument : simpl never.
Local Arguments m_arguments : simpl never.
Local Arguments m_command : simpl never.
Local Arguments attach_into : simpl never.
Local Arguments pop_bracket : simpl never.

(* ====================================================================================== *)
(* Part 1: tables                                                                          *)
(* ====================================================================================== *)

Definition slot_is_test (a : argdef) : bool :=
  atype_mem TyTest (a_type a) || atype_mem TyTestList (a_type a).
Definition has_test_slot (d : cmddef) : bool := existsb slot_is_test (d_args d).
Definition is_tl (a : argdef) : bool := match a_type a with [TyTestList] => true | _ => false end.
Definition is_t1 (a : argdef) : bool := match a_type a with [TyTest] => true | _ => false end.

Definition has_vals (a : argdef) : bool :=
  match a_values a, a_extension_values a with None, None => false | _, _ => true end.

(* a slot whose value is compared (value.lower()) only ever receives str values; no tag parameter is typed
   "test" *)
Definition slot_val_ok (a : argdef) : bool :=
  (if has_vals a then negb (atype_mem TyStringList (a_type a)) && negb (slot_is_test a) else true)
  && match a_extra a with
     | Some ex => negb (extype_has TyTest (ex_type ex))
     | None => true
     end
  && (if a_required a then match a_extra a with None => true | Some _ => false end else true)
  && (if slot_is_test a then a_required a else true).

Definition kinds_eqb (a b : option (list tkind)) : bool :=
  match a, b with
  | None, None => true
  | Some x, Some y => (Nat.eqb (length x) (length y)) && forallb (fun p => tkind_eqb (fst p) (snd p)) (combine x y)
  | _, _ => false
  end.

Definition exp_has (k : tkind) (e : option (list tkind)) : bool :=
  match e with Some l => kind_mem k l | None => false end.

Definition is_ctest (d : cmddef) : bool := match d_type d with CTest => true | _ => false end.

Definition twf (d : cmddef) : bool :=
  forallb slot_val_ok (d_args d)
  && (if d_non_deterministic_args d
      then match d_reassign d with RNotImplemented => false | RHasflag => true end
           && is_ctest d && negb (has_test_slot d)
      else true)
  && (match d_complete d with HRequire => negb (has_test_slot d) | HNone => true end)
  && (if has_test_slot d then
        match d_args d with
        | [a] =>
            a_required a && negb (has_vals a)
            && ((is_t1 a && negb (d_variable_args_nb d)
                 && match d_type d with
                    | CControl => d_accept_children d
                    | CTest => kinds_eqb (d_expected_first d) (Some [TIdentifier])
                    | CAction => false
                    end)
                || (is_tl a && d_variable_args_nb d && is_ctest d
                    && kinds_eqb (d_expected_first d) (Some [TLeftParen])))
        | _ => false
        end
      else negb (d_variable_args_nb d)
           && negb (exp_has TLeftParen (d_expected_first d))
           && match d_type d with
              | CControl => negb (d_accept_children d) || match d_args d with [] => true | _ => false end
              | _ => true
              end)
  && (if d_accept_children d then negb (d_non_deterministic_args d) else true)
  && (match d_type d with CAction => negb (d_accept_children d) | _ => true end)
  && (match d_reassign d with RHasflag => Nat.eqb (required_args d) 1 | RNotImplemented => true end).

Definition twf_tables (T : tables) : bool := forallb (fun kd => twf (snd kd)) T.

Theorem twf_gen_tables : twf_tables gen_tables = true.
Proof. vm_compute. reflexivity. Qed.

(* ====================================================================================== *)
(* Part 2: frames and check_next_arg                                                       *)
(* ====================================================================================== *)

Definition count_req (l : list argdef) : nat := length (filter a_required l).

Lemma count_req_app : forall a b, count_req (a ++ b) = count_req a + count_req b.
Proof. intros a b. unfold count_req. rewrite filter_app, app_length. reflexivity. Qed.

Lemma required_args_split : forall d n,
  required_args d = count_req (firstn n (d_args d)) + count_req (skipn n (d_args d)).
Proof. intros d n. unfold required_args. fold (count_req (d_args d)). rewrite <- count_req_app, firstn_skipn. reflexivity. Qed.

(* counters: either the command already has all its required arguments, or the counters describe the
   slots consumed so far; a test-list command never advances *)
Definition ck (f : frame) : Prop :=
  (f_rargs f = required_args (f_def f) \/
   (f_nextargpos f <= length (d_args (f_def f)) /\
    f_rargs f = count_req (firstn (f_nextargpos f) (d_args (f_def f)))))
  /\ (d_variable_args_nb (f_def f) = true -> f_nextargpos f = 0 /\ f_rargs f = 0).

Definition is_test_val (v : aval) : bool := match v with VTest _ | VTests _ => true | _ => false end.

Definition no_tests_in (args : list (bytes * aval)) : Prop :=
  forall k v, In (k, v) args -> is_test_val v = false.

Definition fi (f : frame) : Prop :=
  twf (f_def f) = true /\ ck f
  /\ (has_test_slot (f_def f) = false -> no_tests_in (f_args f))
  /\ (forall ca, f_curarg f = Some ca -> In ca (d_args (f_def f))).

Definition shape_ok (t : atype) (v : aval) : Prop :=
  match t, v with
  | TyString, VStr _ | TyNumber, VStr _ | TyTag, VStr _ | TyStringList, VList _ => True
  | TyTest, VTests [] => True
  | _, _ => False
  end.

Lemma fi_new_frame : forall d a, twf d = true -> fi (new_frame d a).
Proof.
  intros d a H. unfold fi, ck, no_tests_in, new_frame. cbn.
  split; [exact H|]. split; [split; [right; split; [lia|reflexivity] | intros _; split; reflexivity]|].
  split; [intros _ k v []|intros ca Hc; discriminate].
Qed.

Lemma twf_slots : forall d a, twf d = true -> In a (d_args d) -> slot_val_ok a = true.
Proof.
  intros d a H Hin. unfold twf in H. repeat (apply andb_true_iff in H; destruct H as [H ?]).
  rewrite forallb_forall in H. apply H. exact Hin.
Qed.

(* the single-slot shape of commands that take tests *)
Lemma twf_test_slot : forall d, twf d = true -> has_test_slot d = true ->
  exists a, d_args d = [a] /\ a_required a = true /\ has_vals a = false /\
            ((is_t1 a = true /\ d_variable_args_nb d = false) \/
             (is_tl a = true /\ d_variable_args_nb d = true /\ is_ctest d = true)).
Proof.
  intros d H Ht. unfold twf in H. repeat (apply andb_true_iff in H; destruct H as [H ?]).
  rewrite Ht in *. destruct (d_args d) as [|a [|b l]]; try discriminate.
  exists a. match goal with H1 : (_ && _ && _)%bool = true |- _ => rename H1 into K end.
  apply andb_true_iff in K. destruct K as [K K3]. apply andb_true_iff in K. destruct K as [K1 K2].
  split; auto. split; auto. split; [apply negb_true_iff; exact K2|].
  apply orb_true_iff in K3. destruct K3 as [K3|K3].
  - left. apply andb_true_iff in K3. destruct K3 as [K3 _]. apply andb_true_iff in K3. destruct K3 as [A B].
    split; auto. apply negb_true_iff. exact B.
  - right. repeat (apply andb_true_iff in K3; destruct K3 as [K3 ?]). auto.
Qed.

Lemma twf_no_test_slot : forall d, twf d = true -> has_test_slot d = false -> d_variable_args_nb d = false.
Proof.
  intros d H Ht. unfold twf in H. repeat (apply andb_true_iff in H; destruct H as [H ?]).
  rewrite Ht in *.
  match goal with H1 : (negb (d_variable_args_nb d) && _ && _)%bool = true |- _ => rename H1 into K end.
  repeat (apply andb_true_iff in K; destruct K as [K ?]). apply negb_true_iff. exact K.
Qed.

Lemma is_valid_value_no_crash : forall a t v ce loaded,
  slot_val_ok a = true -> shape_ok t v ->
  (is_valid_type t (a_type a) = true \/ atype_mem t (a_type a) = true) ->
  is_valid_value a v ce loaded <> VCrash.
Proof.
  intros a t v ce loaded Hs Hsh Hty. unfold is_valid_value.
  destruct v as [s|l|n|ns].
  - destruct (a_values a), (a_extension_values a); try discriminate;
      repeat match goal with |- context [if ?c then _ else _] => destruct c
                         | |- context [match ?x with _ => _ end] => destruct x end; discriminate.
  - (* a list: only a stringlist argument; such a slot carries no value test *)
    destruct t; cbn in Hsh; try contradiction.
    unfold slot_val_ok in Hs. repeat (apply andb_true_iff in Hs; destruct Hs as [Hs ?]).
    unfold has_vals in Hs. destruct (a_values a), (a_extension_values a); try discriminate.
    all: exfalso; apply andb_true_iff in Hs; destruct Hs as [Hs _]; apply negb_true_iff in Hs;
      destruct Hty as [Hty|Hty];
      [unfold is_valid_type in Hty; apply orb_true_iff in Hty; destruct Hty as [Hty|Hty];
       [congruence|apply andb_true_iff in Hty; destruct Hty as [Hty _]; discriminate]|congruence].
  - destruct t; cbn in Hsh; contradiction.
  - (* the placeholder of a test argument *)
    destruct t; cbn in Hsh; try contradiction.
    unfold slot_val_ok in Hs. repeat (apply andb_true_iff in Hs; destruct Hs as [Hs ?]).
    unfold has_vals in Hs. destruct (a_values a), (a_extension_values a); try discriminate.
    all: exfalso; apply andb_true_iff in Hs; destruct Hs as [_ Hs]; apply negb_true_iff in Hs;
      unfold slot_is_test in Hs; apply orb_false_iff in Hs; destruct Hs as [Hs _];
      destruct Hty as [Hty|Hty];
      [unfold is_valid_type in Hty; apply orb_true_iff in Hty; destruct Hty as [Hty|Hty];
       [congruence|apply andb_true_iff in Hty; destruct Hty as [Hty _]; discriminate]|congruence].
Qed.

Lemma skipn_cons_facts : forall (A : Type) pos (l : list A) x rest,
  skipn pos l = x :: rest ->
  firstn (S pos) l = firstn pos l ++ [x] /\ S pos <= length l /\ skipn (S pos) l = rest /\ In x l.
Proof.
  intros A. induction pos as [|p IH]; intros l x rest H.
  - cbn in H. subst l. cbn. repeat split; auto. lia.
  - destruct l as [|y l]; [discriminate|]. cbn [skipn] in H. destruct (IH l x rest H) as (A1 & A2 & A3 & A4).
    change (firstn (S (S p)) (y :: l)) with (y :: firstn (S p) l). rewrite A1. cbn [firstn app length skipn].
    repeat split; auto. lia. right. exact A4.
Qed.

Lemma in_assoc_set_inv : forall (V : Type) n (v : V) l k x,
  In (k, x) (assoc_set n v l) -> In (k, x) l \/ x = v.
Proof.
  intros V n v. induction l as [|[k' v'] l IH]; intros k x H; cbn in H.
  - destruct H as [H|[]]. inversion H. auto.
  - destruct (beq n k').
    + destruct H as [H|H]; [inversion H; auto|left; right; exact H].
    + destruct H as [H|H]; [left; left; exact H|]. destruct (IH _ _ H); auto. left. right. assumption.
Qed.

Lemma match_tl : forall (X : Type) (l : list atype) (A B : X),
  match l with [TyTestList] => A | _ => B end =
  if (match l with [TyTestList] => true | _ => false end) then A else B.
Proof. intros X [|[] [|y l]] A B; reflexivity. Qed.

(* results of the scan over the remaining slots *)
Definition scan_post (f : frame) (t : atype) (defs : list argdef) (r : cna) : Prop :=
  match r with
  | CnaCrash => False
  | CnaOk f' None => f' = f /\ count_req defs = 0
  | CnaOk f' (Some ca) =>
      In ca (d_args (f_def f)) /\ f_def f' = f_def f /\ f_attach f' = f_attach f /\ f_children f' = f_children f /\
      fi f' /\
      (t = TyTest ->
       (is_tl ca = true /\ f' = f) \/
       (a_required ca = true /\ atype_mem TyTest (a_type ca) = true /\ is_tl ca = false /\
        f_curarg f' = Some ca /\ f_rargs f' = S (f_rargs f)))
  | _ => True
  end.

Lemma is_valid_type_test : forall l, is_valid_type TyTest l = atype_mem TyTest l.
Proof. intro l. unfold is_valid_type. change (atype_eqb TyTest TyString) with false. cbn. apply orb_false_r. Qed.

Lemma slot_in_has_test : forall d ca, In ca (d_args d) -> slot_is_test ca = true -> has_test_slot d = true.
Proof. intros d ca Hin Hs. unfold has_test_slot. apply existsb_exists. exists ca. auto. Qed.

Lemma atype_mem_test_slot : forall ca, atype_mem TyTest (a_type ca) = true -> slot_is_test ca = true.
Proof. intros ca H. unfold slot_is_test. rewrite H. reflexivity. Qed.

(* the value stored for a non-test argument is not a test value *)
Lemma shape_not_test : forall t v, shape_ok t v -> t <> TyTest -> is_test_val v = false.
Proof. intros t v H Ht. destruct t, v; cbn in H; try contradiction; try reflexivity; congruence. Qed.

Definition upd_req (f : frame) (ca : argdef) (pos : nat) (add : bool) (v : aval) : frame :=
  let f1 := set_counters (set_curarg f (Some ca)) (S pos) (S (f_rargs f)) in
  if add then set_arg f1 (a_name ca) v else f1.

Lemma fi_upd_req : forall f ca pos rest add t v,
  fi f -> skipn pos (d_args (f_def f)) = ca :: rest -> a_required ca = true -> is_tl ca = false ->
  count_req (firstn pos (d_args (f_def f))) = f_rargs f ->
  shape_ok t v -> is_valid_type t (a_type ca) = true ->
  fi (upd_req f ca pos add v).
Proof.
  intros f ca pos rest add t v (Htw & Hck & Hnt & Hcur) Hsk Ereq Etl Hcnt Hsh Hty.
  destruct (skipn_cons_facts _ _ _ _ _ Hsk) as (F1 & F2 & F3 & F4).
  assert (Hdef : f_def (upd_req f ca pos add v) = f_def f) by (unfold upd_req; destruct add; reflexivity).
  unfold fi. rewrite Hdef. split; [exact Htw|]. split; [|split].
  - unfold ck. rewrite Hdef. split.
    + right. unfold upd_req.
      destruct add; cbn [f_nextargpos f_rargs f_def set_arg set_counters set_curarg]; (split; [exact F2|]);
        rewrite F1, count_req_app, Hcnt; unfold count_req; cbn [filter]; rewrite Ereq; cbn [length]; lia.
    + intro Hv. exfalso.
      assert (Ht : has_test_slot (f_def f) = true).
      { destruct (has_test_slot (f_def f)) eqn:E; auto. rewrite (twf_no_test_slot _ Htw E) in Hv. discriminate. }
      destruct (twf_test_slot _ Htw Ht) as (a0 & Ha0 & _ & _ & [(Q1 & Q2)|(Q1 & Q2 & _)]); [congruence|].
      rewrite Ha0 in F4. destruct F4 as [->|[]]. congruence.
  - intros Hts k0 v0 Hin. unfold upd_req in Hin. destruct add; cbn in Hin.
    + apply in_assoc_set_inv in Hin. destruct Hin as [Hin| ->]; [apply (Hnt Hts k0 v0 Hin)|].
      apply (shape_not_test t v Hsh). intros ->. rewrite is_valid_type_test in Hty.
      rewrite (slot_in_has_test _ _ F4 (atype_mem_test_slot _ Hty)) in Hts. discriminate.
    + apply (Hnt Hts k0 v0 Hin).
  - intros ca0 Hc0. unfold upd_req in Hc0. destruct add; cbn in Hc0; inversion Hc0; subst; exact F4.
Qed.

Definition upd_opt (f : frame) (ca : argdef) (takes add : bool) (v : aval) : frame :=
  let f1 := if takes then set_curarg f (Some ca) else f in
  if add then set_arg f1 (a_name ca) v else f1.

Lemma fi_upd_opt : forall f ca takes add t v,
  fi f -> In ca (d_args (f_def f)) -> a_required ca = false ->
  shape_ok t v -> atype_mem t (a_type ca) = true ->
  fi (upd_opt f ca takes add v).
Proof.
  intros f ca takes add t v (Htw & Hck & Hnt & Hcur) F4 Ereq Hsh Hty.
  assert (Hdef : f_def (upd_opt f ca takes add v) = f_def f) by (unfold upd_opt; destruct add, takes; reflexivity).
  assert (Hso := twf_slots _ _ Htw F4).
  assert (Hnott : t <> TyTest).
  { intros ->. unfold slot_val_ok in Hso. repeat (apply andb_true_iff in Hso; destruct Hso as [Hso ?]).
    rewrite (atype_mem_test_slot _ Hty), Ereq in *. discriminate. }
  unfold fi. rewrite Hdef. split; [exact Htw|]. split; [|split].
  - unfold ck in *. rewrite Hdef. unfold upd_opt. destruct add, takes; cbn; exact Hck.
  - intros Hts k0 v0 Hin. unfold upd_opt in Hin. destruct add.
    + assert (Hin' : In (k0, v0) (assoc_set (a_name ca) v (f_args f))) by (destruct takes; exact Hin).
      apply in_assoc_set_inv in Hin'. destruct Hin' as [Hin'| ->]; [apply (Hnt Hts k0 v0 Hin')|].
      apply (shape_not_test t v Hsh Hnott).
    + assert (Hin' : In (k0, v0) (f_args f)) by (destruct takes; exact Hin). apply (Hnt Hts k0 v0 Hin').
  - intros ca0 Hc0. unfold upd_opt in Hc0. destruct add, takes; cbn in Hc0;
      try (inversion Hc0; subst; exact F4); apply (Hcur _ Hc0).
Qed.

Lemma cna_scan_post : forall f t v add ce loaded,
  fi f -> shape_ok t v ->
  forall defs pos,
    skipn pos (d_args (f_def f)) = defs ->
    count_req (firstn pos (d_args (f_def f))) = f_rargs f ->
    scan_post f t defs (cna_scan f defs pos t v add ce loaded).
Proof.
  intros f t v add ce loaded Hfi Hsh.
  induction defs as [|ca rest IH]; intros pos Hsk Hcnt.
  - cbn. split; reflexivity.
  - destruct (skipn_cons_facts _ _ _ _ _ Hsk) as (F1 & F2 & F3 & F4).
    assert (Htw : twf (f_def f) = true) by apply Hfi.
    pose proof (twf_slots _ _ Htw F4) as Hso.
    cbn [cna_scan]. destruct (a_required ca) eqn:Ereq.
    + (* a required slot is never skipped *)
      rewrite match_tl. fold (is_tl ca). destruct (is_tl ca) eqn:Etl.
      * destruct (atype_eqb t TyTest) eqn:Et; cbn [negb]; [|exact I].
        cbn. split; [exact F4|]. split; [reflexivity|]. split; [reflexivity|]. split; [reflexivity|].
        split; [exact Hfi|]. intros _. left. split; [exact Etl|reflexivity].
      * destruct (is_valid_type t (a_type ca)) eqn:Evt; cbn [negb]; [|exact I].
        pose proof (is_valid_value_no_crash ca t v ce loaded Hso Hsh (or_introl Evt)) as Hnc.
        destruct (is_valid_value ca v ce loaded) eqn:Eiv; try exact I; try congruence.
        change (scan_post f t (ca :: rest) (CnaOk (upd_req f ca pos add v) (Some ca))).
        cbn. split; [exact F4|]. unfold upd_req.
        split; [destruct add; reflexivity|]. split; [destruct add; reflexivity|]. split; [destruct add; reflexivity|].
        split; [apply (fi_upd_req f ca pos rest add t v Hfi Hsk Ereq Etl Hcnt Hsh Evt)|].
        intros ->. right. rewrite is_valid_type_test in Evt. repeat split; auto; destruct add; reflexivity.
    + (* an optional slot: taken if the type and the value fit, skipped otherwise *)
      assert (Hskip : scan_post f t (ca :: rest) (cna_scan f rest (S pos) t v add ce loaded)).
      { specialize (IH (S pos) F3).
        assert (Hc' : count_req (firstn (S pos) (d_args (f_def f))) = f_rargs f).
        { rewrite F1, count_req_app, Hcnt. unfold count_req. cbn. rewrite Ereq. cbn. lia. }
        specialize (IH Hc'). unfold scan_post in *.
        destruct (cna_scan f rest (S pos) t v add ce loaded) as [f' [ca'|]| | |]; auto.
        destruct IH as (A & B). split; auto. unfold count_req in *. cbn. rewrite Ereq. exact B. }
      destruct (atype_mem t (a_type ca)) eqn:Emem; [|exact Hskip].
      pose proof (is_valid_value_no_crash ca t v ce loaded Hso Hsh (or_intror Emem)) as Hnc.
      destruct (is_valid_value ca v ce loaded) eqn:Eiv; try exact I; try congruence; try exact Hskip.
      match goal with |- context [match ?m with Some ext => CnaErr _ | None => _ end] => destruct m end; [exact I|].
      match goal with |- context [if ?tk then set_curarg f (Some ca) else f] => set (takes := tk) end.
      change (scan_post f t (ca :: rest) (CnaOk (upd_opt f ca takes add v) (Some ca))).
      cbn. split; [exact F4|]. unfold upd_opt.
      split; [destruct add, takes; reflexivity|]. split; [destruct add, takes; reflexivity|].
      split; [destruct add, takes; reflexivity|].
      split; [apply (fi_upd_opt f ca takes add t v Hfi F4 Ereq Hsh Emem)|].
      intros ->. exfalso. unfold slot_val_ok in Hso. repeat (apply andb_true_iff in Hso; destruct Hso as [Hso ?]).
      rewrite (atype_mem_test_slot _ Emem), Ereq in *. discriminate.
Qed.

Definition cna_post (f : frame) (t : atype) (r : cna) : Prop :=
  match r with
  | CnaCrash => False
  | CnaOk f' slot =>
      f_def f' = f_def f /\ f_attach f' = f_attach f /\ f_children f' = f_children f /\ fi f' /\
      (t = TyTest ->
       exists ca, slot = Some ca /\ d_args (f_def f) = [ca] /\
                  ((is_tl ca = true /\ f' = f) \/ (is_t1 ca = true /\ iscomplete f' None = true)))
  | _ => True
  end.

Lemma is_tl_slot_test : forall ca, is_tl ca = true -> slot_is_test ca = true.
Proof.
  intros ca H. unfold is_tl in H. unfold slot_is_test.
  destruct (a_type ca) as [|[] [|y l]]; try discriminate. reflexivity.
Qed.

(* in the states where check_next_arg scans, the counters describe the consumed slots *)
Lemma scan_counters : forall f arg,
  fi f -> iscomplete f arg = false ->
  (match f_curarg f with Some ca => match a_extra ca with Some _ => False | None => True end | None => True end) ->
  count_req (firstn (f_nextargpos f) (d_args (f_def f))) = f_rargs f /\
  count_req (skipn (f_nextargpos f) (d_args (f_def f))) <> 0.
Proof.
  intros f arg (Htw & (Hck & Hvar) & _ & _) Hic Hcur.
  unfold iscomplete in Hic. destruct (d_variable_args_nb (f_def f)) eqn:Ev.
  - destruct (Hvar eq_refl) as (Hp & Hr). rewrite Hp, Hr. cbn. split; [reflexivity|].
    assert (Ht : has_test_slot (f_def f) = true).
    { destruct (has_test_slot (f_def f)) eqn:E; auto. rewrite (twf_no_test_slot _ Htw E) in Ev. discriminate. }
    destruct (twf_test_slot _ Htw Ht) as (a0 & Ha0 & Hreq & _). rewrite Ha0. unfold count_req. cbn. rewrite Hreq. discriminate.
  - assert (Hne : Nat.eqb (f_rargs f) (required_args (f_def f)) = false).
    { destruct (f_curarg f) as [ca|]; [destruct (a_extra ca); [contradiction|]|]; cbn in Hic; exact Hic. }
    apply Nat.eqb_neq in Hne. destruct Hck as [Hck|(Hle & Hck)]; [congruence|].
    split; [symmetry; exact Hck|].
    rewrite (required_args_split (f_def f) (f_nextargpos f)) in Hne. lia.
Qed.

Lemma cna_post_holds : forall f t v add ce loaded,
  fi f -> shape_ok t v -> cna_post f t (check_next_arg f t v add ce loaded).
Proof.
  intros f t v add ce loaded Hfi Hsh. unfold check_next_arg.
  destruct (negb (has_arguments (f_def f))); [exact I|].
  destruct (iscomplete f (Some (t, v))) eqn:Eic; [exact I|].
  assert (Htw : twf (f_def f) = true) by apply Hfi.
  assert (Hscan : (match f_curarg f with Some ca => match a_extra ca with Some _ => False | None => True end | None => True end) ->
                  cna_post f t (cna_scan f (skipn (f_nextargpos f) (d_args (f_def f))) (f_nextargpos f) t v add ce loaded)).
  { intro Hc. destruct (scan_counters f _ Hfi Eic Hc) as (Hcnt & Hrem).
    pose proof (cna_scan_post f t v add ce loaded Hfi Hsh _ _ eq_refl Hcnt) as P.
    destruct (cna_scan f (skipn (f_nextargpos f) (d_args (f_def f))) (f_nextargpos f) t v add ce loaded) as [f' [ca|]| | |] eqn:Es;
      cbn in P |- *; auto.
    - destruct P as (Hin & Hd & Ha & Hch & Hf' & Htest).
      split; [exact Hd|]. split; [exact Ha|]. split; [exact Hch|]. split; [exact Hf'|].
      intros ->. specialize (Htest eq_refl). exists ca. split; [reflexivity|].
      assert (Hst : slot_is_test ca = true).
      { destruct Htest as [(Htl & _)|(_ & Hm & _)]; [apply is_tl_slot_test; exact Htl|apply atype_mem_test_slot; exact Hm]. }
      destruct (twf_test_slot _ Htw (slot_in_has_test _ _ Hin Hst)) as (a0 & Ha0 & Hreq & _ & Hkind).
      rewrite Ha0 in Hin. destruct Hin as [->|[]]. split; [exact Ha0|].
      destruct Htest as [(Htl & ->)|(_ & Hm & Hntl & Hcur' & Hr')]; [left; auto|].
      right. destruct Hkind as [(Ht1 & Hnv)|(Htl & _)]; [|congruence]. split; [exact Ht1|].
      (* the command now has its only argument *)
      assert (Hn0 : f_nextargpos f = 0).
      { destruct (f_nextargpos f) as [|n] eqn:En; auto. rewrite Ha0 in Es. cbn in Es. destruct n; cbn in Es; discriminate. }
      rewrite Hn0 in Hcnt. cbn in Hcnt.
      unfold iscomplete. rewrite Hd, Hnv, Hcur'.
      assert (Hnoex : a_extra ca = None).
      { assert (Hso : slot_val_ok ca = true) by (apply (twf_slots _ _ Htw); rewrite Ha0; left; reflexivity).
        unfold slot_val_ok in Hso. repeat (apply andb_true_iff in Hso; destruct Hso as [Hso ?]).
        rewrite Hreq in *. destruct (a_extra ca); [discriminate|reflexivity]. }
      rewrite Hnoex. cbn. unfold required_args. rewrite Ha0. cbn. rewrite Hreq. cbn. rewrite Hr', <- Hcnt. reflexivity.
    - destruct P as (-> & Hz). contradiction. }
  destruct (f_curarg f) as [ca|] eqn:Ecur; [|apply Hscan; exact I].
  destruct (a_extra ca) as [ex|] eqn:Eex; [|apply Hscan; exact I].
  match goal with |- cna_post _ _ (if ?c then _ else _) => destruct c eqn:Ec end; [|exact I].
  destruct Hfi as (_ & Hck & Hnt & Hcur).
  cbn. split; [destruct add; reflexivity|]. split; [destruct add; reflexivity|]. split; [destruct add; reflexivity|].
  split.
  - assert (G : forall g, f_def g = f_def f -> f_args g = f_args f -> f_nextargpos g = f_nextargpos f ->
                       f_rargs g = f_rargs f -> f_curarg g = None -> fi g).
    { intros g G1 G2 G3 G4 G5. unfold fi, ck. rewrite G1, G2, G3, G4, G5.
      split; [exact Htw|]. split; [exact Hck|]. split; [exact Hnt|]. intros ca0 Hc0. discriminate. }
    destruct add; apply G; reflexivity.
  - intros ->. exfalso. apply andb_true_iff in Ec. destruct Ec as [Ec _].
    pose proof (twf_slots _ _ Htw (Hcur _ Ecur)) as Hso.
    unfold slot_val_ok in Hso. repeat (apply andb_true_iff in Hso; destruct Hso as [Hso ?]).
    rewrite Eex in *. match goal with H : negb (extype_has TyTest (ex_type ex)) = true |- _ => apply negb_true_iff in H; congruence end.
Qed.

(* iscomplete only looks at the definition, the pending slot and the required-argument counter *)
Lemma iscomplete_ext : forall f g arg,
  f_def g = f_def f -> f_curarg g = f_curarg f -> f_rargs g = f_rargs f -> iscomplete g arg = iscomplete f arg.
Proof. intros f g arg H1 H2 H3. unfold iscomplete. rewrite H1, H2, H3. reflexivity. Qed.

Lemma iscomplete_test_arg : forall f v, fi f -> iscomplete f (Some (TyTest, v)) = iscomplete f None.
Proof.
  intros f v (Htw & _ & _ & Hcur). unfold iscomplete.
  destruct (d_variable_args_nb (f_def f)); auto.
  destruct (f_curarg f) as [ca|] eqn:Ec; auto.
  destruct (a_extra ca) as [ex|] eqn:Ee; auto.
  destruct (ex_valid_for ex); auto.
  pose proof (twf_slots _ _ Htw (Hcur _ eq_refl)) as Hso.
  unfold slot_val_ok in Hso. repeat (apply andb_true_iff in Hso; destruct Hso as [Hso ?]).
  rewrite Ee in *.
  match goal with H : negb (extype_has TyTest (ex_type ex)) = true |- _ => apply negb_true_iff in H; rewrite H end.
  reflexivity.
Qed.

Lemma accepts_no_test : forall f add ce loaded,
  fi f -> (has_test_slot (f_def f) = false \/ iscomplete f None = true) ->
  match check_next_arg f TyTest placeholder add ce loaded with
  | CnaOk _ _ => False | CnaCrash => False | _ => True
  end.
Proof.
  intros f add ce loaded Hfi H.
  pose proof (cna_post_holds f TyTest placeholder add ce loaded Hfi I) as P.
  destruct (check_next_arg f TyTest placeholder add ce loaded) as [f' slot| | |] eqn:E; auto.
  destruct P as (_ & _ & _ & _ & P). destruct (P eq_refl) as (ca & _ & Hargs & Hk).
  destruct H as [H|H].
  - assert (has_test_slot (f_def f) = true); [|congruence].
    apply (slot_in_has_test _ ca); [rewrite Hargs; left; reflexivity|].
    destruct Hk as [(Hk & _)|(Hk & _)]; [apply is_tl_slot_test; exact Hk|].
    unfold is_t1 in Hk. unfold slot_is_test. destruct (a_type ca) as [|[] [|y l]]; try discriminate. reflexivity.
  - unfold check_next_arg in E. destruct (negb (has_arguments (f_def f))); [discriminate|].
    rewrite (iscomplete_test_arg f _ Hfi), H in E. discriminate.
Qed.

(* a command that accepted a string / number / tag / string list takes no tests *)
Lemma cna_nontest : forall f t v add ce loaded f' slot,
  fi f -> shape_ok t v -> t <> TyTest ->
  check_next_arg f t v add ce loaded = CnaOk f' slot -> has_test_slot (f_def f) = false.
Proof.
  intros f t v add ce loaded f' slot Hfi Hsh Ht E.
  destruct (has_test_slot (f_def f)) eqn:Hts; auto. exfalso.
  assert (Htw : twf (f_def f) = true) by apply Hfi.
  destruct (twf_test_slot _ Htw Hts) as (a0 & Ha0 & Hreq & Hnv & Hkind).
  assert (Hso : slot_val_ok a0 = true) by (apply (twf_slots _ _ Htw); rewrite Ha0; left; reflexivity).
  assert (Hnoex : a_extra a0 = None).
  { unfold slot_val_ok in Hso. repeat (apply andb_true_iff in Hso; destruct Hso as [Hso ?]).
    rewrite Hreq in *. destruct (a_extra a0); [discriminate|reflexivity]. }
  unfold check_next_arg in E. destruct (negb (has_arguments (f_def f))); [discriminate|].
  destruct (iscomplete f (Some (t, v))) eqn:Eic; [discriminate|].
  assert (Hc : match f_curarg f with Some ca => match a_extra ca with Some _ => False | None => True end | None => True end).
  { destruct (f_curarg f) as [ca|] eqn:Ec; auto.
    destruct Hfi as (_ & _ & _ & Hcur). pose proof (Hcur _ Ec) as Hin. rewrite Ha0 in Hin.
    destruct Hin as [<-|[]]. rewrite Hnoex. exact I. }
  destruct (scan_counters f _ Hfi Eic Hc) as (Hcnt & Hrem).
  assert (Hn0 : f_nextargpos f = 0).
  { destruct (f_nextargpos f) as [|n]; auto. rewrite Ha0 in Hrem. destruct n; cbn in Hrem; congruence. }
  assert (Es : cna_scan f [a0] 0 t v add ce loaded = CnaOk f' slot).
  { destruct (f_curarg f) as [ca|] eqn:Ec.
    - destruct (a_extra ca); [contradiction|]. rewrite Hn0, Ha0 in E. exact E.
    - rewrite Hn0, Ha0 in E. exact E. }
  cbn [cna_scan] in Es. rewrite Hreq, match_tl in Es. fold (is_tl a0) in Es.
  assert (Hneq : atype_eqb t TyTest = false) by (destruct t, v; cbn in Hsh; try contradiction; try reflexivity; congruence).
  destruct Hkind as [(Ht1 & _)|(Htl & _)].
  - assert (Htl : is_tl a0 = false) by (unfold is_tl, is_t1 in *; destruct (a_type a0) as [|[] [|y l]]; try discriminate; reflexivity).
    rewrite Htl in Es.
    assert (Hvt : is_valid_type t (a_type a0) = false).
    { unfold is_t1 in Ht1. destruct (a_type a0) as [|[] [|y l]]; try discriminate.
      unfold is_valid_type. cbn [atype_mem]. rewrite Hneq. cbn. rewrite andb_false_r. reflexivity. }
    rewrite Hvt in Es. discriminate.
  - rewrite Htl, Hneq in Es. discriminate.
Qed.

Lemma assoc_get_In : forall (V : Type) k (l : list (bytes * V)) v, assoc_get k l = Some v -> exists k', In (k', v) l.
Proof.
  intros V k. induction l as [|[k' v'] l IH]; intros v H; cbn in H; [discriminate|].
  destruct (beq k k'); [inversion H; subst; exists k'; left; reflexivity|].
  destruct (IH _ H) as (k2 & Hin). exists k2. right. exact Hin.
Qed.

Lemma assoc_del_incl : forall (V : Type) k (l : list (bytes * V)) x, In x (assoc_del k l) -> In x l.
Proof.
  intros V k. induction l as [|[k' v'] l IH]; intros x H; cbn in H; [contradiction|].
  destruct (beq k k'); [right; exact H|]. destruct H as [H|H]; [left; exact H|right; apply IH; exact H].
Qed.

Lemma twf_reassign : forall d, twf d = true -> d_reassign d = RHasflag -> required_args d = 1.
Proof.
  intros d H Hr. unfold twf in H. repeat (apply andb_true_iff in H; destruct H as [H ?]).
  rewrite Hr in *. apply Nat.eqb_eq. assumption.
Qed.

Lemma fi_reassign : forall f f',
  fi f -> has_test_slot (f_def f) = false -> reassign_arguments f = Some f' ->
  fi f' /\ f_def f' = f_def f /\ f_attach f' = f_attach f /\ f_children f' = f_children f.
Proof.
  intros f f' Hfi Hts H. pose proof Hfi as (Htw & Hck & Hnt & Hcur). unfold reassign_arguments in H.
  destruct (d_reassign (f_def f)) eqn:Er; [discriminate|].
  match type of H with context [assoc_get ?vl (f_args f)] => destruct (assoc_get vl (f_args f)) as [v|] eqn:Ev end.
  - match type of H with context [assoc_get ?lf (f_args f)] => destruct (assoc_get lf (f_args f)) as [w|] eqn:Ew end;
      inversion H; subst f'; clear H.
    + split; [exact Hfi|repeat split].
    + split; [|repeat split]. unfold fi, ck. cbn. split; [exact Htw|]. split.
      * split; [left; symmetry; apply twf_reassign; assumption|].
        intro Hv. rewrite (twf_no_test_slot _ Htw Hts) in Hv. discriminate.
      * split; [|exact Hcur].
        intros _ k x Hin. apply in_app_or in Hin. destruct Hin as [Hin|[Hin|[]]].
        -- apply (Hnt Hts k x). eapply assoc_del_incl. exact Hin.
        -- inversion Hin; subst. destruct (assoc_get_In _ _ _ _ Ev) as (k' & Hk'). apply (Hnt Hts k' x Hk').
  - inversion H; subst f'. split; [exact Hfi|repeat split].
Qed.

Lemma fi_attach : forall c p,
  fi p ->
  (match f_attach c with AtTest _ | AtTestList _ => has_test_slot (f_def p) = true | _ => True end) ->
  fi (attach_into c p) /\ f_def (attach_into c p) = f_def p /\ f_attach (attach_into c p) = f_attach p /\
  f_curarg (attach_into c p) = f_curarg p /\ f_rargs (attach_into c p) = f_rargs p /\
  f_nextargpos (attach_into c p) = f_nextargpos p.
Proof.
  intros c p Hfi Ha. pose proof Hfi as (Htw & Hck & Hnt & Hcur). unfold attach_into.
  destruct (f_attach c) as [| |slot|slot].
  - split; [exact Hfi|repeat split].
  - split; [|repeat split]. unfold fi, ck in *. cbn. exact Hfi.
  - split; [|repeat split]. unfold fi, ck in *. cbn. split; [exact Htw|]. split; [exact Hck|]. split; [|exact Hcur].
    intro Hts. rewrite Ha in Hts. discriminate.
  - split; [|repeat split]. unfold append_test. unfold fi, ck in *. cbn. split; [exact Htw|]. split; [exact Hck|]. split; [|exact Hcur].
    intro Hts. rewrite Ha in Hts. discriminate.
Qed.
