(* RemovalFacts.v — C07, removal direction, for scripts: the two scripts start with commands of the grammar (the
   `require` commands, written differently) and continue with the same tokens. *)
From Coq Require Import List NArith Bool Arith Lia.
From Coq Require String.
Import String.StringSyntax.
From SV Require Import lib.Bytes sieve.Lexer sieve.Tables sieve.ArgCheck sieve.ArgSpec sieve.Machine
  sieve.GateFacts sieve.PositionFacts sieve.TotalFacts sieve.CompleteFacts sieve.CompleteTree sieve.LessLoaded gen.GenTables.
Import ListNotations.
Local Close Scope N_scope.
Local Open Scope string_scope.

Lemma fold_emit1_top : forall ns res,
  fold_left emit1 ns (@nil frame, @nil bytes, res) = ([], [], res ++ map (fun n => with_comments n []) ns).
Proof.
  induction ns as [|n ns IH]; intro res; cbn [fold_left map]; [rewrite app_nil_r; reflexivity|].
  cbn [emit1]. rewrite IH, <- app_assoc. reflexivity.
Qed.

Lemma names_with_comments : forall ns, names (map (fun n => with_comments n []) ns) = names ns.
Proof. induction ns as [|[d a e k c] ns IH]; [reflexivity|]. cbn [map names] in *. unfold names in *. cbn [map]. rewrite IH. reflexivity. Qed.

(* two prefixes of the grammar, the second loading fewer extensions, leave the parser in related states *)
Lemma prefixes_related : forall T cs cs' ns ns' L L',
  twf_tables T = true ->
  wf_cmds T [] None cs ns L -> wf_cmds T [] None cs' ns' L' ->
  LessLoaded.sub L' L -> names ns = names ns' ->
  exists stA stB, steps T p_init (flat_map toks_cmd cs) = Some stA /\
                  steps T p_init (flat_map toks_cmd cs') = Some stB /\ simst stA stB.
Proof.
  intros T cs cs' ns ns' L L' HT W W' Hs Hn.
  assert (Rdy : ready p_init) by (repeat split).
  destruct (run_cmds T HT [] None cs ns L W p_init Rdy eq_refl eq_refl) as (stA & SA & CA & EA & LA & BA & PA).
  destruct (run_cmds T HT [] None cs' ns' L' W' p_init Rdy eq_refl eq_refl) as (stB & SB & CB & EB & LB & BB & PB).
  exists stA, stB. split; [exact SA|]. split; [exact SB|].
  unfold place_of in PA, PB. cbn [p_init p_stack p_hash p_result] in PA, PB. rewrite fold_emit1_top in PA, PB. cbn [app] in PA, PB.
  injection PA as PA1 PA2 PA3. injection PB as PB1 PB2 PB3.
  destruct stA as [stkA csA clA exA brA ldA hsA rsA]. destruct stB as [stkB csB clB exB brB ldB hsB rsB].
  cbn in *. subst.
  exists clB, L', (map (fun n => with_comments n []) ns'). split; [reflexivity|].
  split; [exact Hs|]. split; [cbn; rewrite !names_with_comments; exact Hn|cbn; discriminate].
Qed.

(* C07, removal direction, for two scripts that begin with commands of the grammar -- in practice `require` commands
   listing different extensions -- and continue with the same tokens *)
Theorem removal_rejects : forall T full red pre pre' rest rest' cs cs' ns ns' L L' r,
  twf_tables T = true ->
  snd (lex full) = None -> snd (lex red) = None ->
  fst (lex full) = pre ++ rest -> fst (lex red) = pre' ++ rest' -> Forall2 tok_eq rest rest' ->
  map strip_pos pre = flat_map toks_cmd cs -> map strip_pos pre' = flat_map toks_cmd cs' ->
  wf_cmds T [] None cs ns L -> wf_cmds T [] None cs' ns' L' ->
  LessLoaded.sub L' L -> names ns = names ns' ->
  parse T full = Accept r ->
  (exists r', parse T red = Accept r' /\ names r = names r') \/
  (exists x t' s s', In t' rest' /\ parse T red = Reject (EExtNotLoaded x) (t_pos t') (length (t_val t')) /\
                     simst s s' /\ lacks (p_loaded s) (p_loaded s') x).
Proof.
  intros T full red pre pre' rest rest' cs cs' ns ns' L L' r HT El El' Et Et' Hrest Hp Hp' W W' Hs Hn Hacc.
  destruct (prefixes_related T cs cs' ns ns' L L' HT W W' Hs Hn) as (stA & stB & SA & SB & S).
  rewrite <- Hp in SA. rewrite <- Hp' in SB.
  exact (removal_dichotomy T full red pre pre' rest rest' stA stB r HT El El' Et Et' Hrest SA SB S Hacc).
Qed.

(* an instance on the tables generated from /repo: `copy` removed from the require *)
Definition ex_full : bytes := bs "require [""fileinto"", ""copy""]; if true { fileinto :copy ""x""; }".
Definition ex_red : bytes := bs "require [""fileinto""]; if true { fileinto :copy ""x""; }".

Example ex_removal :
  (exists r, parse gen_tables ex_full = Accept r) /\
  parse gen_tables ex_red = Reject (EExtNotLoaded (bs "copy")) 41 5.
Proof. split; [eexists|]; vm_compute; reflexivity. Qed.

Print Assumptions removal_rejects.
