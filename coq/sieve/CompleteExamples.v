(* Non-vacuity of the completeness theorems on the tables generated from the code: a concrete script with
   require, if / elsif / else, a test list, a one-test test, nested blocks and tagged arguments is derivable
   in the grammar of CompleteTree, and [parse_script] gives its tree. *)
From Coq Require Import List NArith Bool Arith Lia String.
From SV Require Import lib.Bytes sieve.Lexer sieve.Tables sieve.ArgCheck sieve.ArgSpec sieve.Machine
  gen.GenTables sieve.ArgCheckFacts sieve.TotalFacts sieve.CompleteFacts sieve.CompleteTree.
Import ListNotations.
Local Open Scope string_scope.

Definition q (s : string) : bytes := ((34%N :: bs s) ++ [34%N])%list.

Definition ex_script : list gcmd :=
  [ GAct (bs "require") [(TyStringList, VList [q "fileinto"; q "envelope"])];
    GCtl (bs "if")
         (GList (bs "anyof")
                [GSimple (bs "header") [(TyTag, VStr (bs ":contains")); (TyString, VStr (q "Subject")); (TyStringList, VList [q "a"; q "b"])];
                 GNot (bs "not") (GSimple (bs "exists") [(TyString, VStr (q "X-Spam"))]);
                 GSimple (bs "true") []])
         [ GAct (bs "fileinto") [(TyString, VStr (q "Junk"))];
           GCtl (bs "if") (GSimple (bs "size") [(TyTag, VStr (bs ":over")); (TyNumber, VStr (bs "100K"))])
                [GAct (bs "stop") []] ];
    GCtl (bs "elsif") (GSimple (bs "envelope") [(TyTag, VStr (bs ":is")); (TyString, VStr (q "from")); (TyString, VStr (q "x@y"))])
         [GAct (bs "discard") []];
    GElse (bs "else") [GAct (bs "stop") []] ].

Definition ex_text : bytes :=
  bs "require [""fileinto"", ""envelope""];
if anyof (header :contains ""Subject"" [""a"",""b""], not exists ""X-Spam"", true) {
    fileinto ""Junk"";
    if size :over 100K { stop; }
} elsif envelope :is ""from"" ""x@y"" { discard; }
else { stop; }
".

Definition ex_tree : list node :=
  match parse gen_tables ex_text with Accept r => r | _ => [] end.

Example ex_lexes : snd (lex ex_text) = None /\ map strip_pos (fst (lex ex_text)) = flat_map toks_cmd ex_script.
Proof. vm_compute. split; reflexivity. Qed.


Ltac vmr := vm_compute; reflexivity.
Ltac argok :=
  repeat (apply Forall_cons || apply Forall_nil);
  try (cbn; exact I); try vmr;
  try (split; [discriminate | repeat (apply Forall_cons || apply Forall_nil); vmr]).
Ltac act := eapply wf_act; [vmr | vm_compute; congruence | vmr | vmr | vmr | argok | vmr | vmr | vm_compute; reflexivity].
Ltac simple_t := eapply wf_simple; [vmr | vmr | vmr | vmr | vmr | vmr | argok | vmr].

Example ex_wf : exists L' ns, wf_cmds gen_tables [] None ex_script ns L' /\ parse gen_tables ex_text = Accept ns.
Proof.
  eexists. eexists. split.
  - unfold ex_script.
    eapply wf_cons; [act|].
    eapply wf_cons.
    { eapply wf_ctl; [vmr|vmr|vmr|vmr|vmr|vmr| |].
      - eapply wf_list; [vmr|vmr|vmr|vmr|vmr|discriminate|].
        apply Forall2_cons; [simple_t|].
        apply Forall2_cons; [eapply wf_not; [vmr|vmr|vmr|vmr|simple_t]|].
        apply Forall2_cons; [simple_t|]. apply Forall2_nil.
      - eapply wf_cons; [act|].
        eapply wf_cons; [|apply wf_nil].
        eapply wf_ctl; [vmr|vmr|vmr|vmr|vmr|vmr|simple_t|].
        eapply wf_cons; [act|apply wf_nil]. }
    eapply wf_cons.
    { eapply wf_ctl; [vmr|vmr|vmr|vmr|vmr|vmr|simple_t|]. eapply wf_cons; [act|apply wf_nil]. }
    eapply wf_cons; [|apply wf_nil].
    eapply wf_else; [vmr|vmr|vmr|vmr|vmr|]. eapply wf_cons; [act|apply wf_nil].
  - vm_compute. reflexivity.
Qed.

(* the theorem applied: any derivation for this script gives the tree the parser returns for this text *)
Example ex_by_theorem : forall ns L',
  wf_cmds gen_tables [] None ex_script ns L' -> parse gen_tables ex_text = Accept ns.
Proof.
  intros ns L' Hwf.
  exact (parse_script gen_tables ex_text ex_script ns L' twf_gen_tables (proj1 ex_lexes) (proj2 ex_lexes) Hwf).
Qed.

(* a multi-line ("text:") string as an argument *)
Definition ex_ml_value : bytes :=
  (bs "text:" ++ [10%N] ++ bs "Dear sender," ++ [10%N] ++ bs "..not for you" ++ [10%N] ++ bs ".")%list.

Definition ex_ml_text : bytes := (bs "require ""reject""; reject " ++ ex_ml_value ++ [10%N] ++ bs ";")%list.

Definition ex_ml_script : list gcmd :=
  [ GAct (bs "require") [(TyString, VStr (q "reject"))];
    GAct (bs "reject") [(TyString, VStr ex_ml_value)] ].

Example ex_ml_lexes : snd (lex ex_ml_text) = None /\ map strip_pos (fst (lex ex_ml_text)) = flat_map toks_cmd ex_ml_script.
Proof. vm_compute. split; reflexivity. Qed.

Example ex_ml_wf : exists L' ns, wf_cmds gen_tables [] None ex_ml_script ns L' /\ parse gen_tables ex_ml_text = Accept ns.
Proof.
  eexists. eexists. split.
  - unfold ex_ml_script. eapply wf_cons; [act|]. eapply wf_cons; [act|apply wf_nil].
  - vm_compute. reflexivity.
Qed.

Print Assumptions ex_wf.
