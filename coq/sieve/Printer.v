(* Printer.v — executable model of Command.tosieve (definitions only).  Recursion over the
   nested tree uses explicit fuel (any fuel above the nesting depth gives the same text). *)
From Coq Require Import List NArith Bool.
From SV Require Import Bytes Lexer Tables.
Import ListNotations.

Definition spaces (n : nat) : bytes := repeat 32%N n.

Fixpoint find_def (defs : list argdef) (name : bytes) : option argdef :=
  match defs with
  | [] => None
  | a :: t => if beq (a_name a) name then Some a else find_def t name
  end.

(* an item of a string list: printed as it is when it already is a quoted string *)
Definition print_item (v : bytes) : bytes :=
  if (Nat.ltb 1 (length v)) && starts_with [34%N] v && ends_with [34%N] v then v
  else [34%N] ++ strip_dq v ++ [34%N].

Definition print_items (vs : list bytes) : bytes :=
  [91%N] ++ join [44%N; 32%N] (map print_item vs) ++ [93%N].

(* "string" in atype, for the two shapes atype can have *)
Definition has_string_list (l : list atype) : bool := atype_mem TyString l.
Definition has_string_ex (e : extype) : bool := extype_has TyString e.

Definition print_scalar (is_string : bool) (v : bytes) : bytes :=
  if is_string then
    v ++ (if starts_with [34%N] v || starts_with [91%N] v then [] else [10%N])
  else v.

Fixpoint tosieve (fuel : nat) (n : node) (indent : nat) : bytes :=
  match fuel with
  | O => []
  | S f =>
      let d := node_def n in
      let fix tests (l : list node) : bytes :=
          match l with
          | [] => []
          | [t] => tosieve f t 0
          | t :: r => tosieve f t 0 ++ [44%N; 32%N] ++ tests r
          end in
      let print_value (is_string : bool) (name : bytes) (v : aval) : bytes :=
          match v with
          | VTests l =>
              match find_def (d_args d) name with
              | Some a => match a_type a with
                          | [TyTestList] => [40%N] ++ tests l ++ [41%N]
                          | _ => print_items []
                          end
              | None => print_items []
              end
          | VList vs =>
              match find_def (d_args d) name with
              | Some a => match a_type a with
                          | [TyTestList] => [40%N; 41%N]
                          | _ => print_items vs
                          end
              | None => print_items vs
              end
          | VTest t => tosieve f t indent
          | VStr s => print_scalar is_string s
          end in
      let fix args (defs : list argdef) : bytes :=
          match defs with
          | [] => []
          | a :: rest =>
              match assoc_get (a_name a) (node_args n) with
              | None => args rest
              | Some v =>
                  [32%N] ++
                  (if atype_mem TyTag (a_type a) then
                     (match v with VStr s => s | _ => [] end) ++
                     (match assoc_get (a_name a) (node_extra n), a_extra a with
                      | Some ev, Some ex => [32%N] ++ print_value (has_string_ex (ex_type ex)) (a_name a) ev
                      | _, _ => []
                      end)
                   else print_value (has_string_list (a_type a)) (a_name a) v)
                  ++ args rest
              end
          end in
      let fix kids (l : list node) : bytes :=
          match l with
          | [] => []
          | c :: r => tosieve f c (indent + 4) ++ kids r
          end in
      spaces indent ++ d_name d ++ args (d_args d) ++
      (if negb (d_accept_children d) then
         match d_type d with CTest => [] | _ => [59%N; 10%N] end
       else match d_type d with
            | CControl => [32%N; 123%N; 10%N] ++ kids (node_children n) ++ spaces indent ++ [125%N; 10%N]
            | _ => []
            end)
  end.

Definition tosieve_all (fuel : nat) (ns : list node) : bytes :=
  concat (map (fun n => tosieve fuel n 0) ns).
